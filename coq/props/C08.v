From V.lib Require Import Prelude.
From V.model Require Import Xlsx.
From V.proofs Require Import Xlsx_proofs.

Theorem C08_stub : True.
Proof. exact stub_true. Qed.
Print Assumptions C08_stub.
