(** Lemmas for C08 over model/Xlsx.v. *)
From V.lib Require Import Prelude.
From V.model Require Import Xlsx.
From Coq Require Import ZifyBool.
Open Scope N_scope.
Ltac Zify.zify_post_hook ::= Z.to_euclidean_division_equations.

(** * 1. Column references: bijective base 26 *)

Fixpoint valr (l : str) (a : N) : N :=
  match l with [] => a | ch :: l' => valr l' (a * 26 + (ch - 64)) end.

Lemma parse_col_valr l : parse_col l = valr l 0.
Proof. unfold parse_col. generalize 0. induction l; simpl; auto. Qed.

Lemma valr_shift l : forall a, valr l a = valr l 0 + a * 26 ^ (N.of_nat (length l)).
Proof.
  induction l as [|d l IH]; intros a; cbn [valr length].
  - rewrite N.pow_0_r. lia.
  - rewrite (IH (a * 26 + _)), (IH (0 * 26 + _)).
    rewrite Nat2N.inj_succ, N.pow_succ_r by lia. lia.
Qed.

Lemma colref_loop_val : forall fuel n acc, n < 26 ^ (N.of_nat fuel) ->
  valr (colref_loop fuel n acc) 0 = n * 26 ^ (N.of_nat (length acc)) + valr acc 0.
Proof.
  induction fuel as [|f IH]; intros n acc Hn.
  - cbn [N.of_nat] in Hn. rewrite N.pow_0_r in Hn. assert (n = 0) by lia. subst. cbn [colref_loop]. lia.
  - cbn [colref_loop]. destruct (n =? 0) eqn:E.
    + assert (n = 0) by lia. subst. lia.
    + rewrite Nat2N.inj_succ, N.pow_succ_r in Hn by lia.
      rewrite IH.
      * cbn [length valr]. rewrite Nat2N.inj_succ, N.pow_succ_r by lia.
        set (Pw := 26 ^ N.of_nat (length acc)).
        rewrite (valr_shift acc (0 * 26 + _)). fold Pw.
        set (r := if n mod 26 =? 0 then 26 else n mod 26).
        assert (Hr : 1 <= r <= 26) by (unfold r; destruct (n mod 26 =? 0) eqn:E2; lia).
        assert (Hd : n = ((n - 1) / 26) * 26 + r) by (unfold r; destruct (n mod 26 =? 0) eqn:E2; lia).
        set (q := (n - 1) / 26) in *.
        replace (65 + r - 1 - 64) with r by lia.
        assert (Hm : n * Pw = (q * 26 + r) * Pw) by (f_equal; exact Hd).
        rewrite Hm. lia.
      * assert (0 < 26 ^ N.of_nat f) by (apply N.neq_0_lt_0, N.pow_nonzero; lia). lia.
Qed.

Lemma colref_loop_letters : forall fuel n acc,
  Forall (fun ch => 65 <= ch <= 90) acc ->
  Forall (fun ch => 65 <= ch <= 90) (colref_loop fuel n acc).
Proof.
  induction fuel as [|f IH]; intros n acc Ha; cbn [colref_loop]; auto.
  destruct (n =? 0) eqn:E; auto. apply IH. constructor; auto.
  destruct (n mod 26 =? 0) eqn:E2; lia.
Qed.

Lemma size_fuel_enough n : n < 26 ^ N.of_nat (S (N.to_nat (N.size n))).
Proof.
  rewrite Nat2N.inj_succ, N2Nat.id.
  destruct n as [|p]; [cbn; lia|].
  assert (H1 : N.pos p < 2 ^ N.size (N.pos p)) by (apply N.size_gt).
  assert (H2 : 2 ^ N.size (N.pos p) <= 26 ^ N.size (N.pos p)) by (apply N.pow_le_mono_l; lia).
  assert (H3 : 26 ^ N.size (N.pos p) <= 26 ^ N.succ (N.size (N.pos p))) by (apply N.pow_le_mono_r; lia).
  lia.
Qed.

Lemma column_letters_inverse n : 1 <= n -> parse_col (column_letters n) = n.
Proof.
  intros Hn. unfold column_letters. rewrite parse_col_valr, colref_loop_val.
  - cbn [length valr N.of_nat]. rewrite N.pow_0_r. lia.
  - apply size_fuel_enough.
Qed.

Lemma column_letters_AZ n : Forall (fun ch => 65 <= ch <= 90) (column_letters n).
Proof. apply colref_loop_letters. constructor. Qed.

Lemma column_letters_nonempty n : 1 <= n -> column_letters n <> [].
Proof.
  intros Hn E. pose proof (column_letters_inverse n Hn) as H. rewrite E in H. cbn in H. lia.
Qed.

Lemma column_letters_inj a b : 1 <= a -> 1 <= b -> column_letters a = column_letters b -> a = b.
Proof.
  intros Ha Hb E. rewrite <- (column_letters_inverse a Ha), <- (column_letters_inverse b Hb), E. reflexivity.
Qed.

(** the guard: ValueError exactly outside 1..16384 *)
Lemma column_reference_guard n :
  (column_reference n = Err ValueErr <-> (n < 1 \/ 16384 < n)) /\
  (1 <= n <= 16384 -> column_reference n = Ok (column_letters n)).
Proof.
  unfold column_reference. destruct ((n <? 1) || (16384 <? n)) eqn:E; split.
  - split; auto. intros _. lia.
  - intros; lia.
  - split; [discriminate|]. intros; lia.
  - auto.
Qed.

Lemma column_reference_ok n s : column_reference n = Ok s -> 1 <= n <= 16384 /\ s = column_letters n.
Proof.
  unfold column_reference. destruct ((n <? 1) || (16384 <? n)) eqn:E; [discriminate|].
  intros H; inversion H; subst. split; [lia|auto].
Qed.

(** single letters *)
Lemma column_letters_single n : 1 <= n <= 26 -> column_letters n = [65 + n - 1].
Proof.
  intros Hn. unfold column_letters.
  assert (Hs : exists f, N.to_nat (N.size n) = S f).
  { destruct n as [|p]; [lia|]. exists (pred (N.to_nat (N.size (N.pos p)))).
    assert (0 < N.size (N.pos p)) by (cbn; lia). lia. }
  destruct Hs as [f ->]. cbn [colref_loop].
  replace (n =? 0) with false by lia.
  replace ((n - 1) / 26) with 0 by lia.
  replace (if n mod 26 =? 0 then 26 else n mod 26) with n by (destruct (n mod 26 =? 0) eqn:E; lia).
  destruct f; reflexivity.
Qed.

(** * 2. The sheet: what a cell holds after the writers ran *)

Lemma key_eqb_true a b r c : key_eqb (a, b) (r, c) = true <-> a = r /\ b = c.
Proof. unfold key_eqb; cbn [fst snd]. rewrite andb_true_iff, !N.eqb_eq. tauto. Qed.

Lemma get_store_same sh r c v : in_dims r c = true -> get (store sh r c v) r c = v.
Proof.
  intros H. unfold store. rewrite H. cbn [get].
  replace (key_eqb (r, c) (r, c)) with true; auto.
  symmetry. apply key_eqb_true; auto.
Qed.

Lemma get_store_other sh r c v r' c' : (r <> r' \/ c <> c') -> get (store sh r c v) r' c' = get sh r' c'.
Proof.
  intros H. unfold store. destruct (in_dims r c); auto. cbn [get].
  destruct (key_eqb (r, c) (r', c')) eqn:E; auto. apply key_eqb_true in E. tauto.
Qed.

Lemma get_xl_write_other sh r c v fmt r' c' :
  (r <> r' \/ c <> c') -> get (xl_write sh r c v fmt) r' c' = get sh r' c'.
Proof.
  intros H. unfold xl_write. destruct (is_empty (xl_cell v) && negb fmt); auto.
  apply get_store_other; auto.
Qed.

Lemma get_xl_write_fmt sh r c v : in_dims r c = true -> get (xl_write sh r c v true) r c = xl_cell v.
Proof.
  intros H. unfold xl_write. rewrite andb_false_r. apply get_store_same; auto.
Qed.

(** without a format a blank stores nothing: the cell keeps what it had, which is
    Empty wherever nothing was written before *)
Lemma get_xl_write_nofmt sh r c v :
  in_dims r c = true -> get sh r c = Empty -> get (xl_write sh r c v false) r c = xl_cell v.
Proof.
  intros H He. unfold xl_write. destruct (xl_cell v) eqn:E; cbn [is_empty negb andb];
    try (apply get_store_same; auto). exact He.
Qed.

Lemma get_write_column_miss : forall vs sh r0 c fmt r c',
  (c' <> c \/ r < r0 \/ r0 + len_N vs <= r) ->
  get (write_column sh r0 c vs fmt) r c' = get sh r c'.
Proof.
  induction vs as [|v vs IH]; intros sh r0 c fmt r c' H; cbn [write_column]; auto.
  unfold len_N in H. cbn [length] in H. rewrite Nat2N.inj_succ in H.
  rewrite IH by (unfold len_N; lia).
  apply get_xl_write_other. lia.
Qed.

Lemma get_write_column_hit : forall vs sh r0 c k v,
  nth_error vs k = Some v -> in_dims (r0 + N.of_nat k) c = true ->
  get (write_column sh r0 c vs true) (r0 + N.of_nat k) c = xl_cell v.
Proof.
  induction vs as [|v0 vs IH]; intros sh r0 c k v Hn Hd; [destruct k; discriminate|].
  cbn [write_column]. destruct k as [|k].
  - cbn in Hn. inversion Hn; subst. cbn [N.of_nat] in *. rewrite N.add_0_r in *.
    rewrite get_write_column_miss by lia. apply get_xl_write_fmt; auto.
  - cbn [nth_error] in Hn. rewrite Nat2N.inj_succ in *.
    replace (r0 + N.succ (N.of_nat k)) with (r0 + 1 + N.of_nat k) in * by lia.
    apply IH; auto.
Qed.

(** first-match lookup in an index-keyed list *)
Fixpoint lookup {A} (k : N) (l : list (N * A)) : option A :=
  match l with
  | [] => None
  | (i, v) :: r => if i =? k then Some v else lookup k r
  end.

Lemma lookup_pt_lookup k l : lookup_pt k l = lookup k l.
Proof. induction l as [|[i v] l IH]; cbn; auto. rewrite IH; auto. Qed.

Lemma lookup_none_notin {A} k (l : list (N * A)) : lookup k l = None -> forall e, In e l -> fst e <> k.
Proof.
  induction l as [|[i v] l IH]; cbn; intros H e He; [tauto|].
  destruct (N.eqb_spec i k); [discriminate|]. destruct He as [<-|He]; cbn; auto.
Qed.

Lemma lookup_in {A} k (l : list (N * A)) v : lookup k l = Some v -> In (k, v) l.
Proof.
  induction l as [|[i w] l IH]; cbn; [discriminate|].
  destruct (N.eqb_spec i k); intros H.
  - inversion H; subst; auto.
  - right; auto.
Qed.

Lemma lookup_map {A B} (g : A -> B) k (l : list (N * A)) :
  lookup k (map (fun e => (fst e, g (snd e))) l) = option_map g (lookup k l).
Proof. induction l as [|[i v] l IH]; cbn; auto. destruct (i =? k); auto. Qed.

Lemma get_write_cat_column_miss : forall level sh col r c',
  (c' <> col \/ (forall e, In e level -> fst e + 1 <> r)) ->
  get (write_cat_column sh col level) r c' = get sh r c'.
Proof.
  unfold write_cat_column.
  induction level as [|e level IH]; intros sh col r c' H; cbn [fold_left]; auto.
  rewrite IH.
  - apply get_xl_write_other. destruct H as [H|H]; [right; auto|].
    left. apply H. left; auto.
  - destruct H as [H|H]; [left; auto|]. right. intros e' He'. apply H. right; auto.
Qed.

Lemma get_write_cat_column : forall level sh col k,
  NoDup (map fst level) -> in_dims (k + 1) col = true ->
  get (write_cat_column sh col level) (k + 1) col =
    match lookup k level with Some lab => xl_cell (date_only lab) | None => get sh (k + 1) col end.
Proof.
  induction level as [|[i lab] level IH]; intros sh col k Hnd Hd; [reflexivity|].
  inversion Hnd as [|? ? Hni Hnd']; subst.
  change (write_cat_column sh col ((i, lab) :: level))
    with (write_cat_column (xl_write sh (i + 1) col (date_only lab) true) col level).
  cbn [lookup]. destruct (N.eqb_spec i k) as [->|Hne].
  - rewrite get_write_cat_column_miss.
    + apply get_xl_write_fmt; auto.
    + right. intros e He E. apply Hni. cbn [fst]. replace k with (fst e) by lia. apply in_map; auto.
  - rewrite IH by auto. destruct (lookup k level); auto.
    apply get_xl_write_other. left. cbn [fst]. lia.
Qed.

Lemma get_write_levels_miss : forall lvls sh depth i r c,
  i + len_N lvls <= depth ->
  (depth - i <= c \/ c + i + len_N lvls < depth) ->
  get (write_levels sh depth i lvls) r c = get sh r c.
Proof.
  induction lvls as [|l lvls IH]; intros sh depth i r c Hb H; cbn [write_levels]; auto.
  unfold len_N in *. cbn [length] in *. rewrite Nat2N.inj_succ in *.
  rewrite IH by lia. apply get_write_cat_column_miss. left. lia.
Qed.

Lemma get_write_levels_hit : forall lvls sh depth i j l k,
  i + len_N lvls <= depth ->
  Forall (fun l => NoDup (map fst l)) lvls ->
  nth_error lvls j = Some l ->
  in_dims (k + 1) (depth - (i + N.of_nat j) - 1) = true ->
  get (write_levels sh depth i lvls) (k + 1) (depth - (i + N.of_nat j) - 1) =
    match lookup k l with Some lab => xl_cell (date_only lab)
                     | None => get sh (k + 1) (depth - (i + N.of_nat j) - 1) end.
Proof.
  induction lvls as [|l0 lvls IH]; intros sh depth i j l k Hb Hnd Hn Hd; [destruct j; discriminate|].
  inversion Hnd; subst. unfold len_N in *. cbn [length] in *. rewrite Nat2N.inj_succ in *.
  cbn [write_levels]. destruct j as [|j].
  - cbn in Hn. inversion Hn; subst. cbn [N.of_nat] in *. rewrite N.add_0_r in *.
    rewrite get_write_levels_miss by (unfold len_N; lia).
    apply get_write_cat_column; auto.
  - cbn [nth_error] in Hn. rewrite Nat2N.inj_succ in *.
    replace (i + N.succ (N.of_nat j)) with (i + 1 + N.of_nat j) in * by lia.
    rewrite (IH _ depth (i + 1) j l k) by (auto; unfold len_N; lia).
    destruct (lookup k l); auto.
    apply get_write_cat_column_miss. left.
    assert (N.of_nat j < N.of_nat (length lvls)).
    { assert (Hs : nth_error lvls j <> None) by congruence.
      apply nth_error_Some in Hs. lia. }
    lia.
Qed.

Definition untouched_from (sh : sheet) (c0 : N) : Prop := forall r c, c0 <= c -> get sh r c = Empty.

Lemma get_write_series_miss : forall ss sh off idx r c,
  c < idx + off -> get (write_series sh off idx ss) r c = get sh r c.
Proof.
  induction ss as [|s ss IH]; intros sh off idx r c H; cbn [write_series]; auto.
  rewrite IH by lia. rewrite get_write_column_miss by lia. apply get_xl_write_other. lia.
Qed.

Lemma untouched_after_series sh off idx s :
  untouched_from sh (idx + off) ->
  untouched_from (write_column (xl_write sh 0 (idx + off) (PStr (name_of (s_name s))) false) 1 (idx + off)
                    (map pv_of_val (s_vals s)) true) (idx + 1 + off).
Proof.
  intros H r c Hc. rewrite get_write_column_miss by lia.
  rewrite get_xl_write_other by lia. apply H. lia.
Qed.

Lemma get_write_series_name : forall ss sh off idx j s,
  untouched_from sh (idx + off) -> nth_error ss j = Some s ->
  in_dims 0 (idx + N.of_nat j + off) = true ->
  get (write_series sh off idx ss) 0 (idx + N.of_nat j + off) = xl_write_str (name_of (s_name s)).
Proof.
  induction ss as [|s0 ss IH]; intros sh off idx j s Hu Hn Hd; [destruct j; discriminate|].
  cbn [write_series]. destruct j as [|j].
  - cbn in Hn. inversion Hn; subst. cbn [N.of_nat] in *. rewrite N.add_0_r in *.
    rewrite get_write_series_miss by lia.
    rewrite get_write_column_miss by lia.
    rewrite get_xl_write_nofmt; auto. apply Hu. lia.
  - cbn [nth_error] in Hn. rewrite Nat2N.inj_succ in *.
    replace (idx + N.succ (N.of_nat j) + off) with (idx + 1 + N.of_nat j + off) in * by lia.
    apply IH; auto. apply untouched_after_series; auto.
Qed.

Lemma get_write_series_val : forall ss sh off idx j s k v,
  nth_error ss j = Some s -> nth_error (s_vals s) k = Some v ->
  in_dims (1 + N.of_nat k) (idx + N.of_nat j + off) = true ->
  get (write_series sh off idx ss) (1 + N.of_nat k) (idx + N.of_nat j + off) = xl_cell (pv_of_val v).
Proof.
  induction ss as [|s0 ss IH]; intros sh off idx j s k v Hn Hk Hd; [destruct j; discriminate|].
  cbn [write_series]. destruct j as [|j].
  - cbn in Hn. inversion Hn; subst. cbn [N.of_nat] in *. rewrite N.add_0_r in *.
    rewrite get_write_series_miss by lia.
    apply get_write_column_hit; auto. rewrite nth_error_map, Hk. reflexivity.
  - cbn [nth_error] in Hn. rewrite Nat2N.inj_succ in *.
    replace (idx + N.succ (N.of_nat j) + off) with (idx + 1 + N.of_nat j + off) in * by lia.
    eapply IH; eauto.
Qed.

(** * 3. The category hierarchy *)

Fixpoint cat_ind2 (P : cat -> Prop)
  (H : forall l subs, Forall P subs -> P (Cat l subs)) (c : cat) : P c :=
  match c with
  | Cat l subs =>
      H l subs ((fix go (ss : list cat) : Forall P ss :=
                   match ss with
                   | [] => Forall_nil P
                   | s :: r => Forall_cons s (cat_ind2 P H s) (go r)
                   end) subs)
  end.

Lemma leaf_count_pos c : 1 <= leaf_count c.
Proof.
  induction c as [l subs IH] using cat_ind2. cbn [leaf_count].
  destruct subs as [|s0 r]; [lia|]. inversion IH; subst. cbn [map sumN fold_right]. lia.
Qed.

Lemma leaf_count_subs l subs : subs <> [] -> leaf_count (Cat l subs) = forest_leaf_count subs.
Proof. destruct subs; [congruence|reflexivity]. Qed.

(** [spaced lo l hi]: the entries of a level tile the interval lo..hi left to right,
    each entry owning leaf_count positions from its idx on *)
Fixpoint spaced (lo : N) (l : list (N * cat)) (hi : N) : Prop :=
  match l with
  | [] => lo <= hi
  | ic :: r => lo <= fst ic /\ spaced (fst ic + leaf_count (snd ic)) r hi
  end.

Lemma spaced_le : forall l lo hi, spaced lo l hi -> lo <= hi.
Proof.
  induction l as [|[i c] l IH]; cbn; intros lo hi H; auto.
  destruct H as [H1 H2]. apply IH in H2. pose proof (leaf_count_pos c). lia.
Qed.

Lemma spaced_weaken : forall l lo lo' hi, lo' <= lo -> spaced lo l hi -> spaced lo' l hi.
Proof. destruct l as [|[i c] l]; cbn; intros; [lia|]. intuition lia. Qed.

Lemma spaced_app : forall a lo mid hi b, spaced lo a mid -> spaced mid b hi -> spaced lo (a ++ b) hi.
Proof.
  induction a as [|[i c] a IH]; cbn [app spaced]; intros lo mid hi b Ha Hb.
  - eapply spaced_weaken; eauto.
  - destruct Ha as [H1 H2]. split; auto. eapply IH; eauto.
Qed.

Lemma spaced_place : forall cs s, spaced s (place s cs) (s + forest_leaf_count cs).
Proof.
  unfold forest_leaf_count.
  induction cs as [|c cs IH]; intros s; cbn [place spaced map sumN fold_right fst snd].
  - lia.
  - split; [lia|]. specialize (IH (s + leaf_count c)).
    replace (s + (leaf_count c + fold_right N.add 0 (map leaf_count cs)))
      with (s + leaf_count c + sumN (map leaf_count cs)) by (unfold sumN; lia). exact IH.
Qed.

Lemma spaced_next_level : forall l lo hi, spaced lo l hi -> spaced lo (next_level l) hi.
Proof.
  unfold next_level.
  induction l as [|[i c] l IH]; cbn [flat_map spaced fst snd]; intros lo hi H; auto.
  destruct H as [H1 H2]. destruct c as [lab subs]. cbn [cat_subs].
  destruct subs as [|s0 r].
  - cbn [place app]. apply IH. eapply spaced_weaken; [|exact H2]. lia.
  - eapply spaced_app.
    + eapply spaced_weaken; [exact H1|]. apply spaced_place.
    + rewrite <- leaf_count_subs with (l := lab) by congruence. apply IH; auto.
Qed.

Lemma spaced_bounds : forall l lo hi, spaced lo l hi -> forall e, In e l -> lo <= fst e < hi.
Proof.
  induction l as [|[i c] l IH]; cbn [spaced In fst snd]; intros lo hi H e He; [tauto|].
  destruct H as [H1 H2]. pose proof (leaf_count_pos c). pose proof (spaced_le _ _ _ H2).
  destruct He as [<-|He]; cbn [fst]; [lia|].
  specialize (IH _ _ H2 e He). lia.
Qed.

Lemma spaced_nodup : forall l lo hi, spaced lo l hi -> NoDup (map fst l).
Proof.
  induction l as [|[i c] l IH]; cbn [spaced map fst snd]; intros lo hi H; constructor.
  - destruct H as [H1 H2]. intros Hin. apply in_map_iff in Hin as [e [He1 He2]].
    pose proof (spaced_bounds _ _ _ H2 e He2). pose proof (leaf_count_pos c). lia.
  - destruct H as [H1 H2]. eapply IH; eauto.
Qed.

(** levels as lists of nodes *)
Fixpoint node_levels_fuel (fuel : nat) (l : list (N * cat)) : list (list (N * cat)) :=
  match fuel with
  | O => []
  | S f =>
      let nl := next_level l in
      (match nl with [] => [] | _ => node_levels_fuel f nl end) ++ [l]
  end.
Definition node_levels (cs : list cat) : list (list (N * cat)) :=
  node_levels_fuel (S (forest_height cs)) (place 0 cs).

Lemma levels_fuel_nodes : forall fuel l, levels_fuel fuel l = map level_entries (node_levels_fuel fuel l).
Proof.
  induction fuel as [|f IH]; intros l; cbn [levels_fuel node_levels_fuel]; auto.
  rewrite map_app. cbn [map]. f_equal. destruct (next_level l); auto.
Qed.

Lemma levels_nodes cs : levels cs = map level_entries (node_levels cs).
Proof. apply levels_fuel_nodes. Qed.

Lemma node_levels_closed (Q : list (N * cat) -> Prop) :
  (forall l, Q l -> Q (next_level l)) ->
  forall fuel l, Q l -> Forall Q (node_levels_fuel fuel l).
Proof.
  intros Hc. induction fuel as [|f IH]; intros l Hl; cbn [node_levels_fuel]; [constructor|].
  apply Forall_app. split; [|constructor; auto].
  destruct (next_level l) eqn:E; [constructor|]. rewrite <- E. apply IH. apply Hc; auto.
Qed.

Lemma node_levels_spaced cs : Forall (fun l => spaced 0 l (forest_leaf_count cs)) (node_levels cs).
Proof.
  apply node_levels_closed.
  - intros l. apply spaced_next_level.
  - apply (spaced_place cs 0).
Qed.

(** depth *)
Lemma check_depths_ok {A} (f : A -> res N) d0 l :
  check_depths d0 (map f l) = Ok tt <-> Forall (fun x => f x = Ok d0) l.
Proof.
  induction l as [|x l IH]; cbn [map check_depths].
  - split; auto.
  - destruct (f x) as [d|e] eqn:E; cbn [bind].
    + destruct (N.eqb_spec d d0) as [->|Hne].
      * rewrite IH. split; intros H; [constructor; auto|inversion H; auto].
      * split; [discriminate|]. intros H; inversion H; congruence.
    + split; [discriminate|]. intros H; inversion H; congruence.
Qed.

Lemma check_depths_unit d0 l u : check_depths d0 l = Ok u -> check_depths d0 l = Ok tt.
Proof. destruct u; auto. Qed.

Lemma cat_depth_leaf l : cat_depth (Cat l []) = Ok 1.
Proof. reflexivity. Qed.

Lemma cat_depth_node l s0 rest d :
  cat_depth (Cat l (s0 :: rest)) = Ok d <->
  exists d0, d = d0 + 1 /\ Forall (fun s => cat_depth s = Ok d0) (s0 :: rest).
Proof.
  cbn [cat_depth]. fold (map cat_depth rest).
  destruct (cat_depth s0) as [d0|e] eqn:E0; cbn [bind].
  - destruct (check_depths d0 (map cat_depth rest)) as [[]|e] eqn:E1; cbn [bind].
    + apply check_depths_ok in E1. split.
      * intros H; inversion H; subst. exists d0; split; auto.
      * intros [d1 [-> H]]. inversion H; subst. congruence.
    + split; [discriminate|]. intros [d1 [-> H]]. inversion H; subst.
      assert (d1 = d0) by congruence. subst.
      apply check_depths_ok in H3. congruence.
  - split; [discriminate|]. intros [d1 [-> H]]. inversion H; congruence.
Qed.

Lemma cat_depth_pos c d : cat_depth c = Ok d -> 1 <= d.
Proof.
  destruct c as [l [|s0 rest]]; intros H.
  - inversion H; lia.
  - apply cat_depth_node in H as [d0 [-> _]]. lia.
Qed.

Lemma forest_depth_spec cs d :
  forest_depth cs = Ok d <->
  (cs = [] /\ d = 0) \/ (cs <> [] /\ Forall (fun c => cat_depth c = Ok d) cs).
Proof.
  destruct cs as [|c0 rest]; cbn [forest_depth].
  - split.
    + intros H; inversion H; auto.
    + intros [[_ ->]|[H _]]; congruence.
  - fold (map cat_depth rest).
    destruct (cat_depth c0) as [d0|e] eqn:E0; cbn [bind].
    + destruct (check_depths d0 (map cat_depth rest)) as [[]|e] eqn:E1; cbn [bind].
      * apply check_depths_ok in E1. split.
        -- intros H; inversion H; subst. right; split; [congruence|constructor; auto].
        -- intros [[H _]|[_ H]]; [congruence|]. inversion H; subst. congruence.
      * split; [discriminate|]. intros [[H _]|[_ H]]; [congruence|]. inversion H; subst.
        assert (d = d0) by congruence. subst. apply check_depths_ok in H3. congruence.
    + split; [discriminate|]. intros [[H _]|[_ H]]; [congruence|]. inversion H; congruence.
Qed.

Definition all_depth (d : N) (l : list (N * cat)) : Prop :=
  Forall (fun ic => cat_depth (snd ic) = Ok d) l.

Lemma place_snd : forall cs s, map snd (place s cs) = cs.
Proof. induction cs; intros; cbn; f_equal; auto. Qed.

Lemma all_depth_place d cs s : Forall (fun c => cat_depth c = Ok d) cs -> all_depth d (place s cs).
Proof.
  revert s. induction cs as [|c cs IH]; intros s H; cbn [place]; [constructor|].
  inversion H; subst. constructor; auto. apply IH; auto.
Qed.

Lemma all_depth_1_next l : all_depth 1 l -> next_level l = [].
Proof.
  unfold next_level. induction l as [|[i c] l IH]; intros H; cbn [flat_map]; auto.
  inversion H as [|? ? Hc Hl]; subst. rewrite IH by auto. cbn [fst snd] in *.
  destruct c as [lab [|s0 rest]]; [reflexivity|].
  apply cat_depth_node in Hc as [d0 [Hd Hf]]. inversion Hf as [|? ? Hs0 Hr]; subst.
  apply cat_depth_pos in Hs0. lia.
Qed.

Lemma all_depth_succ_next d l :
  1 <= d -> all_depth (d + 1) l -> l <> [] ->
  next_level l <> [] /\ all_depth d (next_level l).
Proof.
  intros Hd H Hne. unfold next_level. split.
  - destruct l as [|[i c] l]; [congruence|]. inversion H as [|? ? Hc Hl]; subst. cbn [flat_map fst snd] in *.
    destruct c as [lab [|s0 rest]].
    + cbn in Hc. inversion Hc. lia.
    + cbn [cat_subs place]. discriminate.
  - clear Hne. induction l as [|[i c] l IH]; cbn [flat_map]; [constructor|].
    inversion H as [|? ? Hc Hl]; subst. cbn [fst snd] in *. apply Forall_app. split.
    + destruct c as [lab [|s0 rest]]; [constructor|].
      apply cat_depth_node in Hc as [d0 [Hd0 Hf]]. assert (d0 = d) by lia. subst.
      cbn [cat_subs]. apply all_depth_place; auto.
    + apply IH; auto.
Qed.

Lemma node_levels_fuel_length : forall fuel d l,
  1 <= d -> (N.to_nat d <= fuel)%nat -> l <> [] -> all_depth d l ->
  length (node_levels_fuel fuel l) = N.to_nat d.
Proof.
  induction fuel as [|f IH]; intros d l Hd Hf Hne H; [lia|].
  cbn [node_levels_fuel]. rewrite app_length. cbn [length].
  destruct (N.eq_dec d 1) as [->|Hn1].
  - rewrite all_depth_1_next by auto. cbn. lia.
  - replace d with (d - 1 + 1) in H by lia.
    destruct (all_depth_succ_next (d - 1) l) as [Hnn Hall]; auto; [lia|].
    destruct (next_level l) eqn:E; [congruence|]. rewrite <- E in *.
    rewrite (IH (d - 1)); auto; lia.
Qed.

Lemma cat_depth_height c d : cat_depth c = Ok d -> (N.to_nat d <= height c)%nat.
Proof.
  revert d. induction c as [l subs IH] using cat_ind2. intros d H.
  destruct subs as [|s0 rest].
  - inversion H; subst. cbn. lia.
  - apply cat_depth_node in H as [d0 [-> Hf]]. inversion Hf as [|? ? Hs0 Hr]; subst.
    inversion IH as [|? ? IH0 IHr]; subst.
    specialize (IH0 _ Hs0). cbn [height map fold_right]. lia.
Qed.

Lemma forest_height_ge cs c : In c cs -> (height c <= forest_height cs)%nat.
Proof.
  unfold forest_height. induction cs as [|c0 cs IH]; cbn [In map fold_right]; [tauto|].
  intros [->|H]; [lia|]. specialize (IH H). lia.
Qed.

Lemma node_levels_length cs d :
  forest_depth cs = Ok d -> 1 <= d -> length (node_levels cs) = N.to_nat d.
Proof.
  intros H Hd. apply forest_depth_spec in H as [[-> ->]|[Hne Hf]]; [lia|].
  unfold node_levels. apply node_levels_fuel_length; auto.
  - destruct cs as [|c0 cs]; [congruence|]. inversion Hf as [|? ? Hc0 Hr]; subst.
    pose proof (cat_depth_height _ _ Hc0). pose proof (forest_height_ge (c0 :: cs) c0 (or_introl eq_refl)). lia.
  - destruct cs; [congruence|]. cbn. discriminate.
  - apply all_depth_place; auto.
Qed.

Lemma levels_length cs d : forest_depth cs = Ok d -> 1 <= d -> len_N (levels cs) = d.
Proof.
  intros H Hd. unfold len_N. rewrite levels_nodes, map_length, (node_levels_length cs d) by auto. lia.
Qed.

Lemma forest_depth_pos_nonempty cs d : forest_depth cs = Ok d -> 1 <= d -> 1 <= forest_leaf_count cs.
Proof.
  intros H Hd. apply forest_depth_spec in H as [[-> ->]|[Hne _]]; [lia|].
  destruct cs as [|c cs]; [congruence|]. unfold forest_leaf_count. cbn [map sumN fold_right].
  pose proof (leaf_count_pos c). lia.
Qed.

(** * 4. Category charts: what the sheet holds where the references point *)

Lemma level_entries_fst l : map fst (level_entries l) = map fst l.
Proof. unfold level_entries. rewrite map_map. reflexivity. Qed.

Lemma levels_nodup cs : Forall (fun l => NoDup (map fst l)) (levels cs).
Proof.
  rewrite levels_nodes. apply Forall_forall. intros l Hin.
  apply in_map_iff in Hin as [nl [<- Hin]].
  pose proof (node_levels_spaced cs) as Hs. rewrite Forall_forall in Hs.
  rewrite level_entries_fst. eapply spaced_nodup. apply Hs; auto.
Qed.

Lemma cat_sheet_eq d depth sh :
  forest_depth (cd_cats d) = Ok depth -> cat_sheet d = Ok sh ->
  sh = write_series (write_levels [] depth 0 (levels (cd_cats d))) depth 0 (cd_series d).
Proof. unfold cat_sheet. intros ->. cbn [bind]. congruence. Qed.

Lemma levels_sheet_untouched cs depth :
  forest_depth cs = Ok depth -> untouched_from (write_levels [] depth 0 (levels cs)) depth.
Proof.
  intros H r c Hc. destruct (N.eq_dec depth 0) as [->|Hn].
  - apply forest_depth_spec in H as [[-> _]|[Hne Hf]].
    + reflexivity.
    + destruct cs as [|c0 cs]; [congruence|]. inversion Hf as [|? ? Hc0 _]; subst.
      apply cat_depth_pos in Hc0. lia.
  - rewrite get_write_levels_miss; auto.
    + rewrite (levels_length cs depth) by (auto; lia). lia.
    + lia.
Qed.

Section CatSheet.
  Variables (d : catdata) (depth : N) (sh : sheet).
  Hypothesis Hdepth : forest_depth (cd_cats d) = Ok depth.
  Hypothesis Hsh : cat_sheet d = Ok sh.

  (** the series name is in row 1 of the column after the category columns *)
  Lemma cat_cell_name j s :
    nth_error (cd_series d) j = Some s -> in_dims 0 (depth + N.of_nat j) = true ->
    get sh 0 (depth + N.of_nat j) = xl_write_str (name_of (s_name s)).
  Proof.
    intros Hn Hd. rewrite (cat_sheet_eq d depth sh Hdepth Hsh).
    replace (depth + N.of_nat j) with (0 + N.of_nat j + depth) in * by lia.
    apply get_write_series_name; auto.
    replace (0 + depth) with depth by lia. apply levels_sheet_untouched; auto.
  Qed.

  (** value k of series j is in row k + 2 of that column *)
  Lemma cat_cell_value j s k v :
    nth_error (cd_series d) j = Some s -> nth_error (s_vals s) k = Some v ->
    in_dims (1 + N.of_nat k) (depth + N.of_nat j) = true ->
    get sh (1 + N.of_nat k) (depth + N.of_nat j) = xl_cell (pv_of_val v).
  Proof.
    intros Hn Hk Hd. rewrite (cat_sheet_eq d depth sh Hdepth Hsh).
    replace (depth + N.of_nat j) with (0 + N.of_nat j + depth) in * by lia.
    eapply get_write_series_val; eauto.
  Qed.

  (** level j (leaf level = 0) is in column depth - j; row idx + 2 holds the label
      of the category with that idx, other rows of the column are empty *)
  Lemma cat_cell_level j l k :
    1 <= depth -> nth_error (levels (cd_cats d)) j = Some l ->
    in_dims (k + 1) (depth - N.of_nat j - 1) = true ->
    get sh (k + 1) (depth - N.of_nat j - 1) =
      match lookup k l with Some lab => xl_cell (date_only lab) | None => Empty end.
  Proof.
    intros Hd1 Hn Hd. rewrite (cat_sheet_eq d depth sh Hdepth Hsh).
    rewrite get_write_series_miss by lia.
    replace (depth - N.of_nat j - 1) with (depth - (0 + N.of_nat j) - 1) in * by lia.
    rewrite (get_write_levels_hit _ _ _ _ _ l k); auto.
    - rewrite (levels_length _ depth) by auto. lia.
    - apply levels_nodup.
  Qed.
End CatSheet.

(** ** domain of the agreement theorem *)

Definition str_safe (s : str) : bool :=
  negb (formula_like s) && negb (array_formula_like s) && negb (url_like s)
  && (len_N s <=? xl_strmax).

Lemma str_safe_agrees s : str_safe s = true -> cell_agrees (Some (CStr s)) (xl_write_str s) = true.
Proof.
  unfold str_safe. intros H. apply andb_true_iff in H as [H H4].
  apply andb_true_iff in H as [H H3]. apply andb_true_iff in H as [H1 H2].
  apply negb_true_iff in H1, H2, H3.
  destruct s as [|x r]; [reflexivity|].
  unfold xl_write_str. rewrite H1, H2, H3.
  rewrite firstn_all2 by (unfold len_N in H4; lia).
  cbn [cell_agrees]. apply str_eqb_refl.
Qed.

Definition label_ok_str (l : pyval) : bool :=
  match l with PNone => true | PStr s => str_safe s | PNum _ _ => true | _ => false end.

Definition label_ok_num (b : bool) (l : pyval) : bool :=
  match l with
  | PNum _ _ => true
  | PStr s => str_safe s
  | PDate _ => negb b
  | PDateTime _ _ => negb b
  | PNone => true
  end.

Lemma label_of_idem l : label_of (label_of l) = label_of l.
Proof. destruct l; reflexivity. Qed.

Lemma label_str_val_label_of l : label_str_val (label_of l) = label_str_val l.
Proof. unfold label_str_val. rewrite label_of_idem. reflexivity. Qed.

Lemma label_ok_str_agrees l :
  label_ok_str l = true -> cell_agrees (Some (label_str_val l)) (xl_cell (date_only (label_of l))) = true.
Proof.
  destruct l as [|s|n dn|o|o u]; cbn [label_ok_str label_of label_str_val xl_cell date_only]; intros H; try discriminate.
  - reflexivity.
  - apply str_safe_agrees; auto.
  - cbn [cell_agrees]. apply Z.eqb_refl.
Qed.

Lemma date_serial_agrees ord :
  (excel_date_number false ord * Z.pos us_per_day =? xl_datetime_num false ord 0 * 1)%Z = true.
Proof.
  apply Z.eqb_eq. unfold excel_date_number, xl_datetime_num. cbn [negb andb].
  change (Z.of_N 0) with 0%Z.
  set (D := Z.pos us_per_day). assert (HD : (0 < D)%Z) by (unfold D; lia).
  set (days := (ord - ord_1899_12_31)%Z).
  destruct (Z.ltb_spec 59 days); destruct (Z.ltb_spec (59 * D) (days * D + 0)); nia.
Qed.

Lemma label_ok_num_agrees b l :
  label_ok_num b l = true ->
  cell_agrees (Some (numeric_str_val b l)) (xl_cell (date_only (label_of l))) = true.
Proof.
  destruct l as [|s|n dn|o|o u]; cbn [label_ok_num label_of numeric_str_val xl_cell date_only]; intros H; try discriminate.
  - reflexivity.
  - apply str_safe_agrees; auto.
  - cbn [cell_agrees]. apply Z.eqb_refl.
  - apply negb_true_iff in H. subst. cbn [cell_agrees]. apply date_serial_agrees.
  - apply negb_true_iff in H. subst. cbn [cell_agrees]. apply date_serial_agrees.
Qed.

Fixpoint cat_all (p : pyval -> bool) (c : cat) : bool :=
  match c with Cat l subs => p l && forallb (cat_all p) subs end.

Lemma place_forall (P : cat -> Prop) : forall cs s, Forall P cs -> Forall (fun ic => P (snd ic)) (place s cs).
Proof.
  induction cs as [|c cs IH]; intros s H; cbn [place]; [constructor|].
  inversion H; subst. constructor; auto.
Qed.

Lemma node_levels_all p cs :
  forallb (cat_all p) cs = true ->
  Forall (fun nodes => Forall (fun ic => p (cat_lab (snd ic)) = true) nodes) (node_levels cs).
Proof.
  intros H.
  assert (Hq : Forall (fun nodes => Forall (fun ic => cat_all p (snd ic) = true) nodes) (node_levels cs)).
  { apply node_levels_closed.
    - intros l Hl. unfold next_level. induction l as [|[i c] l IH]; cbn [flat_map]; [constructor|].
      inversion Hl as [|? ? Hc Hr]; subst. apply Forall_app. split; auto.
      destruct c as [lab subs]. cbn [fst snd cat_subs cat_all] in *.
      apply andb_true_iff in Hc as [_ Hs]. apply (place_forall (fun c => cat_all p c = true)).
      apply Forall_forall. intros x Hx.
      rewrite forallb_forall in Hs. auto.
    - apply (place_forall (fun c => cat_all p c = true)). apply Forall_forall. rewrite forallb_forall in H. auto. }
  eapply Forall_impl; [|exact Hq]. intros nodes Hn. eapply Forall_impl; [|exact Hn].
  intros [i [lab subs]] Hc. cbn [snd cat_lab cat_all] in *. apply andb_true_iff in Hc. tauto.
Qed.

(** ** agreement of one reference with its cache *)

Lemma forallb_nseq (f : N -> bool) : forall n s,
  (forall k, (k < n)%nat -> f (s + N.of_nat k) = true) -> forallb f (nseq s n) = true.
Proof.
  induction n as [|n IH]; intros s H; cbn [nseq forallb]; auto.
  apply andb_true_iff. split.
  - specialize (H O ltac:(lia)). cbn [N.of_nat] in H. rewrite N.add_0_r in H. auto.
  - apply IH. intros k Hk. specialize (H (S k) ltac:(lia)).
    rewrite Nat2N.inj_succ in H. replace (s + 1 + N.of_nat k) with (s + N.succ (N.of_nat k)) by lia. auto.
Qed.

Lemma agree_col_intro sh c r1 r2 count ps :
  r1 <= r2 -> r2 + 1 - r1 = count -> (forall p, In p ps -> fst p < count) ->
  (forall k, (k < N.to_nat count)%nat ->
     cell_agrees (lookup (N.of_nat k) ps) (get sh (r1 - 1 + N.of_nat k) (c - 1)) = true) ->
  agree_col sh c r1 r2 count ps = true.
Proof.
  intros H1 H2 H3 H4. unfold agree_col.
  repeat (apply andb_true_iff; split).
  - lia.
  - lia.
  - apply forallb_forall. intros p Hp. specialize (H3 p Hp). lia.
  - apply forallb_nseq. intros k Hk. rewrite lookup_pt_lookup. cbn [N.add].
    specialize (H4 k Hk). exact H4.
Qed.

Lemma lookup_notin_none {A} k (l : list (N * A)) : (forall e, In e l -> fst e <> k) -> lookup k l = None.
Proof.
  induction l as [|[i v] l IH]; cbn [lookup In]; intros H; auto.
  destruct (N.eqb_spec i k) as [->|Hne].
  - exfalso. apply (H (k, v)); auto.
  - apply IH. intros e He. apply H; auto.
Qed.

Definition val_pts_from (s : N) (vs : list val) : list (N * cval) :=
  flat_map (fun iv : N * val => match snd iv with None => [] | Some (n, d) => [(fst iv, CNum n d)] end)
           (enumerate_from s vs).

Lemma val_cache_pts vs : pts (val_cache vs) = val_pts_from 0 vs.
Proof. reflexivity. Qed.

Lemma val_pts_bounds : forall vs s p, In p (val_pts_from s vs) -> s <= fst p < s + len_N vs.
Proof.
  unfold val_pts_from, len_N.
  induction vs as [|v vs IH]; intros s p H; cbn [enumerate_from flat_map] in H; [destruct H|].
  cbn [length]. rewrite Nat2N.inj_succ. apply in_app_or in H as [H|H].
  - cbn [snd fst] in H. destruct v as [[n dn]|]; [|destruct H].
    destruct H as [<-|[]]. cbn [fst]. lia.
  - apply IH in H. lia.
Qed.

Lemma val_pts_lookup : forall vs s k,
  lookup (s + N.of_nat k) (val_pts_from s vs) =
    match nth_error vs k with Some (Some (n, dn)) => Some (CNum n dn) | _ => None end.
Proof.
  induction vs as [|v vs IH]; intros s k.
  - destruct k; reflexivity.
  - change (val_pts_from s (v :: vs))
      with ((match v with None => [] | Some (n, dn) => [(s, CNum n dn)] end) ++ val_pts_from (s + 1) vs).
    destruct k as [|k].
    + cbn [N.of_nat nth_error]. rewrite N.add_0_r.
      destruct v as [[n dn]|].
      * cbn [app lookup]. rewrite N.eqb_refl. reflexivity.
      * cbn [app]. apply lookup_notin_none. intros e He. apply val_pts_bounds in He. lia.
    + cbn [nth_error]. rewrite Nat2N.inj_succ.
      replace (s + N.succ (N.of_nat k)) with (s + 1 + N.of_nat k) by lia.
      destruct v as [[n dn]|].
      * cbn [app lookup]. replace (s =? s + 1 + N.of_nat k) with false by lia. apply IH.
      * cbn [app]. apply IH.
Qed.

Lemma val_agrees (v : val) :
  cell_agrees (match v with Some (n, dn) => Some (CNum n dn) | None => None end) (xl_cell (pv_of_val v)) = true.
Proof. destruct v as [[n dn]|]; cbn; auto. apply Z.eqb_refl. Qed.

Lemma agree_values sh c r1 r2 vs :
  1 <= r1 -> 1 <= len_N vs -> r2 + 1 = r1 + len_N vs ->
  (forall k v, nth_error vs k = Some v -> get sh (r1 - 1 + N.of_nat k) (c - 1) = xl_cell (pv_of_val v)) ->
  agree_ref sh (mk_rng c r1 c r2) (val_cache vs) = true.
Proof.
  intros Hr1 Hl Hr2 Hg. unfold agree_ref. cbn [r_c1 r_c2 r_r1 r_r2]. rewrite N.eqb_refl. cbn [andb].
  apply agree_col_intro.
  - lia.
  - cbn [val_cache pt_count]. lia.
  - intros p Hp. rewrite val_cache_pts in Hp. apply val_pts_bounds in Hp. cbn [val_cache pt_count]. lia.
  - intros k Hk. cbn [val_cache pt_count] in Hk. unfold len_N in Hk. rewrite Nat2N.id in Hk.
    rewrite val_cache_pts.
    replace (N.of_nat k) with (0 + N.of_nat k) at 1 by lia. rewrite val_pts_lookup.
    destruct (nth_error vs k) as [v|] eqn:E; [|apply nth_error_None in E; lia].
    rewrite (Hg k v E). apply val_agrees.
Qed.

Lemma agree_name_intro sh c r name :
  1 <= r -> get sh (r - 1) (c - 1) = xl_write_str name -> str_safe name = true ->
  agree_name sh (mk_rng c r c r) name = true.
Proof.
  intros Hr Hg Hs. unfold agree_name, agree_ref. cbn [r_c1 r_c2 r_r1 r_r2 pt_count pts].
  rewrite N.eqb_refl. cbn [andb]. apply agree_col_intro.
  - lia.
  - lia.
  - intros p [<-|[]]. cbn. lia.
  - intros k Hk. assert (k = O) by lia. subst. cbn [N.of_nat lookup]. rewrite N.add_0_r.
    cbn [N.eqb]. rewrite Hg. apply str_safe_agrees; auto.
Qed.

Lemma agree_col_level sh col0 leafs nodes (h : pyval -> cval) :
  1 <= leafs -> spaced 0 nodes leafs ->
  (forall ic, In ic nodes ->
     cell_agrees (Some (h (cat_lab (snd ic)))) (xl_cell (date_only (label_of (cat_lab (snd ic))))) = true) ->
  (forall k, k < leafs ->
     get sh (k + 1) col0 = match lookup k (level_entries nodes) with Some lab => xl_cell (date_only lab) | None => Empty end) ->
  agree_col sh (col0 + 1) 2 (leafs + 1) leafs (map (fun ic => (fst ic, h (cat_lab (snd ic)))) nodes) = true.
Proof.
  intros Hl Hsp Hag Hg. apply agree_col_intro.
  - lia.
  - lia.
  - intros p Hp. apply in_map_iff in Hp as [ic [<- Hic]]. cbn [fst].
    apply (spaced_bounds _ _ _ Hsp ic Hic).
  - intros k Hk.
    replace (2 - 1 + N.of_nat k) with (N.of_nat k + 1) by lia.
    replace (col0 + 1 - 1) with col0 by lia.
    rewrite Hg by lia.
    rewrite (lookup_map (fun c => h (cat_lab c)) (N.of_nat k) nodes).
    unfold level_entries. rewrite (lookup_map (fun c => label_of (cat_lab c)) (N.of_nat k) nodes).
    destruct (lookup (N.of_nat k) nodes) as [c|] eqn:E; cbn [option_map]; [|reflexivity].
    apply lookup_in in E. apply (Hag _ E).
Qed.

Lemma agree_levels_intro sh r count : forall cls i,
  (forall j cl, nth_error cls j = Some cl ->
     r_c1 r + (i + N.of_nat j) <= r_c2 r /\
     agree_col sh (r_c2 r - (i + N.of_nat j)) (r_r1 r) (r_r2 r) count cl = true) ->
  agree_levels sh r count i cls = true.
Proof.
  induction cls as [|cl cls IH]; intros i H; cbn [agree_levels]; auto.
  destruct (H O cl eq_refl) as [H1 H2]. cbn [N.of_nat] in H1, H2. rewrite N.add_0_r in H1, H2.
  apply andb_true_iff; split; [apply andb_true_iff; split; [lia|exact H2]|].
  apply IH. intros j cl' Hj. specialize (H (S j) cl' Hj). rewrite Nat2N.inj_succ in H.
  replace (i + 1 + N.of_nat j) with (i + N.succ (N.of_nat j)) by lia. exact H.
Qed.

(** ** the category cache against the category columns *)

Lemma enumerate_place_leaves {B} (g : cat -> B) : forall cs s,
  Forall (fun c => cat_subs c = []) cs ->
  enumerate_from s (map g cs) = map (fun ic => (fst ic, g (snd ic))) (place s cs).
Proof.
  induction cs as [|c cs IH]; intros s H; cbn [map enumerate_from place]; auto.
  inversion H as [|? ? Hc Hr]; subst. destruct c as [lab subs]. cbn [cat_subs] in Hc. subst.
  cbn [fst snd leaf_count]. f_equal. apply IH; auto.
Qed.

Lemma depth1_leaves cs : forest_depth cs = Ok 1 -> Forall (fun c => cat_subs c = []) cs.
Proof.
  intros H. apply forest_depth_spec in H as [[-> _]|[_ Hf]]; [constructor|].
  eapply Forall_impl; [|exact Hf]. intros [lab [|s0 rest]] Hc; [reflexivity|].
  apply cat_depth_node in Hc as [d0 [Hd Hs]]. inversion Hs as [|? ? Hs0 _]; subst.
  apply cat_depth_pos in Hs0. lia.
Qed.

Lemma node_levels_depth1 cs : forest_depth cs = Ok 1 -> node_levels cs = [place 0 cs].
Proof.
  intros H. unfold node_levels. cbn [node_levels_fuel].
  rewrite all_depth_1_next; [reflexivity|].
  apply forest_depth_spec in H as [[-> _]|[_ Hf]]; [constructor|]. apply all_depth_place; auto.
Qed.

Section CatAgree.
  Variables (d : catdata) (depth : N) (sh : sheet).
  Hypothesis Hdepth : forest_depth (cd_cats d) = Ok depth.
  Hypothesis Hsh : cat_sheet d = Ok sh.
  Hypothesis Hd1 : 1 <= depth.
  Hypothesis Hdmax : depth <= xl_colmax.
  Hypothesis Hrows : forest_leaf_count (cd_cats d) < xl_rowmax.

  Lemma agree_cat_nodes kind (h : pyval -> cval) :
    (forall nodes, In nodes (node_levels (cd_cats d)) -> forall ic, In ic nodes ->
       cell_agrees (Some (h (cat_lab (snd ic)))) (xl_cell (date_only (label_of (cat_lab (snd ic))))) = true) ->
    agree_cat sh (categories_rng depth (forest_leaf_count (cd_cats d)))
      (mk_cat_cache kind (forest_leaf_count (cd_cats d))
         (map (fun nodes => map (fun ic => (fst ic, h (cat_lab (snd ic)))) nodes) (node_levels (cd_cats d)))) = true.
  Proof.
    intros Hag. set (cs := cd_cats d) in *. set (leafs := forest_leaf_count cs) in *.
    assert (Hlen : length (node_levels cs) = N.to_nat depth) by (apply node_levels_length; auto).
    assert (Hleafs : 1 <= leafs) by (eapply forest_depth_pos_nonempty; eauto).
    unfold agree_cat, categories_rng. cbn [r_c1 r_c2 r_r1 r_r2 cc_levels cc_count].
    apply andb_true_iff. split.
    - unfold len_N. rewrite map_length, Hlen. lia.
    - apply agree_levels_intro. cbn [r_c1 r_c2 r_r1 r_r2]. intros j cl Hj.
      rewrite nth_error_map in Hj. destruct (nth_error (node_levels cs) j) as [nodes|] eqn:En; [|discriminate].
      cbn [option_map] in Hj. inversion Hj; subst cl. clear Hj.
      assert (Hjl : (j < N.to_nat depth)%nat).
      { rewrite <- Hlen. apply nth_error_Some. congruence. }
      split; [lia|].
      replace (depth - (0 + N.of_nat j)) with (depth - N.of_nat j - 1 + 1) by lia.
      apply agree_col_level; auto.
      + pose proof (node_levels_spaced cs) as Hs. rewrite Forall_forall in Hs.
        apply Hs. eapply nth_error_In; eauto.
      + apply Hag. eapply nth_error_In; eauto.
      + intros k Hk. apply (cat_cell_level d depth sh Hdepth Hsh); auto.
        * fold cs. rewrite levels_nodes, nth_error_map, En. reflexivity.
        * unfold in_dims. apply andb_true_iff. unfold xl_rowmax, xl_colmax in *. split; lia.
  Qed.
End CatAgree.

Definition numeric_cats (cs : list cat) (depth : N) : bool :=
  (depth =? 1) && match cs with c :: _ => is_numeric_label (cat_lab c) | [] => false end.

Definition cat_labels_ok (b : bool) (cs : list cat) : bool :=
  match forest_depth cs with
  | Ok depth =>
      if numeric_cats cs depth then forallb (cat_all (label_ok_num b)) cs
      else forallb (cat_all label_ok_str) cs
  | Err _ => false
  end.

Lemma agree_cat_cache b d depth sh cc :
  forest_depth (cd_cats d) = Ok depth -> cat_sheet d = Ok sh ->
  1 <= depth -> depth <= xl_colmax -> forest_leaf_count (cd_cats d) < xl_rowmax ->
  cat_labels_ok b (cd_cats d) = true ->
  cat_cache_of b (cd_cats d) = Ok cc ->
  agree_cat sh (categories_rng depth (forest_leaf_count (cd_cats d))) cc = true.
Proof.
  intros Hdepth Hsh Hd1 Hdm Hrows Hok Hcc.
  unfold cat_labels_ok in Hok. rewrite Hdepth in Hok.
  unfold cat_cache_of in Hcc. rewrite Hdepth in Hcc. cbn [bind] in Hcc.
  fold (numeric_cats (cd_cats d) depth) in Hcc.
  destruct (numeric_cats (cd_cats d) depth) eqn:En.
  - (* numeric cache *)
    assert (depth = 1) by (unfold numeric_cats in En; apply andb_true_iff in En as [E _]; lia). subst depth.
    inversion Hcc; subst cc. clear Hcc.
    rewrite (enumerate_place_leaves (fun c => numeric_str_val b (cat_lab c))) by (apply depth1_leaves; auto).
    pose proof (agree_cat_nodes d 1 sh Hdepth Hsh Hd1 Hdm Hrows KNum (numeric_str_val b)) as H.
    rewrite (node_levels_depth1 _ Hdepth) in H. cbn [map] in H. apply H.
    intros nodes [<-|[]] ic Hic. apply label_ok_num_agrees.
    pose proof (node_levels_all _ _ Hok) as Ha. rewrite (node_levels_depth1 _ Hdepth) in Ha.
    inversion Ha as [|? ? Hn _]; subst. rewrite Forall_forall in Hn. apply Hn; auto.
  - destruct (N.eqb_spec depth 1) as [->|Hne1].
    + (* string cache *)
      inversion Hcc; subst cc. clear Hcc.
      rewrite (enumerate_place_leaves (fun c => label_str_val (cat_lab c))) by (apply depth1_leaves; auto).
      pose proof (agree_cat_nodes d 1 sh Hdepth Hsh Hd1 Hdm Hrows KStr label_str_val) as H.
      rewrite (node_levels_depth1 _ Hdepth) in H. cbn [map] in H. apply H.
      intros nodes [<-|[]] ic Hic. apply label_ok_str_agrees.
      pose proof (node_levels_all _ _ Hok) as Ha. rewrite (node_levels_depth1 _ Hdepth) in Ha.
      inversion Ha as [|? ? Hn _]; subst. rewrite Forall_forall in Hn. apply Hn; auto.
    + (* multi-level cache *)
      replace (depth =? 0) with false in Hcc by lia.
      inversion Hcc; subst cc. clear Hcc.
      rewrite levels_nodes, map_map.
      pose proof (agree_cat_nodes d depth sh Hdepth Hsh Hd1 Hdm Hrows KMulti (fun l => label_str_val (label_of l))) as H.
      erewrite map_ext; [apply H|].
      * intros nodes Hin ic Hic. rewrite label_str_val_label_of. apply label_ok_str_agrees.
        pose proof (node_levels_all _ _ Hok) as Ha. rewrite Forall_forall in Ha.
        specialize (Ha nodes Hin). rewrite Forall_forall in Ha. apply Ha; auto.
      * intros nodes. unfold level_entries. rewrite map_map. reflexivity.
Qed.

(** ** the series entries of the XML *)

Lemma cat_sers_inv b cs depth : forall ss idx es,
  cat_sers b cs depth idx ss = Ok es ->
  forall e, In e es -> exists j s cc,
    nth_error ss j = Some s /\ cat_cache_of b cs = Ok cc /\ depth <> 0 /\
    1 <= series_col_number depth (idx + N.of_nat j) <= 16384 /\
    cs_name_rng e = series_name_rng depth (idx + N.of_nat j) /\
    cs_name_ref e = render_cell (column_letters (series_col_number depth (idx + N.of_nat j))) 1 /\
    cs_name e = name_of (s_name s) /\
    cs_cat_rng e = categories_rng depth (forest_leaf_count cs) /\
    cs_cat_ref e = render_range [65] 2 (column_letters depth) (forest_leaf_count cs + 1) /\
    cs_cat e = cc /\
    cs_val_rng e = values_rng depth (idx + N.of_nat j) (len_N (s_vals s)) /\
    cs_val_ref e = render_range (column_letters (series_col_number depth (idx + N.of_nat j))) 2
                     (column_letters (series_col_number depth (idx + N.of_nat j))) (len_N (s_vals s) + 1) /\
    cs_val e = val_cache (s_vals s).
Proof.
  induction ss as [|s ss IH]; intros idx es H e He; cbn [cat_sers] in H.
  - inversion H; subst. destruct He.
  - unfold series_name_ref_text, values_ref_text, categories_ref_text in H.
    destruct (column_reference (series_col_number depth idx)) as [col|] eqn:Ec; cbn [bind] in H; [|discriminate].
    apply column_reference_ok in Ec as [Hcol ->].
    destruct (N.eqb_spec depth 0) as [|Hd0]; cbn [bind] in H; [discriminate|].
    destruct (column_reference depth) as [dcol|] eqn:Edc; cbn [bind] in H; [|discriminate].
    apply column_reference_ok in Edc as [_ ->].
    destruct (cat_cache_of b cs) as [cc|] eqn:Ecc; cbn [bind] in H; [|discriminate].
    destruct (cat_sers b cs depth (idx + 1) ss) as [tl|] eqn:Et; cbn [bind] in H; [|discriminate].
    inversion H; subst es. clear H. destruct He as [<-|He].
    + exists O, s, cc. cbn [N.of_nat nth_error]. rewrite !N.add_0_r.
      cbn [cs_name_rng cs_name_ref cs_name cs_cat_rng cs_cat_ref cs_cat cs_val_rng cs_val_ref cs_val].
      repeat split; auto; lia.
    + destruct (IH _ _ Et e He) as [j [s' [cc' Hj]]].
      exists (S j), s', cc'. cbn [nth_error]. rewrite Nat2N.inj_succ.
      replace (idx + N.succ (N.of_nat j)) with (idx + 1 + N.of_nat j) by lia. exact Hj.
Qed.

(** ** C08_cat_chart *)

Lemma categories_text_render depth leafs :
  render_range [65] 2 (column_letters depth) (leafs + 1) = render_rng (categories_rng depth leafs).
Proof.
  unfold render_rng, categories_rng. cbn [r_c1 r_c2 r_r1 r_r2].
  rewrite (column_letters_single 1) by lia. reflexivity.
Qed.

Definition series_ok (s : series) : bool :=
  str_safe (name_of (s_name s)) && (1 <=? len_N (s_vals s)) && (len_N (s_vals s) <? xl_rowmax).

Definition cat_domain (b : bool) (d : catdata) : bool :=
  cat_labels_ok b (cd_cats d) && forallb series_ok (cd_series d)
  && (forest_leaf_count (cd_cats d) <? xl_rowmax).

Lemma cat_chart_agrees b d es sh :
  cat_domain b d = true -> cat_xml b d = Ok es -> cat_sheet d = Ok sh ->
  forallb (agree_cat_ser sh) es = true.
Proof.
  intros Hdom Hxml Hsh. unfold cat_domain in Hdom.
  apply andb_true_iff in Hdom as [Hdom Hrows]. apply andb_true_iff in Hdom as [Hlab Hser].
  unfold cat_xml in Hxml. destruct (forest_depth (cd_cats d)) as [depth|] eqn:Hdepth; cbn [bind] in Hxml; [|discriminate].
  apply forallb_forall. intros e He.
  destruct (cat_sers_inv _ _ _ _ _ _ Hxml e He) as
    [j [s [cc [Hj [Hcc [Hd0 [Hcol [E1 [T1 [E2 [E3 [T2 [E4 [E5 [T3 E6]]]]]]]]]]]]]]].
  rewrite forallb_forall in Hser. specialize (Hser s (nth_error_In _ _ Hj)).
  unfold series_ok in Hser. apply andb_true_iff in Hser as [Hser Hlen2]. apply andb_true_iff in Hser as [Hname Hlen1].
  unfold series_col_number in Hcol.
  assert (Hrow : forest_leaf_count (cd_cats d) < xl_rowmax) by lia.
  unfold agree_cat_ser. rewrite E1, E2, E3, E4, E5, E6, T1, T2, T3.
  rewrite (categories_text_render depth).
  unfold render_cell_rng, render_rng.
  unfold series_name_rng, values_rng, series_col_number. cbn [r_c1 r_c2 r_r1 r_r2].
  rewrite !str_eqb_refl, !andb_true_r.
  replace (1 + depth + (0 + N.of_nat j)) with (depth + N.of_nat j + 1) by lia.
  apply andb_true_iff; split; [apply andb_true_iff; split|].
  - apply agree_name_intro; auto; [lia|].
    replace (1 - 1) with 0 by lia. replace (depth + N.of_nat j + 1 - 1) with (depth + N.of_nat j) by lia.
    apply (cat_cell_name d depth sh Hdepth Hsh); auto.
    unfold in_dims, xl_rowmax, xl_colmax. apply andb_true_iff; split; lia.
  - apply (agree_cat_cache b d depth sh cc); auto; unfold xl_colmax; lia.
  - apply agree_values; try lia.
    intros k v Hk.
    replace (2 - 1 + N.of_nat k) with (1 + N.of_nat k) by lia.
    replace (depth + N.of_nat j + 1 - 1) with (depth + N.of_nat j) by lia.
    apply (cat_cell_value d depth sh Hdepth Hsh j s k v); auto.
    assert (Hkl : (k < length (s_vals s))%nat) by (apply nth_error_Some; congruence).
    unfold in_dims, xl_rowmax, xl_colmax, len_N in *. apply andb_true_iff; split; lia.
Qed.

(** * 5. XY and bubble charts *)

Lemma sumN_app a b : sumN (a ++ b) = sumN a + sumN b.
Proof. unfold sumN. induction a; cbn [app fold_right]; lia. Qed.

Lemma firstn_succ_nth {A} : forall (l : list A) k x, nth_error l k = Some x -> firstn (S k) l = firstn k l ++ [x].
Proof.
  induction l as [|y l IH]; intros k x H; [destruct k; discriminate|].
  destruct k as [|k]; cbn in H.
  - inversion H; subst. reflexivity.
  - change (firstn (S (S k)) (y :: l)) with (y :: firstn (S k) l).
    rewrite (IH k x H). reflexivity.
Qed.

Lemma firstn_succ_none {A} : forall (l : list A) k, nth_error l k = None -> firstn (S k) l = firstn k l.
Proof.
  intros l k H. apply nth_error_None in H. transitivity l; [apply firstn_all2; lia | symmetry; apply firstn_all2; lia].
Qed.

Lemma row_offset_succ all k s :
  nth_error all k = Some s -> row_offset all (S k) = row_offset all k + xy_len s + 2.
Proof.
  intros H. unfold row_offset. rewrite (firstn_succ_nth _ _ _ H), map_app, sumN_app.
  cbn [map sumN fold_right]. rewrite Nat2N.inj_succ. lia.
Qed.

Lemma row_offset_step all k : row_offset all k <= row_offset all (S k).
Proof.
  destruct (nth_error all k) as [s|] eqn:E.
  - rewrite (row_offset_succ _ _ _ E). lia.
  - unfold row_offset. rewrite (firstn_succ_none _ _ E), Nat2N.inj_succ. lia.
Qed.

Lemma row_offset_mono all j sj : forall k, (j < k)%nat -> nth_error all j = Some sj ->
  row_offset all j + xy_len sj + 2 <= row_offset all k.
Proof.
  induction k as [|k IH]; intros Hjk Hj; [lia|].
  destruct (Nat.eq_dec j k) as [->|Hne].
  - rewrite (row_offset_succ _ _ _ Hj). lia.
  - specialize (IH ltac:(lia) Hj). pose proof (row_offset_step all k). lia.
Qed.

Definition untouched_rows (sh : sheet) (r0 : N) : Prop := forall r c, r0 <= r -> get sh r c = Empty.

Lemma get_write_table_before b sh off s r c : r < off -> get (write_table b sh off s) r c = get sh r c.
Proof.
  intros H. unfold write_table. destruct b.
  - rewrite get_write_column_miss by lia. rewrite get_xl_write_other by lia.
    rewrite get_write_column_miss by lia. rewrite get_xl_write_other by lia.
    apply get_write_column_miss. lia.
  - rewrite get_write_column_miss by lia. rewrite get_xl_write_other by lia.
    apply get_write_column_miss. lia.
Qed.

Lemma xy_lens s : len_N (map pv_of_val (xy_x s)) = xy_len s /\ len_N (map pv_of_val (xy_y s)) = xy_len s
  /\ len_N (map pv_of_val (xy_size s)) = xy_len s.
Proof. unfold len_N, xy_x, xy_y, xy_size, xy_len, len_N. rewrite !map_length. auto. Qed.

Lemma get_write_table_beyond b sh off s r c : off + xy_len s < r -> get (write_table b sh off s) r c = get sh r c.
Proof.
  intros H. destruct (xy_lens s) as [Hx [Hy Hz]]. unfold write_table. destruct b.
  - rewrite get_write_column_miss by lia. rewrite get_xl_write_other by lia.
    rewrite get_write_column_miss by lia. rewrite get_xl_write_other by lia.
    apply get_write_column_miss. lia.
  - rewrite get_write_column_miss by lia. rewrite get_xl_write_other by lia.
    apply get_write_column_miss. lia.
Qed.

(** what the table of one series holds *)
Definition table_facts (b : bool) (sh : sheet) (off : N) (s : xyseries) : Prop :=
  (in_dims off 1 = true -> get sh off 1 = xl_write_str (name_of (xy_name s))) /\
  (forall i v, nth_error (xy_x s) i = Some v -> in_dims (off + 1 + N.of_nat i) 0 = true ->
     get sh (off + 1 + N.of_nat i) 0 = xl_cell (pv_of_val v)) /\
  (forall i v, nth_error (xy_y s) i = Some v -> in_dims (off + 1 + N.of_nat i) 1 = true ->
     get sh (off + 1 + N.of_nat i) 1 = xl_cell (pv_of_val v)) /\
  (b = true -> forall i v, nth_error (xy_size s) i = Some v -> in_dims (off + 1 + N.of_nat i) 2 = true ->
     get sh (off + 1 + N.of_nat i) 2 = xl_cell (pv_of_val v)).

Lemma write_table_facts b sh off s :
  untouched_rows sh off -> table_facts b (write_table b sh off s) off s.
Proof.
  intros Hu. unfold table_facts, write_table. repeat split.
  - intros Hd. destruct b.
    + rewrite get_write_column_miss by lia. rewrite get_xl_write_other by lia.
      rewrite get_write_column_miss by lia.
      rewrite get_xl_write_nofmt; auto. rewrite get_write_column_miss by lia. apply Hu. lia.
    + rewrite get_write_column_miss by lia.
      rewrite get_xl_write_nofmt; auto. rewrite get_write_column_miss by lia. apply Hu. lia.
  - intros i v Hi Hd.
    assert (Hm : nth_error (map pv_of_val (xy_x s)) i = Some (pv_of_val v)) by (rewrite nth_error_map, Hi; auto).
    destruct b.
    + rewrite get_write_column_miss by lia. rewrite get_xl_write_other by lia.
      rewrite get_write_column_miss by lia. rewrite get_xl_write_other by lia.
      apply get_write_column_hit; auto.
    + rewrite get_write_column_miss by lia. rewrite get_xl_write_other by lia.
      apply get_write_column_hit; auto.
  - intros i v Hi Hd.
    assert (Hm : nth_error (map pv_of_val (xy_y s)) i = Some (pv_of_val v)) by (rewrite nth_error_map, Hi; auto).
    destruct b.
    + rewrite get_write_column_miss by lia. rewrite get_xl_write_other by lia.
      apply get_write_column_hit; auto.
    + apply get_write_column_hit; auto.
  - intros Hb i v Hi Hd. subst b.
    assert (Hm : nth_error (map pv_of_val (xy_size s)) i = Some (pv_of_val v)) by (rewrite nth_error_map, Hi; auto).
    apply get_write_column_hit; auto.
Qed.

Lemma table_facts_preserved b sh sh' off s :
  (forall r c, r <= off + xy_len s -> get sh' r c = get sh r c) ->
  table_facts b sh off s -> table_facts b sh' off s.
Proof.
  intros Hsame [F1 [F2 [F3 F4]]].
  assert (Hlx : forall i v, nth_error (xy_x s) i = Some v -> N.of_nat i < xy_len s).
  { intros i v Hi. assert (Hl : (i < length (xy_x s))%nat) by (apply nth_error_Some; congruence).
    unfold xy_x in Hl. rewrite map_length in Hl. unfold xy_len, len_N. lia. }
  assert (Hly : forall i v, nth_error (xy_y s) i = Some v -> N.of_nat i < xy_len s).
  { intros i v Hi. assert (Hl : (i < length (xy_y s))%nat) by (apply nth_error_Some; congruence).
    unfold xy_y in Hl. rewrite map_length in Hl. unfold xy_len, len_N. lia. }
  assert (Hlz : forall i v, nth_error (xy_size s) i = Some v -> N.of_nat i < xy_len s).
  { intros i v Hi. assert (Hl : (i < length (xy_size s))%nat) by (apply nth_error_Some; congruence).
    unfold xy_size in Hl. rewrite map_length in Hl. unfold xy_len, len_N. lia. }
  unfold table_facts. repeat split.
  - intros Hd. rewrite Hsame by lia. auto.
  - intros i v Hi Hd. rewrite Hsame by (specialize (Hlx i v Hi); lia). auto.
  - intros i v Hi Hd. rewrite Hsame by (specialize (Hly i v Hi); lia). auto.
  - intros Hb i v Hi Hd. rewrite Hsame by (specialize (Hlz i v Hi); lia). auto.
Qed.

Lemma xy_loop_before b all : forall rest k sh r c,
  r < row_offset all k -> get (xy_loop b all k rest sh) r c = get sh r c.
Proof.
  induction rest as [|s rest IH]; intros k sh r c H; cbn [xy_loop]; auto.
  rewrite IH by (pose proof (row_offset_step all k); lia).
  apply get_write_table_before; auto.
Qed.

Lemma xy_loop_facts b all : forall rest k sh j s,
  (forall i s', nth_error rest i = Some s' -> nth_error all (k + i) = Some s') ->
  untouched_rows sh (row_offset all k) ->
  nth_error rest j = Some s ->
  table_facts b (xy_loop b all k rest sh) (row_offset all (k + j)) s.
Proof.
  induction rest as [|s0 rest IH]; intros k sh j s Hall Hu Hj; [destruct j; discriminate|].
  cbn [xy_loop].
  assert (H0 : nth_error all k = Some s0).
  { specialize (Hall O s0 eq_refl). rewrite Nat.add_0_r in Hall. auto. }
  destruct j as [|j].
  - cbn in Hj. inversion Hj; subst s0. rewrite Nat.add_0_r.
    apply (table_facts_preserved b (write_table b sh (row_offset all k) s)); [|apply write_table_facts; auto].
    intros r c Hr. apply xy_loop_before. rewrite (row_offset_succ _ _ _ H0). lia.
  - cbn [nth_error] in Hj. replace (k + S j)%nat with (S k + j)%nat by lia.
    apply IH; auto.
    + intros i s' Hi. replace (S k + i)%nat with (k + S i)%nat by lia. apply Hall. auto.
    + intros r c Hr. rewrite (row_offset_succ _ _ _ H0) in Hr.
      rewrite get_write_table_beyond by lia. apply Hu. lia.
Qed.

Lemma xy_sheet_facts b all j s :
  nth_error all j = Some s -> table_facts b (xy_sheet b all) (row_offset all j) s.
Proof.
  intros Hj. unfold xy_sheet. replace j with (0 + j)%nat by lia.
  apply xy_loop_facts; auto. intros r c _. reflexivity.
Qed.

Lemma xy_sers_inv b all : forall rest k e,
  In e (xy_sers b all k rest) -> exists j s, nth_error rest j = Some s /\ e = xy_ser_of b all (k + j) s.
Proof.
  induction rest as [|s rest IH]; intros k e H; cbn [xy_sers] in H; [destruct H|].
  destruct H as [<-|H].
  - exists O, s. rewrite Nat.add_0_r. auto.
  - destruct (IH _ _ H) as [j [s' [Hj ->]]]. exists (S j), s'. cbn [nth_error].
    replace (k + S j)%nat with (S k + j)%nat by lia. auto.
Qed.

Lemma xy_ref_text_render col off len :
  1 <= col <= 26 -> xy_col_ref_text col off len = render_rng (xy_col_rng col off len).
Proof.
  intros H. unfold xy_col_ref_text, render_rng, xy_col_rng. cbn [r_c1 r_c2 r_r1 r_r2].
  rewrite (column_letters_single col) by lia. replace (65 + col - 1) with (64 + col) by lia. reflexivity.
Qed.

Lemma xy_name_ref_text_render off :
  xy_name_ref_text off = render_cell (column_letters (r_c1 (xy_name_rng off))) (r_r1 (xy_name_rng off)).
Proof. reflexivity. Qed.

Definition xy_series_ok (s : xyseries) : bool := str_safe (name_of (xy_name s)) && (1 <=? xy_len s).
Definition xy_domain (all : list xyseries) : bool :=
  forallb xy_series_ok all && (row_offset all (length all) <=? xl_rowmax).

Lemma xy_chart_agrees b all :
  xy_domain all = true -> forallb (agree_xy_ser (xy_sheet b all)) (xy_xml b all) = true.
Proof.
  intros Hdom. unfold xy_domain in Hdom. apply andb_true_iff in Hdom as [Hser Hrows].
  apply forallb_forall. intros e He. unfold xy_xml in He.
  destruct (xy_sers_inv _ _ _ _ _ He) as [j [s [Hj ->]]]. cbn [Nat.add] in *.
  rewrite forallb_forall in Hser. specialize (Hser s (nth_error_In _ _ Hj)).
  unfold xy_series_ok in Hser. apply andb_true_iff in Hser as [Hname Hlen].
  destruct (xy_sheet_facts b all j s Hj) as [F1 [F2 [F3 F4]]].
  set (off := row_offset all j) in *. set (sh := xy_sheet b all) in *.
  assert (Hjl : (j < length all)%nat) by (apply nth_error_Some; congruence).
  assert (Hend : off + xy_len s + 2 <= xl_rowmax).
  { pose proof (row_offset_mono all j s (length all) Hjl Hj). unfold off. lia. }
  assert (Hdim : forall i c, N.of_nat i < xy_len s -> c < 3 -> in_dims (off + 1 + N.of_nat i) c = true).
  { intros i c Hi Hc. unfold in_dims, xl_colmax. apply andb_true_iff; split; lia. }
  assert (Hlx : forall l, length l = length (xy_pts s) -> forall i (v : val), nth_error l i = Some v -> N.of_nat i < xy_len s).
  { intros l Hl i v Hi. assert ((i < length l)%nat) by (apply nth_error_Some; congruence).
    unfold xy_len, len_N. lia. }
  unfold agree_xy_ser, xy_ser_of.
  cbn [xs_name_rng xs_name xs_x_rng xs_x xs_y_rng xs_y xs_size xs_name_ref xs_x_ref xs_y_ref].
  fold off. rewrite !xy_ref_text_render by lia. rewrite xy_name_ref_text_render.
  unfold render_cell_rng. rewrite !str_eqb_refl, !andb_true_r.
  unfold xy_name_rng, xy_col_rng.
  apply andb_true_iff; split; [apply andb_true_iff; split; [apply andb_true_iff; split|]|].
  - apply agree_name_intro; auto; [lia|].
    replace (off + 1 - 1) with off by lia. replace (2 - 1) with 1 by lia. apply F1.
    unfold in_dims, xl_colmax. apply andb_true_iff; split; lia.
  - apply agree_values; try lia.
    + unfold xy_x, len_N. rewrite map_length. fold (len_N (xy_pts s)). fold (xy_len s). lia.
    + unfold xy_x, len_N. rewrite map_length. fold (len_N (xy_pts s)). fold (xy_len s). lia.
    + intros k v Hk. replace (off + 2 - 1 + N.of_nat k) with (off + 1 + N.of_nat k) by lia.
      replace (1 - 1) with 0 by lia. apply F2; auto. apply Hdim; [|lia].
      apply (Hlx (xy_x s)) with (v := v); auto. unfold xy_x. apply map_length.
  - apply agree_values; try lia.
    + unfold xy_y, len_N. rewrite map_length. fold (len_N (xy_pts s)). fold (xy_len s). lia.
    + unfold xy_y, len_N. rewrite map_length. fold (len_N (xy_pts s)). fold (xy_len s). lia.
    + intros k v Hk. replace (off + 2 - 1 + N.of_nat k) with (off + 1 + N.of_nat k) by lia.
      replace (2 - 1) with 1 by lia. apply F3; auto. apply Hdim; [|lia].
      apply (Hlx (xy_y s)) with (v := v); auto. unfold xy_y. apply map_length.
  - destruct b; [|reflexivity]. rewrite str_eqb_refl, andb_true_r.
    apply agree_values; try lia.
    + unfold xy_size, len_N. rewrite map_length. fold (len_N (xy_pts s)). fold (xy_len s). lia.
    + unfold xy_size, len_N. rewrite map_length. fold (len_N (xy_pts s)). fold (xy_len s). lia.
    + intros k v Hk. replace (off + 2 - 1 + N.of_nat k) with (off + 1 + N.of_nat k) by lia.
      replace (3 - 1) with 2 by lia. apply F4; auto. apply Hdim; [|lia].
      apply (Hlx (xy_size s)) with (v := v); auto. unfold xy_size. apply map_length.
Qed.

(** tables of different series do not overlap: the last row a series refers to lies
    before the first row a later series refers to, with a spacer row between *)
Lemma xy_tables_disjoint b all j k sj sk :
  (j < k)%nat -> nth_error all j = Some sj -> nth_error all k = Some sk ->
  let ej := xy_ser_of b all j sj in
  let ek := xy_ser_of b all k sk in
  r_r1 (xs_name_rng ej) <= r_r1 (xs_x_rng ej) /\
  r_r1 (xs_x_rng ej) = r_r1 (xs_y_rng ej) /\ r_r2 (xs_x_rng ej) = r_r2 (xs_y_rng ej) /\
  r_r2 (xs_y_rng ej) + 1 < r_r1 (xs_name_rng ek) /\
  r_r1 (xs_name_rng ej) = row_offset all j + 1 /\
  r_r2 (xs_y_rng ej) = row_offset all j + 1 + xy_len sj.
Proof.
  intros Hjk Hj Hk. cbn. pose proof (row_offset_mono all j sj k Hjk Hj). lia.
Qed.

(** * 6. The statements by reference, texts of the references, histories *)

(** cells addressed through the structured references of series j *)
Lemma cat_cells_by_ref d depth sh j s :
  forest_depth (cd_cats d) = Ok depth -> cat_sheet d = Ok sh ->
  nth_error (cd_series d) j = Some s ->
  series_col_number depth (N.of_nat j) <= xl_colmax ->
  let nr := series_name_rng depth (N.of_nat j) in
  let vr := values_rng depth (N.of_nat j) (len_N (s_vals s)) in
  get sh (r_r1 nr - 1) (r_c1 nr - 1) = xl_write_str (name_of (s_name s)) /\
  r_c1 vr = r_c2 vr /\ r_c1 vr = r_c1 nr /\
  r_r2 vr + 1 - r_r1 vr = pt_count (val_cache (s_vals s)) /\
  (forall k v, nth_error (s_vals s) k = Some v -> r_r1 vr - 1 + N.of_nat k < xl_rowmax ->
     get sh (r_r1 vr - 1 + N.of_nat k) (r_c1 vr - 1) = xl_cell (pv_of_val v)).
Proof.
  intros Hdepth Hsh Hj Hcol. unfold series_col_number, xl_colmax in Hcol.
  cbn [series_name_rng values_rng r_r1 r_r2 r_c1 r_c2 val_cache pt_count]. unfold series_col_number.
  replace (1 + depth + N.of_nat j - 1) with (depth + N.of_nat j) by lia.
  repeat split.
  - replace (1 - 1) with 0 by lia. apply (cat_cell_name d depth sh Hdepth Hsh); auto.
    unfold in_dims, xl_rowmax, xl_colmax. apply andb_true_iff; split; lia.
  - lia.
  - intros k v Hk Hr. replace (2 - 1 + N.of_nat k) with (1 + N.of_nat k) in * by lia.
    apply (cat_cell_value d depth sh Hdepth Hsh j s k v); auto.
    unfold in_dims, xl_colmax. apply andb_true_iff; split; lia.
Qed.

(** level i of the hierarchy through the categories reference: column c2 - i, the
    row of point idx k is r1 + k *)
Lemma cat_levels_by_ref d depth sh i l k :
  forest_depth (cd_cats d) = Ok depth -> cat_sheet d = Ok sh -> 1 <= depth -> depth <= xl_colmax ->
  nth_error (levels (cd_cats d)) i = Some l ->
  let cr := categories_rng depth (forest_leaf_count (cd_cats d)) in
  k < forest_leaf_count (cd_cats d) -> forest_leaf_count (cd_cats d) < xl_rowmax ->
  r_c1 cr + N.of_nat i <= r_c2 cr /\
  r_r2 cr + 1 - r_r1 cr = forest_leaf_count (cd_cats d) /\
  len_N (levels (cd_cats d)) = r_c2 cr + 1 - r_c1 cr /\
  (forall e, In e l -> fst e < forest_leaf_count (cd_cats d)) /\
  NoDup (map fst l) /\
  get sh (r_r1 cr - 1 + k) (r_c2 cr - N.of_nat i - 1) =
    match lookup k l with Some lab => xl_cell (date_only lab) | None => Empty end.
Proof.
  intros Hdepth Hsh Hd1 Hdm Hi cr Hk Hrows. unfold cr, categories_rng. cbn [r_c1 r_c2 r_r1 r_r2].
  assert (Hlen : len_N (levels (cd_cats d)) = depth) by (apply levels_length; auto).
  assert (Hil : N.of_nat i < depth).
  { rewrite <- Hlen. unfold len_N. assert ((i < length (levels (cd_cats d)))%nat) by (apply nth_error_Some; congruence). lia. }
  rewrite levels_nodes in Hi. rewrite nth_error_map in Hi.
  destruct (nth_error (node_levels (cd_cats d)) i) as [nodes|] eqn:En; [|discriminate].
  cbn [option_map] in Hi. inversion Hi; subst l. clear Hi.
  pose proof (node_levels_spaced (cd_cats d)) as Hs. rewrite Forall_forall in Hs.
  specialize (Hs nodes (nth_error_In _ _ En)).
  repeat split; try lia.
  - intros e He. unfold level_entries in He. apply in_map_iff in He as [ic [<- Hic]]. cbn [fst].
    apply (spaced_bounds _ _ _ Hs ic Hic).
  - rewrite level_entries_fst. eapply spaced_nodup; eauto.
  - replace (2 - 1 + k) with (k + 1) by lia.
    apply (cat_cell_level d depth sh Hdepth Hsh); auto.
    + rewrite levels_nodes, nth_error_map, En. reflexivity.
    + unfold in_dims, xl_rowmax, xl_colmax in *. apply andb_true_iff; split; lia.
Qed.

(** texts *)
Lemma values_ref_text_render depth idx len t :
  values_ref_text depth idx len = Ok t -> t = render_rng (values_rng depth idx len).
Proof.
  unfold values_ref_text. destruct (column_reference _) as [col|] eqn:E; cbn [bind]; [|discriminate].
  apply column_reference_ok in E as [_ ->]. intros H; inversion H; reflexivity.
Qed.

Lemma series_name_ref_text_render depth idx t :
  series_name_ref_text depth idx = Ok t ->
  t = render_cell (column_letters (r_c1 (series_name_rng depth idx))) (r_r1 (series_name_rng depth idx)).
Proof.
  unfold series_name_ref_text. destruct (column_reference _) as [col|] eqn:E; cbn [bind]; [|discriminate].
  apply column_reference_ok in E as [_ ->]. intros H; inversion H; reflexivity.
Qed.

Lemma series_ref_text_guard depth idx len :
  (values_ref_text depth idx len = Err ValueErr <-> 16384 < series_col_number depth idx) /\
  (series_name_ref_text depth idx = Err ValueErr <-> 16384 < series_col_number depth idx).
Proof.
  unfold values_ref_text, series_name_ref_text.
  destruct (column_reference_guard (series_col_number depth idx)) as [G1 G2].
  assert (1 <= series_col_number depth idx) by (unfold series_col_number; lia).
  destruct (column_reference (series_col_number depth idx)) as [col|e] eqn:E; cbn [bind].
  - split; (split; [discriminate|]); intros Hgt; destruct G1 as [_ G1]; specialize (G1 (or_intror Hgt)); discriminate.
  - destruct (N.le_gt_cases (series_col_number depth idx) 16384) as [Hle|Hgt].
    + specialize (G2 (conj H Hle)). discriminate.
    + destruct G1 as [_ G1]. specialize (G1 (or_intror Hgt)). inversion G1; subst. split; split; auto.
Qed.

Lemma categories_ref_text_render depth leafs t :
  categories_ref_text depth leafs = Ok t -> t = render_rng (categories_rng depth leafs).
Proof.
  unfold categories_ref_text. destruct (depth =? 0); [discriminate|].
  destruct (column_reference depth) as [col|] eqn:E; cbn [bind]; [|discriminate].
  apply column_reference_ok in E as [_ ->]. intros H; inversion H; subst.
  apply categories_text_render.
Qed.

Lemma categories_ref_text_guard depth leafs :
  (categories_ref_text depth leafs = Err ValueErr <-> (depth = 0 \/ 16384 < depth)) /\
  (1 <= depth <= 16384 -> categories_ref_text depth leafs = Ok (render_rng (categories_rng depth leafs))).
Proof.
  unfold categories_ref_text. destruct (N.eqb_spec depth 0) as [->|Hn].
  - split; [split; auto|lia].
  - destruct (column_reference_guard depth) as [[G1 G1'] G2].
    destruct (N.le_gt_cases depth 16384) as [Hle|Hgt].
    + rewrite G2 by lia. cbn [bind]. split.
      * split; [discriminate|lia].
      * intros _. f_equal; try apply categories_text_render.
    + rewrite G1' by lia. cbn [bind]. split; [split; auto|lia].
Qed.

(** the reversed range of an empty series *)
Lemma empty_series_range depth idx col off :
  r_r2 (values_rng depth idx 0) < r_r1 (values_rng depth idx 0) /\
  r_r2 (xy_col_rng col off 0) < r_r1 (xy_col_rng col off 0).
Proof. cbn. lia. Qed.

(** verdicts: the property evaluated by the model on a chart data object *)
Definition cat_verdict (b : bool) (d : catdata) : option bool :=
  match cat_xml b d, cat_sheet d with
  | Ok es, Ok sh => Some (forallb (agree_cat_ser sh) es)
  | _, _ => None
  end.
Definition xy_verdict (b : bool) (all : list xyseries) : bool :=
  forallb (agree_xy_ser (xy_sheet b all)) (xy_xml b all).

Lemma cat_verdict_domain b d : cat_domain b d = true -> cat_verdict b d = Some true \/ cat_verdict b d = None.
Proof.
  intros H. unfold cat_verdict. destruct (cat_xml b d) as [es|] eqn:Ex; auto.
  destruct (cat_sheet d) as [sh|] eqn:Es; auto. left. f_equal. eapply cat_chart_agrees; eauto.
Qed.

(** the workbook is written whenever the XML is (the only error both can raise is the
    ValueError of a non-uniform hierarchy, which the XML writers hit first) *)
Lemma cat_sheet_ok_of_xml b d es : cat_xml b d = Ok es -> exists sh, cat_sheet d = Ok sh.
Proof.
  unfold cat_xml, cat_sheet. destruct (forest_depth (cd_cats d)); cbn [bind]; [|discriminate].
  intros _. eexists; reflexivity.
Qed.

(** histories *)
Definition data_domain (bw : bool) (d : chart_data) : bool :=
  match d with CatD cd => cat_domain bw cd | XyD _ ss => xy_domain ss end.

Lemma data_agrees bw d x sh :
  data_domain bw d = true -> xml_of bw d = Ok x -> sheet_of d = Ok sh -> agree_xml x sh = true.
Proof.
  destruct d as [cd|b ss]; cbn [data_domain xml_of sheet_of]; intros Hd Hx Hs.
  - destruct (cat_xml bw cd) as [es|] eqn:E; cbn [bind] in Hx; [|discriminate].
    inversion Hx; subst. cbn [agree_xml]. eapply cat_chart_agrees; eauto.
  - inversion Hx; inversion Hs; subst. cbn [agree_xml]. apply xy_chart_agrees; auto.
Qed.

(** the data last written and the date system in force when it was written *)
Fixpoint track (d : chart_data) (bw b : bool) (ops : list op) : chart_data * bool :=
  match ops with
  | [] => (d, bw)
  | OpDate1904 b' :: r => track d bw b' r
  | OpReplace d' :: r => track d' b b r
  end.

Definition state_of (st : chart) (d : chart_data) (bw : bool) : Prop :=
  xml_of bw d = Ok (ch_xml st) /\ sheet_of d = Ok (ch_sheet st) /\ ch_parts st = 1 /\ ch_kind st = kind_of d.

Lemma run_ops_err e ops : run_ops (Err e) ops = Err e.
Proof. unfold run_ops. induction ops; cbn [fold_left bind]; auto. Qed.

Lemma run_ops_track : forall ops st d bw st',
  state_of st d bw -> run_ops (Ok st) ops = Ok st' ->
  state_of st' (fst (track d bw (ch_date1904 st) ops)) (snd (track d bw (ch_date1904 st) ops)).
Proof.
  induction ops as [|o ops IH]; intros st d bw st' Hst Hrun.
  - cbn in Hrun. inversion Hrun; subst. exact Hst.
  - unfold run_ops in Hrun. cbn [fold_left bind] in Hrun. fold (run_ops (step st o) ops) in Hrun.
    destruct o as [d'|b'].
    + cbn [step] in Hrun. destruct Hst as [Hx [Hs [Hp Hk]]].
      destruct (negb (kind_of d' =? ch_kind st)) eqn:Ek; [rewrite run_ops_err in Hrun; discriminate|].
      destruct (xml_of (ch_date1904 st) d') as [x|] eqn:Ex; cbn [bind] in Hrun; [|rewrite run_ops_err in Hrun; discriminate].
      destruct (sheet_of d') as [sh|] eqn:Es; cbn [bind] in Hrun; [|rewrite run_ops_err in Hrun; discriminate].
      cbn [track]. eapply (IH _ d' (ch_date1904 st)) in Hrun.
      * exact Hrun.
      * unfold state_of. cbn [ch_xml ch_sheet ch_parts ch_kind]. rewrite Hp.
        apply negb_false_iff, N.eqb_eq in Ek. repeat split; auto.
    + cbn [step] in Hrun. cbn [track].
      eapply (IH _ d bw) in Hrun; [exact Hrun|].
      destruct Hst as [Hx [Hs [Hp Hk]]]. unfold state_of. cbn [ch_xml ch_sheet ch_parts ch_kind]. auto.
Qed.

Lemma new_chart_state d st : new_chart d = Ok st -> state_of st d false /\ ch_date1904 st = false.
Proof.
  unfold new_chart. destruct (xml_of false d) as [x|] eqn:Ex; cbn [bind]; [|discriminate].
  destruct (sheet_of d) as [sh|] eqn:Es; cbn [bind]; [|discriminate].
  intros H; inversion H; subst. unfold state_of. cbn. auto.
Qed.

Lemma history_agrees d0 ops st :
  run_ops (new_chart d0) ops = Ok st ->
  let last := track d0 false false ops in
  xml_of (snd last) (fst last) = Ok (ch_xml st) /\ sheet_of (fst last) = Ok (ch_sheet st) /\
  ch_parts st = 1 /\
  (data_domain (snd last) (fst last) = true -> agree_chart st = true).
Proof.
  intros Hrun. destruct (new_chart d0) as [st0|e] eqn:E0; [|rewrite run_ops_err in Hrun; discriminate].
  destruct (new_chart_state _ _ E0) as [Hst Hb].
  pose proof (run_ops_track ops st0 d0 false st Hst Hrun) as H. rewrite Hb in H.
  destruct H as [Hx [Hs [Hp Hk]]]. cbn zeta. repeat split; auto.
  intros Hd. unfold agree_chart. eapply data_agrees; eauto.
Qed.

(** * 7. Outside the domain: what the model itself refutes; inside: examples *)

Lemma long_string_truncated s :
  formula_like s = false -> array_formula_like s = false -> url_like s = false ->
  xl_strmax < len_N s ->
  exists s', xl_write_str s = Str s' /\ len_N s' = xl_strmax /\ s' <> s /\
             cell_agrees (Some (CStr s)) (xl_write_str s) = false.
Proof.
  intros H1 H2 H3 Hl. destruct s as [|x r]; [unfold len_N, xl_strmax in Hl; cbn in Hl; lia|].
  exists (firstn (N.to_nat xl_strmax) (x :: r)).
  assert (Hlen : length (firstn (N.to_nat xl_strmax) (x :: r)) = N.to_nat xl_strmax).
  { apply firstn_length_le. unfold len_N in Hl. lia. }
  assert (Hne : firstn (N.to_nat xl_strmax) (x :: r) <> x :: r).
  { intros E. rewrite E in Hlen. unfold len_N in Hl. lia. }
  unfold xl_write_str. rewrite H1, H2, H3. repeat split; auto.
  - unfold len_N. rewrite Hlen. lia.
  - cbn [cell_agrees]. destruct (str_eqb_spec (x :: r) (firstn (N.to_nat xl_strmax) (x :: r))); auto.
    congruence.
Qed.

Definition w_long : str := repeat 120 (N.to_nat 32768).
Lemma w_long_hyps :
  formula_like w_long = false /\ array_formula_like w_long = false /\ url_like w_long = false /\
  xl_strmax < len_N w_long.
Proof. vm_compute. repeat split. Qed.

Definition wA : str := [97].
Definition wB : str := [98].
Definition w_one : val := Some (1%Z, 1%positive).
Definition w_formula := mk_catdata [Cat (PStr wA) []] [mk_series (Some [61; 49; 43; 49]) [w_one]].
Definition w_empty := mk_catdata [Cat (PStr wA) []] [mk_series (Some wB) []].
Definition w_time := mk_catdata [Cat (PDateTime 737426 43200000000) []] [mk_series (Some wB) [w_one]].
Definition w_1900 := mk_catdata [Cat (PDateTime 693596 0) []] [mk_series (Some wB) [w_one]].
Definition w_date := mk_catdata [Cat (PDate 737426) []] [mk_series (Some wB) [w_one]].
Definition w_none := mk_catdata [Cat (PNum 1 1) []; Cat PNone []] [mk_series (Some wB) [w_one]].
Definition w_xy_empty := [mk_xyseries (Some wA) [(w_one, w_one, None)]; mk_xyseries (Some wB) [];
                          mk_xyseries (Some wB) [(w_one, w_one, w_one)]].

(** a three-level ragged hierarchy with None and number labels, series of unequal
    lengths with missing values and a missing name *)
Definition ex_cat := mk_catdata
  [Cat (PStr wA) [Cat (PStr wB) [Cat (PStr wA) []; Cat PNone []]; Cat (PStr wA) [Cat (PNum 3 2) []]];
   Cat (PStr wB) [Cat (PStr wB) [Cat (PStr wA) []]]]
  [mk_series (Some wA) [w_one; None; Some (5%Z, 2%positive); w_one]; mk_series None [w_one];
   mk_series (Some wB) [None; w_one]].
Definition ex_dates := mk_catdata [Cat (PDate 693654) []; Cat (PDate 693655) []; Cat (PDateTime 737426 0) []]
  [mk_series (Some wA) [w_one; None; w_one]].
Definition ex_xy := [mk_xyseries (Some wA) [(w_one, w_one, None); (None, w_one, w_one)];
                     mk_xyseries None [(w_one, None, w_one)];
                     mk_xyseries (Some wB) [(w_one, w_one, w_one); (w_one, w_one, w_one); (None, None, None)]].

Fixpoint chain (n : nat) : cat := match n with O => Cat (PStr wA) [] | S k => Cat (PStr wB) [chain k] end.
Definition w_depth27 := mk_catdata [chain 26] [mk_series (Some wB) [w_one]].
Definition ex_depth26 := mk_catdata [chain 25] [mk_series (Some wB) [w_one]].

Lemma witnesses_refuted :
  cat_verdict false w_formula = Some false /\ cat_verdict false w_empty = Some false /\
  cat_verdict true w_date = Some false /\ cat_verdict false w_date = Some true /\
  xy_verdict false w_xy_empty = false /\ xy_verdict true w_xy_empty = false.
Proof. vm_compute. repeat split. Qed.

(** regression: the former witnesses (datetime with a time of day, datetime(1900,1,1),
    None among numeric labels, 27 category levels) now agree and lie in the domain *)
Lemma former_witnesses_agree :
  cat_domain false w_time = true /\ cat_verdict false w_time = Some true /\
  cat_domain false w_1900 = true /\ cat_verdict false w_1900 = Some true /\
  cat_domain false w_none = true /\ cat_verdict false w_none = Some true /\
  cat_domain false w_depth27 = true /\ cat_verdict false w_depth27 = Some true /\
  categories_ref_text 27 1 = Ok [83; 104; 101; 101; 116; 49; 33; 36; 65; 36; 50; 58; 36; 65; 65; 36; 50].
Proof. vm_compute. repeat split. Qed.

Lemma empty_series_ref_text :
  values_ref_text 1 0 0 = Ok [83; 104; 101; 101; 116; 49; 33; 36; 66; 36; 50; 58; 36; 66; 36; 49].
Proof. vm_compute. reflexivity. Qed.

Lemma examples_in_domain :
  cat_domain false ex_cat = true /\ cat_verdict false ex_cat = Some true /\
  cat_domain false ex_dates = true /\ cat_verdict false ex_dates = Some true /\
  xy_domain ex_xy = true /\ xy_verdict false ex_xy = true /\ xy_verdict true ex_xy = true.
Proof. vm_compute. repeat split. Qed.

Lemma example_history :
  exists st, run_ops (new_chart (CatD ex_cat)) [OpReplace (CatD ex_dates); OpDate1904 true; OpReplace (CatD ex_cat)] = Ok st
             /\ agree_chart st = true /\ ch_parts st = 1.
Proof. eexists. split; [vm_compute; reflexivity|]. split; vm_compute; reflexivity. Qed.

Lemma example_colref :
  column_reference 703 = Ok [65; 65; 65] /\ column_reference 16384 = Ok [88; 70; 68] /\
  column_reference 16385 = Err ValueErr /\ column_reference 0 = Err ValueErr /\ parse_col [88; 70; 68] = 16384.
Proof. vm_compute. repeat split. Qed.
