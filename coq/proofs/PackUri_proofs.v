(** Proofs about model/PackUri.v.  The statements below are fixed; each one is
    re-stated in props/C19.v and closed there by [exact <this lemma>]. *)
From V.lib Require Import Prelude.
From V.model Require Import PackUri.

Definition no_dot (s : str) : bool := forallb (fun c => negb (is_dot c)) s.

(** A reference the RFC statement covers: non-empty, pieces between slashes are
    non-empty except that the first may be empty (root-absolute reference), and the
    last piece is a real name (neither dot nor dot-dot). *)
Definition ref_ok (ref : str) : bool :=
  match split_on c_slash ref with
  | [] => false
  | first :: rest =>
      let pieces := match first with [] => rest | _ => first :: rest end in
      match pieces with
      | [] => false
      | _ => forallb (fun p => match p with [] => false | _ => true end) pieces
             && negb (str_eqb (last pieces []) s_dot)
             && negb (str_eqb (last pieces []) s_dotdot)
      end
  end.

(* ---- statements to be proved (replace each Abort by a proof ending in Qed) ---- *)

Lemma baseURI_render d f : wf_name d -> wf_segb f = true ->
  baseURI (render (d ++ [f])) = render d.
Abort.

Lemma baseURI_root : baseURI (render []) = render [].
Abort.

Lemma filename_render d f : wf_name d -> wf_segb f = true ->
  filename (render (d ++ [f])) = f.
Abort.

Lemma membername_render P : membername (render P) = join_with s_slash P.
Abort.

Lemma rels_uri_render d f : wf_name d -> wf_segb f = true ->
  rels_uri (render (d ++ [f])) = Ok (render (d ++ [s_rels_dir; f ++ s_rels_ext])).
Abort.

Lemma rels_uri_root : rels_uri (render []) = Ok (render [s_rels_dir; s_rels_ext]).
Abort.

(** extension: text after the last dot of the file name, when something other than
    dots precedes that dot *)
Lemma ext_render d stem e : wf_name d -> wf_segb (stem ++ c_dot :: e) = true ->
  existsb (fun c => negb (is_dot c)) stem = true -> no_dot e = true ->
  ext (render (d ++ [stem ++ c_dot :: e])) = e.
Abort.

Lemma ext_none d f : wf_name d -> wf_segb f = true -> no_dot f = true ->
  ext (render (d ++ [f])) = [].
Abort.

(** numeric index: stem = letters then digits (then anything that is not a digit) *)
Lemma idx_some d letters digits rest e : wf_name d ->
  letters <> [] -> forallb is_alpha_ascii letters = true ->
  digits <> [] -> forallb is_digit digits = true ->
  (match rest with [] => true | c :: _ => negb (is_digit c) end) = true ->
  no_dot (letters ++ digits ++ rest) = true -> forallb not_slash rest = true ->
  no_dot e = true -> forallb not_slash e = true ->
  idx (render (d ++ [letters ++ digits ++ rest ++ c_dot :: e])) = Some (dec_value digits).
Abort.

Lemma idx_none d letters rest e : wf_name d ->
  forallb is_alpha_ascii letters = true ->
  (match rest with [] => true | c :: _ => negb (is_digit c) && negb (is_alpha_ascii c) end) = true ->
  no_dot (letters ++ rest) = true -> forallb not_slash rest = true ->
  letters ++ rest <> [] ->
  no_dot e = true -> forallb not_slash e = true ->
  idx (render (d ++ [letters ++ rest ++ c_dot :: e])) = None.
Abort.

Lemma idx_root : idx (render []) = None.
Abort.

Lemma reject_not_rooted s : (forall r, s <> c_slash :: r) ->
  packuri_new s = Err IndexErr \/ packuri_new s = Err ValueErr.
Abort.

(** The round trip, for a directory D (possibly the root) and any part name Q
    (possibly the pseudo-name). *)
Lemma roundtrip_dir D Q : wf_name D -> wf_name Q ->
  bind (relative_ref (render Q) (render D)) (from_rel_ref (render D)) = Ok (render Q).
Abort.

Lemma roundtrip P Q : wf_name P -> wf_name Q ->
  bind (relative_ref (render Q) (baseURI (render P))) (from_rel_ref (baseURI (render P)))
  = Ok (render Q).
Abort.

Lemma rfc3986 D ref : wf_name D -> ref_ok ref = true ->
  from_rel_ref (render D) ref = Ok (render (rfc_resolve_segs D ref)).
Abort.
