(** Generic theorems about the xmlchemy insertion discipline (no schema data). *)
From V.lib Require Import Prelude.
From V.model Require Import Schema Xmlchemy.

Lemma memt_In t l : memt t l = true <-> In t l.
Proof.
  unfold memt; rewrite existsb_exists; split.
  - intros [x [Hx He]]. apply N.eqb_eq in He; subst; auto.
  - intros H; exists t; split; auto. apply N.eqb_refl.
Qed.
Lemma memt_nIn t l : memt t l = false <-> ~ In t l.
Proof. rewrite <- memt_In. destruct (memt t l); split; congruence. Qed.

Lemma ord_app rk l1 l2 :
  ord rk (l1 ++ l2) <-> ord rk l1 /\ ord rk l2 /\ (forall a b, In a l1 -> In b l2 -> rk a <= rk b).
Proof.
  induction l1 as [|a l1 IH]; simpl.
  - firstorder.
  - rewrite IH. split.
    + intros [H [H1 [H2 H3]]]. repeat split; auto.
      * intros b Hb; apply H; apply in_or_app; auto.
      * intros a0 b [->|Ha] Hb; [apply H; apply in_or_app; auto| auto].
    + intros [[H H1] [H2 H3]]. repeat split; auto.
      intros b Hb; apply in_app_or in Hb as [Hb|Hb]; auto.
Qed.

Lemma ins_at_split s x l : In s l ->
  exists l1 l2, l = l1 ++ s :: l2 /\ ~ In s l1 /\ ins_at s x l = l1 ++ x :: s :: l2.
Proof.
  induction l as [|c l IH]; simpl; [tauto|]. intros H.
  destruct (N.eqb_spec c s) as [->|Hn].
  - exists [], l; simpl; auto.
  - destruct H as [H|H]; [congruence|]. destruct (IH H) as (l1 & l2 & -> & Hni & ->).
    exists (c :: l1), l2; simpl; repeat split; auto. intros [E|E]; auto.
Qed.

Lemma first_found_some S l s : first_found S l = Some s ->
  exists S1 S2, S = S1 ++ s :: S2 /\ In s l /\ (forall a, In a S1 -> ~ In a l).
Proof.
  induction S as [|c S IH]; simpl; [discriminate|].
  destruct (memt c l) eqn:E.
  - intros [= ->]. exists [], S; simpl; repeat split; auto. apply memt_In; auto.
  - intros H; destruct (IH H) as (S1 & S2 & -> & Hin & Hno).
    exists (c :: S1), S2; simpl; repeat split; auto.
    intros a [<-|Ha]; auto. rewrite <- memt_In, E; discriminate.
Qed.

Lemma first_found_none S l : first_found S l = None -> forall a, In a S -> ~ In a l.
Proof.
  induction S as [|c S IH]; simpl; [tauto|]. destruct (memt c l) eqn:E; [discriminate|].
  intros H a [<-|Ha]; auto. rewrite <- memt_In, E; discriminate.
Qed.

(** Insertion changes nothing else: the other children keep their order. *)
Theorem insert_before_split x S l :
  exists l1 l2, l = l1 ++ l2 /\ insert_before x S l = l1 ++ x :: l2.
Proof.
  unfold insert_before. destruct (first_found S l) as [s|] eqn:F.
  - destruct (first_found_some _ _ _ F) as (_ & _ & _ & Hs & _).
    destruct (ins_at_split s x l Hs) as (l1 & l2 & -> & _ & ->). exists l1, (s :: l2); auto.
  - exists l, []. rewrite app_nil_r; auto.
Qed.

Section Ordered.
Variable rk : tag -> nat.
Variable mult : nat -> bool.
Variable t : tag.
Variable S : list tag.
Hypothesis D1 : forall s, In s S -> rk t <= rk s.
Hypothesis D3 : forall S1 si S2 sj S3, S = S1 ++ si :: S2 ++ sj :: S3 -> si <> sj -> rk t < rk sj ->
   rk si < rk sj \/ (rk si = rk sj /\ mult (rk si) = false).

Theorem insert_ordered_gen l :
  ord rk l ->
  (forall u, In u l -> rk t < rk u -> In u S) ->
  (forall a b, In a l -> In b l -> a <> b -> rk a = rk b -> mult (rk a) = true) ->
  ord rk (insert_before t S l).
Proof.
  intros Ho D2 Amo. unfold insert_before. destruct (first_found S l) as [s|] eqn:F.
  - destruct (first_found_some _ _ _ F) as (S1 & S2 & ES & Hs & Hno).
    destruct (ins_at_split s t l Hs) as (l1 & l2 & El & Hni & ->).
    subst l. apply ord_app in Ho as (Ho1 & Ho2 & Ho12). simpl in Ho2. destruct Ho2 as [Hs2 Ho2].
    apply ord_app. split; [auto|]. split.
    + simpl. split; [|split; auto].
      intros b [<-|Hb]; [apply D1; rewrite ES; apply in_or_app; simpl; auto|].
      assert (rk t <= rk s) by (apply D1; rewrite ES; apply in_or_app; simpl; auto).
      specialize (Hs2 b Hb). lia.
    + intros a b Ha Hb.
      assert (Hat : rk a <= rk t).
      { destruct (le_lt_dec (rk a) (rk t)) as [|Hlt]; auto. exfalso.
        assert (Hal : In a (l1 ++ s :: l2)) by (apply in_or_app; auto).
        pose proof (D2 a Hal Hlt) as HaS. rewrite ES in HaS.
        apply in_app_or in HaS as [HaS|HaS]; [exact (Hno a HaS Hal)|].
        destruct HaS as [E|HaS]; [subst a; exact (Hni Ha)|].
        apply in_split in HaS as (S2a & S3 & ->).
        assert (Hne : s <> a) by (intros ->; auto).
        destruct (D3 S1 s S2a a S3 ES Hne Hlt) as [Hl|[He Hm]].
        * specialize (Ho12 a s Ha (or_introl eq_refl)). lia.
        * assert (mult (rk s) = true); [|congruence].
          apply (Amo s a); auto; apply in_or_app; simpl; auto. }
      assert (Hts : rk t <= rk s) by (apply D1; rewrite ES; apply in_or_app; simpl; auto).
      destruct Hb as [<-|[<-|Hb]]; auto; [lia|]. specialize (Hs2 b Hb). lia.
  - apply ord_app. split; auto. split; [simpl; tauto|].
    intros a b Ha [<-|[]]. destruct (le_lt_dec (rk a) (rk t)) as [|Hlt]; auto. exfalso.
    exact (first_found_none _ _ F a (D2 a Ha Hlt) Ha).
Qed.
End Ordered.

(** ---- reflection: decl_ok implies D1, D2, D3 ---- *)

Lemma filter_nil_forall {A} (p : A -> bool) l : filter p l = [] -> forall x, In x l -> p x = false.
Proof.
  induction l as [|a l IH]; simpl; [tauto|]. destruct (p a) eqn:E; [discriminate|].
  intros H x [<-|Hx]; auto.
Qed.

Lemma known_all_tags f u : known f u = true <-> In u (all_tags f).
Proof.
  unfold known, all_tags. rewrite existsb_exists, in_flat_map. split.
  - intros [g [Hg Hm]]. exists g; split; auto. apply memt_In; auto.
  - intros [g [Hg Hm]]. exists g; split; auto. apply memt_In; auto.
Qed.

Lemma known_cons g b f u : known ((g, b) :: f) u = memt u g || known f u.
Proof. reflexivity. Qed.
Lemma rank_cons g b f u : rank ((g, b) :: f) u = if memt u g then 0 else S (rank f u).
Proof. reflexivity. Qed.

Lemma known_rank_lt f u : known f u = true -> rank f u < length f.
Proof.
  induction f as [|[g b] f IH]; [discriminate|].
  rewrite known_cons, rank_cons. cbn [length]. destruct (memt u g); cbn [orb]; [lia|].
  intros H; apply IH in H; lia.
Qed.
Lemma unknown_rank f u : known f u = false -> rank f u = length f.
Proof.
  induction f as [|[g b] f IH]; [reflexivity|].
  rewrite known_cons, rank_cons. cbn [length]. destruct (memt u g); cbn [orb]; [discriminate|].
  intros H; f_equal; apply IH; auto.
Qed.

Lemma d3_bad_nil f t S : d3_bad f t S = [] ->
  forall S1 si S2 sj S3, S = S1 ++ si :: S2 ++ sj :: S3 -> si <> sj ->
  rank f t < rank f sj ->
  rank f si < rank f sj \/ (rank f si = rank f sj /\ multi f (rank f si) = false).
Proof.
  revert S. fix IH 1. intros S H S1.
  destruct S1 as [|a S1]; intros si S2 sj S3 ES Hne Hlt.
  - simpl in ES. subst S. simpl in H. apply app_eq_nil in H as [H _].
    apply map_eq_nil in H.
    assert (Hin : In sj (S2 ++ sj :: S3)) by (apply in_or_app; simpl; auto).
    pose proof (filter_nil_forall _ _ H sj Hin) as Hf. cbv beta in Hf.
    destruct (N.eqb_spec si sj) as [|_]; [contradiction|].
    destruct (Nat.ltb_spec (rank f t) (rank f sj)) as [_|]; [|lia]. simpl in Hf.
    apply negb_false_iff in Hf. apply orb_true_iff in Hf as [Hf|Hf].
    + apply Nat.ltb_lt in Hf; auto.
    + apply andb_true_iff in Hf as [H1 H2]. apply Nat.eqb_eq in H1.
      apply negb_true_iff in H2. auto.
  - destruct S as [|a' S']; [discriminate|]. simpl in ES. injection ES as -> ES.
    simpl in H. apply app_eq_nil in H as [_ H].
    exact (IH S' H S1 si S2 sj S3 ES Hne Hlt).
Qed.

Lemma first_found_filter (p : tag -> bool) S l : (forall u, In u l -> p u = true) ->
  first_found (filter p S) l = first_found S l.
Proof.
  intros Hp. induction S as [|s S IH]; simpl; auto.
  destruct (p s) eqn:E; simpl.
  - rewrite IH; auto.
  - destruct (memt s l) eqn:M; auto. apply memt_In in M. rewrite (Hp s M) in E; discriminate.
Qed.

(** The decision procedure is sound: a declaration accepted by [decl_ok] places the
    child in rank order in EVERY rank-sorted context made of known tags in which two
    different tags of one rank coexist only in multi groups. *)
Theorem decl_ok_sound f t S : decl_ok f t S = true ->
  forall l, (forall u, In u l -> known f u = true) -> ord (rank f) l ->
  (forall a b, In a l -> In b l -> a <> b -> rank f a = rank f b -> multi f (rank f a) = true) ->
  ord (rank f) (insert_before t S l).
Proof.
  unfold decl_ok. intros H l Hk Ho Amo.
  apply andb_true_iff in H as [H H3]. apply andb_true_iff in H as [Kt Hdis].
  destruct (d1_bad f t (known_succ f S)) eqn:E1; [|discriminate].
  destruct (d2_bad f t (known_succ f S)) eqn:E2; [|discriminate].
  destruct (d3_bad f t (known_succ f S)) eqn:E3; [|discriminate]. clear H3.
  assert (EI : insert_before t S l = insert_before t (known_succ f S) l).
  { unfold insert_before, known_succ. rewrite first_found_filter; auto. }
  rewrite EI.
  apply (insert_ordered_gen (rank f) (multi f) t (known_succ f S)).
  - intros s Hs.
    pose proof (filter_nil_forall _ _ E1 s Hs) as Hf. cbv beta in Hf.
    apply Nat.ltb_ge in Hf; auto.
  - intros S1 si S2 sj S3 ES Hne Hlt. eapply d3_bad_nil; eauto.
  - exact Ho.
  - intros u Hu Hlt.
    pose proof (Hk u Hu) as Ku. apply known_all_tags in Ku.
    pose proof (filter_nil_forall _ _ E2 u Ku) as Hf. cbv beta in Hf.
    destruct (Nat.ltb_spec (rank f t) (rank f u)) as [_|]; [|lia]. simpl in Hf.
    apply negb_false_iff in Hf. apply memt_In; auto.
  - exact Amo.
Qed.

(** ---- get_or_add / remove / change_to (no schema needed) ---- *)

Lemma count_insert_before x S l u :
  count_occ N.eq_dec (insert_before x S l) u =
  count_occ N.eq_dec l u + (if N.eq_dec x u then 1 else 0).
Proof.
  destruct (insert_before_split x S l) as (l1 & l2 & -> & ->).
  rewrite !count_occ_app. simpl. destruct (N.eq_dec x u); lia.
Qed.

Theorem get_or_add_at_most_one x S l :
  (memt x l = true -> get_or_add x S l = l) /\
  (memt x l = false -> count_occ N.eq_dec (get_or_add x S l) x = 1 /\
     forall u, u <> x -> count_occ N.eq_dec (get_or_add x S l) u = count_occ N.eq_dec l u).
Proof.
  unfold get_or_add. split; intros H; rewrite H; auto. split.
  - rewrite count_insert_before. apply memt_nIn in H.
    rewrite (proj1 (count_occ_not_In N.eq_dec l x) H). destruct (N.eq_dec x x); [reflexivity|congruence].
  - intros u Hu. rewrite count_insert_before. destruct (N.eq_dec x u); [congruence|lia].
Qed.

Theorem remove_all_none_left ts l :
  (forall u, In u ts -> ~ In u (remove_all ts l)) /\
  filter (fun c => negb (memt c ts)) (remove_all ts l) = filter (fun c => negb (memt c ts)) l /\
  (forall u, ~ In u ts -> count_occ N.eq_dec (remove_all ts l) u = count_occ N.eq_dec l u).
Proof.
  unfold remove_all. split; [|split].
  - intros u Hu Hin. apply filter_In in Hin as [_ Hf]. apply memt_In in Hu. rewrite Hu in Hf; discriminate.
  - induction l as [|c l IH]; simpl; auto. destruct (negb (memt c ts)) eqn:E; simpl; rewrite ?E, IH; auto.
  - intros u Hu. induction l as [|c l IH]; simpl; auto.
    destruct (memt c ts) eqn:E; simpl.
    + destruct (N.eq_dec c u) as [->|]; auto. apply memt_In in E; contradiction.
    + destruct (N.eq_dec c u); rewrite IH; auto.
Qed.

Theorem change_to_exactly_one x members S l : In x members -> memt x l = false ->
  filter (fun c => memt c members) (get_or_change_to x members S l) = [x] /\
  filter (fun c => negb (memt c members)) (get_or_change_to x members S l)
  = filter (fun c => negb (memt c members)) l.
Proof.
  intros Hx Hm. unfold get_or_change_to. rewrite Hm.
  destruct (insert_before_split x S (remove_all members l)) as (l1 & l2 & E & ->).
  assert (Hx' : memt x members = true) by (apply memt_In; auto).
  assert (Hnone : forall u, In u (l1 ++ l2) -> memt u members = false).
  { intros u Hu. rewrite <- E in Hu. unfold remove_all in Hu. apply filter_In in Hu as [_ Hf].
    apply negb_true_iff in Hf; auto. }
  assert (F1 : forall l0, (forall u, In u l0 -> memt u members = false) ->
             filter (fun c => memt c members) l0 = [] /\
             filter (fun c => negb (memt c members)) l0 = l0).
  { induction l0 as [|c l0 IH]; simpl; auto. intros H.
    rewrite (H c (or_introl eq_refl)). simpl. destruct IH as [I1 I2]; [intros; apply H; simpl; auto|].
    rewrite I1, I2; auto. }
  destruct (F1 l1) as [A1 A2]; [intros; apply Hnone; apply in_or_app; auto|].
  destruct (F1 l2) as [B1 B2]; [intros; apply Hnone; apply in_or_app; auto|].
  split.
  - rewrite filter_app. simpl. rewrite Hx', A1, B1. auto.
  - rewrite filter_app. simpl. rewrite Hx'. simpl. rewrite <- filter_app, <- E.
    apply (proj1 (proj2 (remove_all_none_left members l))).
Qed.

Theorem change_to_present_unchanged x members S l : memt x l = true ->
  get_or_change_to x members S l = l.
Proof. intros H; unfold get_or_change_to; rewrite H; auto. Qed.

(** Converse of the decision procedure for D1: a rejected declaration has a concrete
    sorted context on which the insertion lands out of order. *)
Theorem d1_witness f t S s : In s (d1_bad f t (known_succ f S)) ->
  first_found S [s] = Some s -> ~ ord (rank f) (insert_before t S [s]).
Proof.
  intros Hin Hff. unfold insert_before. rewrite Hff. simpl. rewrite N.eqb_refl. simpl.
  apply filter_In in Hin as [_ Hlt]. apply Nat.ltb_lt in Hlt.
  intros [H _]. specialize (H s (or_introl eq_refl)). lia.
Qed.
