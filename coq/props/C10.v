(** C10 -- a child is inserted where the schema allows it, whatever siblings exist.
    Generic theorems (no data) + instance over the declarations and content models
    regenerated from /repo on this run (gen/GenC10.v). *)
From V.lib Require Import Prelude.
From V.model Require Import Schema Xmlchemy.
From V.proofs Require Import Schema_proofs Xmlchemy_proofs C10_proofs C10_instance.
From V.gen Require Import GenC10.

(** every schema-accepted child sequence is sorted by the computed ranks *)
Theorem C10_schema_words_rank_sorted : forall c w,
  disjoint_groups (flatten c) = true -> lang c w -> ord (rank (flatten c)) w.
Proof. exact lang_sorted. Qed.
Print Assumptions C10_schema_words_rank_sorted.

(** the decision procedure is sound for every schema-accepted sibling context *)
Theorem C10_decl_ok_sound : forall c t S, decl_ok (flatten c) t S = true ->
  forall w, lang c w ->
  ord (rank (flatten c)) (insert_before t S w)
  /\ exists w1 w2, w = w1 ++ w2 /\ insert_before t S w = w1 ++ t :: w2
     /\ (forall u, In u w1 -> rank (flatten c) u <= rank (flatten c) t)
     /\ (forall u, In u w2 -> rank (flatten c) t <= rank (flatten c) u).
Proof. exact insert_schema_ordered. Qed.
Print Assumptions C10_decl_ok_sound.

Theorem C10_insert_first_sound : forall c t, first_ok (flatten c) t = true ->
  forall w, lang c w ->
  ord (rank (flatten c)) (t :: w) /\ (forall u, In u w -> rank (flatten c) t <= rank (flatten c) u).
Proof. exact insert_first_ordered. Qed.
Print Assumptions C10_insert_first_sound.

(** nothing the translator met was left unmodelled *)
Theorem C10_no_unmodelled : n_unmodelled = 0.
Proof. exact no_unmodelled. Qed.
Print Assumptions C10_no_unmodelled.

(** INSTANCE: every declared child of every registered element class, against every
    XSD type its tags can have, in every schema-accepted sibling context *)
Theorem C10_all_declared : forall ck, In ck checks -> memN (ck_id ck) known_failing = false ->
  forall w, lang (ck_cm ck) w ->
  ord (rank (flatten (ck_cm ck))) (ck_apply ck w)
  /\ exists w1 w2, w = w1 ++ w2 /\ ck_apply ck w = w1 ++ ck_child ck :: w2
     /\ (forall u, In u w1 -> rank (flatten (ck_cm ck)) u <= rank (flatten (ck_cm ck)) (ck_child ck))
     /\ (forall u, In u w2 -> rank (flatten (ck_cm ck)) (ck_child ck) <= rank (flatten (ck_cm ck)) u).
Proof. exact all_declared. Qed.
Print Assumptions C10_all_declared.

(** recorded findings are real: each known-failing declaration has a rank-sorted
    context on which the insertion lands out of order *)
Theorem C10_known_failing_refuted : forall ck, In ck checks -> memN (ck_id ck) known_failing = true ->
  let f := flatten (ck_cm ck) in
  let w := ck_witness ck in
  ordb (rank f) w = true /\ ordb (rank f) (ck_apply ck w) = false.
Proof. exact known_failing_refuted. Qed.
Print Assumptions C10_known_failing_refuted.

Theorem C10_get_or_add_at_most_one : forall x S l,
  (memt x l = true -> get_or_add x S l = l) /\
  (memt x l = false -> count_occ N.eq_dec (get_or_add x S l) x = 1 /\
     forall u, u <> x -> count_occ N.eq_dec (get_or_add x S l) u = count_occ N.eq_dec l u).
Proof. exact get_or_add_at_most_one. Qed.
Print Assumptions C10_get_or_add_at_most_one.

Theorem C10_remove_all_none_left : forall ts l,
  (forall u, In u ts -> ~ In u (remove_all ts l)) /\
  filter (fun c => negb (memt c ts)) (remove_all ts l) = filter (fun c => negb (memt c ts)) l /\
  (forall u, ~ In u ts -> count_occ N.eq_dec (remove_all ts l) u = count_occ N.eq_dec l u).
Proof. exact remove_all_none_left. Qed.
Print Assumptions C10_remove_all_none_left.

Theorem C10_change_to_exactly_one : forall x members S l, In x members -> memt x l = false ->
  filter (fun c => memt c members) (get_or_change_to x members S l) = [x] /\
  filter (fun c => negb (memt c members)) (get_or_change_to x members S l)
  = filter (fun c => negb (memt c members)) l.
Proof. exact change_to_exactly_one. Qed.
Print Assumptions C10_change_to_exactly_one.

Theorem C10_insert_changes_nothing_else : forall x S l,
  exists l1 l2, l = l1 ++ l2 /\ insert_before x S l = l1 ++ x :: l2.
Proof. exact insert_before_split. Qed.
Print Assumptions C10_insert_changes_nothing_else.

(** non-vacuity: a content model with a repeatable mixed group, a valid word, and
    a declaration accepted / rejected by the procedure *)
Example C10_nonvacuous :
  let c := Seq [Rep 0 (Some 1) (Elt 1%N); Rep 0 None (Alt [Elt 2%N; Elt 3%N; Elt 4%N]); Rep 0 (Some 1) (Elt 5%N)] in
  decl_ok (flatten c) 1%N [2; 3; 4; 5]%N = false /\
  decl_ok (flatten c) 5%N [] = true /\
  insert_before 1%N [2; 3; 4; 5]%N [3; 2]%N = [3; 1; 2]%N.
Proof. vm_compute. auto. Qed.
