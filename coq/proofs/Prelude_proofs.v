(** Generic list / string lemmas about the definitions of lib/Prelude.v. *)
From V.lib Require Import Prelude.

(** [s] does not contain the code point [c]. *)
Definition nfree (c : N) (s : str) : bool := forallb (fun x => negb (N.eqb x c)) s.

Lemma forallb_rev {A} (f : A -> bool) l : forallb f (rev l) = forallb f l.
Proof.
  induction l as [|x l IH]; simpl; auto.
  rewrite forallb_app, IH; simpl. rewrite andb_true_r. apply andb_comm.
Qed.

Lemma forallb_true_iff {A} (f : A -> bool) l :
  forallb f l = true <-> Forall (fun x => f x = true) l.
Proof.
  induction l as [|x l IH]; simpl.
  - split; auto.
  - rewrite andb_true_iff, IH. split.
    + intros [H1 H2]; constructor; auto.
    + intros H; inversion H; auto.
Qed.

Lemma take_while_all {A} (f : A -> bool) l : forallb f l = true -> take_while f l = l.
Proof.
  induction l as [|x l IH]; simpl; auto. intros H.
  apply andb_true_iff in H as [H1 H2]. rewrite H1, IH; auto.
Qed.

Lemma drop_while_all {A} (f : A -> bool) l : forallb f l = true -> drop_while f l = [].
Proof.
  induction l as [|x l IH]; simpl; auto. intros H.
  apply andb_true_iff in H as [H1 H2]. rewrite H1, IH; auto.
Qed.

Lemma take_while_app_stop {A} (f : A -> bool) l x r :
  forallb f l = true -> f x = false -> take_while f (l ++ x :: r) = l.
Proof.
  induction l as [|y l IH]; simpl; intros H Hx.
  - rewrite Hx; reflexivity.
  - apply andb_true_iff in H as [H1 H2]. rewrite H1, IH; auto.
Qed.

Lemma drop_while_app_stop {A} (f : A -> bool) l x r :
  forallb f l = true -> f x = false -> drop_while f (l ++ x :: r) = x :: r.
Proof.
  induction l as [|y l IH]; simpl; intros H Hx.
  - rewrite Hx; reflexivity.
  - apply andb_true_iff in H as [H1 H2]. rewrite H1, IH; auto.
Qed.

Lemma take_while_nil_hd {A} (f : A -> bool) l :
  match l with [] => true | x :: _ => negb (f x) end = true -> take_while f l = [].
Proof.
  destruct l as [|x l]; simpl; auto. intros H. apply negb_true_iff in H. rewrite H; auto.
Qed.

(** take_while over a block satisfying [f] followed by something whose head fails *)
Lemma take_while_app_hd {A} (f : A -> bool) l r :
  forallb f l = true ->
  match r with [] => true | x :: _ => negb (f x) end = true ->
  take_while f (l ++ r) = l.
Proof.
  intros Hl Hr. destruct r as [|x r].
  - rewrite app_nil_r. apply take_while_all; auto.
  - apply take_while_app_stop; auto. apply negb_true_iff; auto.
Qed.

Lemma drop_while_app_hd {A} (f : A -> bool) l r :
  forallb f l = true ->
  match r with [] => true | x :: _ => negb (f x) end = true ->
  drop_while f (l ++ r) = r.
Proof.
  intros Hl Hr. destruct r as [|x r].
  - rewrite app_nil_r. apply drop_while_all; auto.
  - apply drop_while_app_stop; auto. apply negb_true_iff; auto.
Qed.

(** ---- split_on / join_with ---- *)

Lemma split_on_nonnil c s : split_on c s <> [].
Proof.
  induction s as [|x s IH]; simpl; try discriminate.
  destruct (N.eqb x c); try discriminate.
  destruct (split_on c s); discriminate.
Qed.

Lemma split_on_free c s : nfree c s = true -> split_on c s = [s].
Proof.
  induction s as [|x s IH]; simpl; intros H; auto.
  apply andb_true_iff in H as [H1 H2]. apply negb_true_iff in H1.
  rewrite H1, (IH H2). reflexivity.
Qed.

Lemma split_on_app c a b :
  nfree c a = true -> split_on c (a ++ c :: b) = a :: split_on c b.
Proof.
  induction a as [|x a IH]; simpl; intros H.
  - rewrite N.eqb_refl; reflexivity.
  - apply andb_true_iff in H as [H1 H2]. apply negb_true_iff in H1.
    rewrite H1, (IH H2). reflexivity.
Qed.

Lemma join_with_cons sep p ps :
  ps <> [] -> join_with sep (p :: ps) = p ++ sep ++ join_with sep ps.
Proof. destruct ps; [congruence | reflexivity]. Qed.

Lemma join_with_app sep A B : A <> [] -> B <> [] ->
  join_with sep (A ++ B) = join_with sep A ++ sep ++ join_with sep B.
Proof.
  induction A as [|a A IH]; intros HA HB; [congruence|].
  destruct A as [|a' A'].
  - change ([a] ++ B) with (a :: B). rewrite join_with_cons by auto. reflexivity.
  - change ((a :: a' :: A') ++ B) with (a :: ((a' :: A') ++ B)).
    rewrite join_with_cons by (simpl; discriminate).
    rewrite IH by (auto; discriminate).
    rewrite (join_with_cons sep a (a' :: A')) by discriminate.
    rewrite <- !app_assoc. reflexivity.
Qed.

Lemma join_with_snoc sep d f : d <> [] ->
  join_with sep (d ++ [f]) = join_with sep d ++ sep ++ f.
Proof. intros H. rewrite join_with_app by (auto; discriminate). reflexivity. Qed.

Lemma join_with_hd sep x s ps : exists r, join_with sep ((x :: s) :: ps) = x :: r.
Proof. destruct ps; simpl; eauto. Qed.

Lemma split_join c segs :
  segs <> [] -> Forall (fun s => nfree c s = true) segs ->
  split_on c (join_with [c] segs) = segs.
Proof.
  induction segs as [|s segs IH]; intros Hne HF; [congruence|].
  inversion HF as [|? ? Hs HF']; subst.
  destruct segs as [|t segs'].
  - simpl. apply split_on_free; auto.
  - change (join_with [c] (s :: t :: segs')) with (s ++ c :: join_with [c] (t :: segs')).
    rewrite split_on_app by auto. rewrite IH; auto. discriminate.
Qed.

Lemma join_split c s : join_with [c] (split_on c s) = s.
Proof.
  induction s as [|x s IH]; simpl; auto.
  destruct (N.eqb_spec x c) as [->|Hn].
  - rewrite join_with_cons by apply split_on_nonnil. rewrite IH. reflexivity.
  - destruct (split_on c s) as [|p ps] eqn:E.
    + exfalso; eapply split_on_nonnil; eauto.
    + rewrite <- IH. destruct ps; reflexivity.
Qed.

Lemma split_on_nfree c s : Forall (fun p => nfree c p = true) (split_on c s).
Proof.
  induction s as [|x s IH]; simpl.
  - constructor; auto.
  - destruct (N.eqb x c) eqn:E.
    + constructor; auto.
    + destruct (split_on c s) as [|p ps]; [constructor; simpl; auto; rewrite E; auto|].
      inversion IH; subst. constructor; auto. simpl. rewrite E. simpl. auto.
Qed.

(** shape of split_on when the first piece is empty / non-empty *)
Lemma split_on_hd_nil c s rest :
  split_on c s = [] :: rest -> rest <> [] -> exists s', s = c :: s' /\ split_on c s' = rest.
Proof.
  destruct s as [|x s]; simpl.
  - intros H; inversion H; congruence.
  - destruct (N.eqb_spec x c) as [->|Hn].
    + intros H _; inversion H; eauto.
    + destruct (split_on c s); discriminate.
Qed.

(** ---- last character ---- *)

Lemma rev_cons_exists {A} (l : list A) : l <> [] -> exists r y, l = r ++ [y].
Proof.
  intros H. destruct (exists_last H) as [r [y E]]. eauto.
Qed.
