(** Proofs about model/PkgOps.v (C02). *)
From V.lib Require Import Prelude.
From V.model Require Import PackUri PkgOps.
From V.model Require Ids Opc.
From V.proofs Require Prelude_proofs PackUri_proofs Ids_proofs Opc_proofs.
From Coq Require Import Permutation.

(* ------------------------------------------------------------------------------ *)
(** * Reachability: iter_pids computes the parts the relationship graph reaches *)

Definition wfg (s : state) : Prop :=
  (forall q, In q (int_targets (st_prels s)) -> q < length (st_parts s)) /\
  (forall p x q, getp s p = Some x -> In q (int_targets (pt_rels x)) -> q < length (st_parts s)).

Inductive reachP (s : state) : nat -> Prop :=
| rp0 q : In q (int_targets (st_prels s)) -> reachP s q
| rp1 p q x : reachP s p -> getp s p = Some x -> In q (int_targets (pt_rels x)) -> reachP s q.

Lemma key_inj a b : key a = key b -> a = b.
Proof. unfold key. intros H. inversion H. lia. Qed.

Lemma unkey_key a : unkey (key a) = a.
Proof. unfold unkey, key. lia. Qed.

Definition okk (s : state) (k : str) : Prop := exists p, p < length (st_parts s) /\ k = key p.

Lemma gsucc_key s p : gsucc (st_parts s) (key p) =
  match getp s p with Some x => map key (int_targets (pt_rels x)) | None => [] end.
Proof. unfold gsucc, key, getp. rewrite Nat2N.id. reflexivity. Qed.

Lemma okk_closed s : wfg s -> forall x y, okk s x -> In y (gsucc (st_parts s) x) -> okk s y.
Proof.
  intros [_ Hw] x y (p & Hp & ->) Hy. rewrite gsucc_key in Hy.
  destruct (getp s p) as [px|] eqn:E; [|destruct Hy].
  apply in_map_iff in Hy as (q & <- & Hq). exists q. split; auto. eapply Hw; eauto.
Qed.

Lemma okk_U s x : okk s x -> In x (map key (seq 0 (length (st_parts s)))).
Proof. intros (p & Hp & ->). apply in_map. apply in_seq. lia. Qed.

Lemma reach_keys s : wfg s -> forall y x, okk s y -> Opc.reach (gsucc (st_parts s)) y x -> okk s x.
Proof. intros Hw y x Hy Hr. induction Hr; auto. eapply okk_closed; eauto. Qed.

Lemma reachP_of_key s : forall q p, In q (int_targets (st_prels s)) ->
  Opc.reach (gsucc (st_parts s)) (key q) (key p) -> reachP s p.
Proof.
  intros q p Hq Hr. remember (key p) as kp eqn:Ekp. revert p Ekp.
  induction Hr as [|x y Hr IH Hy]; intros p Ekp.
  - apply key_inj in Ekp. subst. constructor; auto.
  - subst y. (* x is a key *)
    assert (Hx : exists px, x = key px).
    { clear IH Hy. remember (key q) as kq. induction Hr.
      - eauto.
      - destruct IHHr as (pz & ->); auto. rewrite gsucc_key in H.
        destruct (getp s pz); [|destruct H]. apply in_map_iff in H as (w & <- & _). eauto. }
    destruct Hx as (px & ->). specialize (IH px eq_refl).
    rewrite gsucc_key in Hy. destruct (getp s px) as [xx|] eqn:E; [|destruct Hy].
    apply in_map_iff in Hy as (w & Hw & Hin). apply key_inj in Hw. subst w.
    eapply rp1; eauto.
Qed.

Lemma key_of_reachP s p : reachP s p ->
  exists q, In q (int_targets (st_prels s)) /\ Opc.reach (gsucc (st_parts s)) (key q) (key p).
Proof.
  induction 1 as [q Hq|p q x Hp IH Hx Hq].
  - exists q. split; auto. apply Opc.r0.
  - destruct IH as (r & Hr & Hreach). exists r. split; auto.
    eapply Opc.r1; eauto. rewrite gsucc_key, Hx. apply in_map; auto.
Qed.

Lemma iter_pids_spec s : wfg s ->
  (forall p, In p (iter_pids s) <-> reachP s p) /\ NoDup (iter_pids s) /\
  (forall p, In p (iter_pids s) -> p < length (st_parts s)).
Proof.
  intros Hw. unfold iter_pids.
  set (g := gsucc (st_parts s)). set (ys := map key (int_targets (st_prels s))).
  assert (Hys : forall y, In y ys -> okk s y).
  { intros y Hy. apply in_map_iff in Hy as (q & <- & Hq). exists q. split; auto. apply (proj1 Hw); auto. }
  destruct (Opc_proofs.walk_reach g (okk s) (map key (seq 0 (length (st_parts s))))
              (okk_closed s Hw) (okk_U s) ys (S (length (st_parts s))) Hys) as [Hiff Hnd].
  { rewrite map_length, seq_length. lia. }
  assert (Hall : forall k, In k (Opc.walk g (S (S (length (st_parts s)))) [] ys) -> okk s k).
  { intros k Hk. apply Hiff in Hk as (y & Hy & Hr). eapply reach_keys; eauto. }
  split; [|split].
  - intros p. rewrite in_map_iff. split.
    + intros (k & <- & Hk). apply in_rev in Hk. destruct (Hall k Hk) as (q & Hq & ->).
      rewrite unkey_key. apply Hiff in Hk as (y & Hy & Hr).
      apply in_map_iff in Hy as (r & <- & Hrin). eapply reachP_of_key; eauto.
    + intros Hp. exists (key p). split; [apply unkey_key|]. apply -> in_rev.
      apply Hiff. destruct (key_of_reachP s p Hp) as (q & Hq & Hr).
      exists (key q). split; auto. apply in_map; auto.
  - assert (Hnd' : NoDup (rev (Opc.walk g (S (S (length (st_parts s)))) [] ys))).
    { apply NoDup_rev. exact Hnd. }
    revert Hnd'. assert (Hall' : forall k, In k (rev (Opc.walk g (S (S (length (st_parts s)))) [] ys)) -> okk s k).
    { intros k Hk. apply Hall. apply in_rev. exact Hk. }
    revert Hall'. generalize (rev (Opc.walk g (S (S (length (st_parts s)))) [] ys)).
    induction l as [|a l IH]; intros Hok Hn; simpl; constructor.
    + inversion Hn; subst. intros Hin. apply in_map_iff in Hin as (b & Hb & Hbin).
      destruct (Hok a (or_introl eq_refl)) as (pa & _ & ->).
      destruct (Hok b (or_intror Hbin)) as (pb & _ & ->).
      rewrite !unkey_key in Hb. subst. auto.
    + inversion Hn; subst. apply IH; auto. intros k Hk. apply Hok. right; auto.
  - intros p Hp. apply in_map_iff in Hp as (k & <- & Hk). apply in_rev in Hk.
    destruct (Hall k Hk) as (q & Hq & ->). rewrite unkey_key. exact Hq.
Qed.

(* ------------------------------------------------------------------------------ *)
(** * Small facts *)

Lemma NoDup_nodupb l : NoDup l -> Opc.nodupb l = true.
Proof.
  induction 1 as [|x l Hx Hnd IH]; simpl; auto.
  rewrite IH, andb_true_r. apply negb_true_iff. apply Opc_proofs.mem_str_nIn. exact Hx.
Qed.

Lemma getp_lt s p x : getp s p = Some x -> p < length (st_parts s).
Proof. unfold getp. intros H. apply nth_error_Some. congruence. Qed.

Lemma getp_some s p : p < length (st_parts s) -> exists x, getp s p = Some x.
Proof. unfold getp. intros H. destruct (nth_error (st_parts s) p) eqn:E; eauto. apply nth_error_None in E. lia. Qed.

Lemma name_of_getp s p x : getp s p = Some x -> name_of (st_parts s) p = pt_name x.
Proof. unfold getp, name_of. intros ->. reflexivity. Qed.

Lemma inv_wfg T s : Inv T s -> wfg s.
Proof.
  intros I. split; [apply (iv_ptgts T s I)|].
  intros p x q Hx Hq. exact (gp_tgts _ _ (iv_parts T s I p x Hx) q Hq).
Qed.

Lemma find_rel_In rid rs r : find_rel rid rs = Some r -> In r rs /\ rr_id r = rid.
Proof.
  induction rs as [|a rs IH]; simpl; [discriminate|].
  destruct (str_eqb_spec (rr_id a) rid) as [E|E].
  - intros [= <-]. auto.
  - intros H. destruct (IH H). auto.
Qed.

Lemma find_rel_None rid rs : find_rel rid rs = None <-> ~ In rid (map rr_id rs).
Proof.
  induction rs as [|a rs IH]; simpl; [tauto|].
  destruct (str_eqb_spec (rr_id a) rid) as [E|E]; [split; [discriminate|tauto]|].
  rewrite IH. tauto.
Qed.

Lemma find_rel_NoDup rs r : NoDup (map rr_id rs) -> In r rs -> find_rel (rr_id r) rs = Some r.
Proof.
  induction rs as [|a rs IH]; simpl; [tauto|]. intros Hnd [->|Hin].
  - rewrite str_eqb_refl. reflexivity.
  - inversion Hnd; subst. destruct (str_eqb_spec (rr_id a) (rr_id r)) as [E|E]; [|auto].
    exfalso. apply H1. rewrite E. apply in_map. exact Hin.
Qed.

Lemma int_targets_In q rs : In q (int_targets rs) <-> exists r, In r rs /\ rr_tgt r = TInt q.
Proof.
  unfold int_targets. rewrite in_flat_map. split.
  - intros (r & Hr & Hq). exists r. split; auto. destruct (rr_tgt r); simpl in Hq; [destruct Hq as [->|[]]; auto|destruct Hq].
  - intros (r & Hr & E). exists r. split; auto. rewrite E. simpl; auto.
Qed.

(** the parts save writes are the reached ones, each once *)
Definition memf (s : state) (p : nat) : pmember :=
  match getp s p with
  | Some x => mkMem (pt_name x) p (out_rels (st_parts s) (pt_base x) (pt_rels x))
  | None => mkMem [] p []
  end.

Lemma filter_all_true {A} (f : A -> bool) l : (forall x, In x l -> f x = true) -> filter f l = l.
Proof. induction l as [|a l IH]; simpl; auto. intros H. rewrite H by auto. f_equal. apply IH. auto. Qed.

Lemma save_members T s : wfg s -> ph_members (save_phys T s) = map (memf s) (iter_pids s).
Proof.
  intros Hw. destruct (iter_pids_spec s Hw) as (_ & _ & Hlt). unfold save_phys. cbn [ph_members].
  rewrite filter_all_true.
  - revert Hlt. generalize (iter_pids s). induction l as [|p l IH]; intros Hlt; simpl; auto.
    destruct (getp_some s p (Hlt p (or_introl eq_refl))) as (x & Hx).
    unfold memf at 1. rewrite Hx. simpl. f_equal. apply IH. intros; apply Hlt; simpl; auto.
  - intros p Hp. destruct (getp_some s p (Hlt p Hp)) as (x & ->). reflexivity.
Qed.

Lemma save_plist T s : wfg s ->
  ph_cts (save_phys T s) =
  Opc.content_types_item (tenv T)
    (map (fun p => Opc.mkPart (name_of (st_parts s) p)
                              (match getp s p with Some x => pt_ct x | None => [] end) tt []) (iter_pids s)).
Proof.
  intros Hw. destruct (iter_pids_spec s Hw) as (_ & _ & Hlt). unfold save_phys. cbn [ph_cts].
  f_equal. rewrite filter_all_true.
  - revert Hlt. generalize (iter_pids s). induction l as [|p l IH]; intros Hlt; simpl; auto.
    destruct (getp_some s p (Hlt p (or_introl eq_refl))) as (x & Hx).
    rewrite Hx, (name_of_getp s p x Hx). simpl. f_equal. apply IH. intros; apply Hlt; simpl; auto.
  - intros p Hp. destruct (getp_some s p (Hlt p Hp)) as (x & ->). reflexivity.
Qed.

Lemma memf_name s p : pm_name (memf s p) = name_of (st_parts s) p.
Proof. unfold memf, name_of, getp. destruct (nth_error (st_parts s) p); reflexivity. Qed.

Lemma memf_pid s p : pm_pid (memf s p) = p.
Proof. unfold memf. destruct (getp s p); reflexivity. Qed.

(** the writer's content types item offers every part it was computed from exactly the
    content type of that part (generic form of the C01 argument, exact-case Override lookup) *)
Lemma cti_resolve {blob} (E : Opc.env blob) (L : list (Opc.part blob)) :
  Opc.env_ok E -> NoDup (map Opc.p_name L) -> Opc_proofs.clashfree E L ->
  NoDup (map fst (fst (Opc.content_types_item E L))) /\
  NoDup (map fst (snd (Opc.content_types_item E L))) /\
  forall pt, In pt L -> ct_resolve (Opc.content_types_item E L) (Opc.p_name pt) = Ok (Opc.p_ct pt).
Proof.
  intros [Hi1 Hi2] Hnd Hcf. unfold Opc.content_types_item, Opc.defaults_and_overrides.
  destruct (fold_left (Opc.cti_step E) L (Opc.initdefs E, [])) as [D O] eqn:EDO.
  assert (HO : O = map (fun pt => (Opc.p_name pt, Opc.p_ct pt)) (filter (fun pt => negb (Opc_proofs.intab E pt)) L)).
  { change O with (snd (D, O)). rewrite <- EDO. rewrite Opc_proofs.cti_overrides; auto. }
  assert (HD : D = fst (fold_left (Opc.cti_step E) L (Opc.initdefs E, []))) by (rewrite EDO; auto).
  destruct (Opc_proofs.cti_defaults_keys E L (Opc.initdefs E) []) as [HDnd HDlow]; auto.
  { intros k0 Hk. apply in_map_iff in Hk as (kv & <- & Hkv). auto. }
  rewrite <- HD in HDnd, HDlow.
  assert (HOnd : NoDup (map fst O)).
  { rewrite HO, map_map. simpl. clear - Hnd. induction L as [|a l IH]; simpl; [constructor|].
    simpl in Hnd. inversion Hnd; subst. destruct (negb (Opc_proofs.intab E a)); simpl; auto. constructor; auto.
    intros Hin. apply H1. apply in_map_iff in Hin as (pt & He & Hpt). apply filter_In in Hpt as [Hpt _].
    rewrite <- He. apply in_map; auto. }
  cbn [fst snd]. split; [|split].
  - eapply Permutation_NoDup; [apply Permutation_map, Permutation_sym, Opc_proofs.sort_by_perm|auto].
  - eapply Permutation_NoDup; [apply Permutation_map, Permutation_sym, Opc_proofs.sort_by_perm|auto].
  - intros pt Hpt. unfold ct_resolve. cbn [fst snd].
    rewrite Opc_proofs.lookup_sort by auto.
    destruct (Opc_proofs.intab E pt) eqn:Eq.
    + assert (HnO : Opc.lookup (Opc.p_name pt) O = None).
      { apply Opc_proofs.lookup_None. intros Hin. rewrite HO, map_map in Hin. simpl in Hin.
        apply in_map_iff in Hin as (pt' & He & Hpt'). apply filter_In in Hpt' as [Hpt' Hni].
        assert (pt' = pt).
        { clear - Hnd Hpt Hpt' He. induction L as [|a l IH]; [destruct Hpt|]. simpl in Hnd. inversion Hnd; subst.
          destruct Hpt as [->|Hpt], Hpt' as [->|Hpt']; auto.
          - exfalso. apply H1. rewrite <- He. apply in_map; auto.
          - exfalso. apply H1. rewrite He. apply in_map; auto. }
        subst pt'. rewrite Eq in Hni. discriminate. }
      rewrite HnO. rewrite Opc_proofs.lookup_sort by auto.
      change (Opc.lower (ext (Opc.p_name pt))) with (Opc_proofs.pext pt).
      destruct (Opc_proofs.cti_defaults_key E L (Opc.initdefs E) [] _ Hpt Eq) as (v & Hv).
      rewrite <- HD in Hv. rewrite Hv.
      rewrite HD in Hv. apply Opc_proofs.cti_defaults_val in Hv as [(pt' & Hpt' & Hi & He & Hct)|[_ Hno]].
      * rewrite <- Hct. f_equal. apply Hcf; auto.
      * exfalso. apply (Hno _ Hpt Eq). reflexivity.
    + rewrite (Opc_proofs.lookup_NoDup_In (Opc.p_name pt) (Opc.p_ct pt)); auto.
      rewrite HO. apply in_map_iff. exists pt. split; auto.
      apply filter_In. split; auto. rewrite Eq. reflexivity.
Qed.

(* ------------------------------------------------------------------------------ *)
(** * Closed, clause by clause *)

Section SaveClosed.
Variable T : tables.
Variable s : state.
Hypothesis HI : Inv T s.
Hypothesis HT : tables_ok T.

Let Hw : wfg s := inv_wfg T s HI.

Lemma iter_good p : In p (iter_pids s) -> exists x, getp s p = Some x /\ good_part (length (st_parts s)) x.
Proof.
  intros Hp. destruct (iter_pids_spec s Hw) as (_ & _ & Hlt).
  destruct (getp_some s p (Hlt p Hp)) as (x & Hx). exists x. split; auto. exact (iv_parts T s HI p x Hx).
Qed.

Lemma iter_part_name p : In p (iter_pids s) -> Opc.part_name (name_of (st_parts s) p).
Proof. intros Hp. destruct (iter_good p Hp) as (x & Hx & G). rewrite (name_of_getp s p x Hx). apply (gp_name _ _ G). Qed.

(** ** member names are unique *)
Lemma closed_names : c_names (save_phys T s) = true.
Proof.
  unfold c_names. apply NoDup_nodupb. unfold member_names. rewrite save_members by exact Hw.
  pose proof (iv_names T s HI) as Hnd. unfold iter_names in Hnd.
  pose proof iter_part_name as Hpn.
  set (L := iter_pids s) in *.
  set (f := fun m : pmember => pm_name m :: rels_member (pm_name m) (pm_rels m)).
  assert (Hf : forall p z, In p L -> In z (f (memf s p)) ->
                z = name_of (st_parts s) p \/ z = Opc.rels_item_name (name_of (st_parts s) p)).
  { intros p z Hp Hz. unfold f in Hz. rewrite memf_name in Hz. destruct Hz as [<-|Hz]; auto.
    unfold rels_member in Hz. destruct (pm_rels (memf s p)); [destruct Hz|]. destruct Hz as [<-|[]]. auto. }
  assert (Hnot_ct : forall z, In z (flat_map f (map (memf s) L)) -> z <> Opc.ct_uri).
  { intros z Hz. apply in_flat_map in Hz as (m & Hm & Hz). apply in_map_iff in Hm as (p & <- & Hp).
    destruct (Hf p z Hp Hz) as [->| ->].
    - apply Opc_proofs.part_name_ne_ct. auto.
    - intros E. apply Opc_proofs.ct_uri_not_shaped. rewrite <- E. apply Opc_proofs.rels_item_shaped. auto. }
  assert (Hnot_root : forall z, In z (flat_map f (map (memf s) L)) -> z <> Opc.rels_item_name Opc.root).
  { intros z Hz. apply in_flat_map in Hz as (m & Hm & Hz). apply in_map_iff in Hm as (p & <- & Hp).
    destruct (Hf p z Hp Hz) as [->| ->].
    - intros E. apply (Opc_proofs.part_name_not_shaped _ (Hpn p Hp)). rewrite E. apply Opc_proofs.rels_item_root_shaped.
    - apply Opc_proofs.rels_item_not_root. auto. }
  constructor.
  - intros [E|Hin].
    + revert E. vm_compute. discriminate.
    + apply (Hnot_ct _ Hin). reflexivity.
  - constructor.
    + intros Hin. apply (Hnot_root _ Hin). reflexivity.
    + apply Opc_proofs.NoDup_flat_map.
      * apply FinFun.Injective_map_NoDup.
        -- intros a b E. apply (f_equal pm_pid) in E. rewrite !memf_pid in E. exact E.
        -- destruct (iter_pids_spec s Hw) as (_ & H & _). exact H.
      * intros m Hm. apply in_map_iff in Hm as (p & <- & Hp). unfold f. rewrite memf_name.
        unfold rels_member. destruct (pm_rels (memf s p)); [repeat constructor; auto|].
        constructor; [|repeat constructor; auto]. intros [E|[]].
        apply (Opc_proofs.part_name_not_shaped _ (Hpn p Hp)). rewrite <- E.
        apply Opc_proofs.rels_item_shaped. auto.
      * intros m1 m2 z Hm1 Hm2 Hne Hz1 Hz2.
        apply in_map_iff in Hm1 as (p1 & <- & Hp1). apply in_map_iff in Hm2 as (p2 & <- & Hp2).
        assert (Hpne : p1 <> p2) by (intros ->; apply Hne; reflexivity).
        assert (Hnn : name_of (st_parts s) p1 <> name_of (st_parts s) p2).
        { intros E. apply Hpne. clear - Hnd Hp1 Hp2 E. induction L as [|a L IH]; [destruct Hp1|].
          simpl in Hnd. inversion Hnd; subst.
          destruct Hp1 as [->|Hp1], Hp2 as [->|Hp2]; auto.
          - exfalso. apply H1. rewrite E. apply in_map. auto.
          - exfalso. apply H1. rewrite <- E. apply in_map. auto. }
        destruct (Hf p1 z Hp1 Hz1) as [E1|E1], (Hf p2 z Hp2 Hz2) as [E2|E2]; subst z.
        -- apply Hnn; auto.
        -- apply (Opc_proofs.part_name_not_shaped _ (Hpn p1 Hp1)). rewrite E2. apply Opc_proofs.rels_item_shaped. auto.
        -- apply (Opc_proofs.part_name_not_shaped _ (Hpn p2 Hp2)). rewrite <- E2. apply Opc_proofs.rels_item_shaped. auto.
        -- apply Hnn. apply Opc_proofs.rels_item_inj; auto.
Qed.


(** ** every part has exactly one resolvable content type, the one it was created or loaded with *)
Lemma closed_types : c_types s (save_phys T s) = true.
Proof.
  unfold c_types. rewrite save_plist by exact Hw. rewrite save_members by exact Hw.
  set (PL := map (fun p => Opc.mkPart (name_of (st_parts s) p)
                    (match getp s p with Some x => pt_ct x | None => [] end) tt []) (iter_pids s)).
  assert (Hn : map Opc.p_name PL = iter_names s).
  { unfold PL, iter_names. rewrite map_map. reflexivity. }
  destruct (cti_resolve (tenv T) PL) as (H1 & H2 & H3).
  - apply (tk_env T HT).
  - rewrite Hn. apply (iv_names T s HI).
  - intros a b Ha Hb Hia Hib He. unfold PL in Ha, Hb.
    apply in_map_iff in Ha as (p & <- & Hp). apply in_map_iff in Hb as (q & <- & Hq).
    destruct (iter_good p Hp) as (x & Hx & _). destruct (iter_good q Hq) as (y & Hy & _).
    unfold Opc_proofs.intab, Opc_proofs.pext in *. cbn [Opc.p_name Opc.p_ct Opc.deftbl tenv] in *.
    rewrite Hx in *. rewrite Hy in *. rewrite (name_of_getp s p x Hx) in *. rewrite (name_of_getp s q y Hy) in *.
    apply (iv_clash T s HI p q x y); unfold reach_part; auto.
  - rewrite (NoDup_nodupb _ H1), (NoDup_nodupb _ H2). cbn [andb].
    apply forallb_forall. intros m Hm. apply in_map_iff in Hm as (p & <- & Hp).
    rewrite memf_pid, memf_name. destruct (iter_good p Hp) as (x & Hx & _). rewrite Hx.
    specialize (H3 (Opc.mkPart (name_of (st_parts s) p) (pt_ct x) tt [])). cbn [Opc.p_name Opc.p_ct] in H3.
    rewrite H3; [apply str_eqb_refl|].
    unfold PL. apply in_map_iff. exists p. rewrite Hx. auto.
Qed.

Lemma part_name_nonnil t : Opc.part_name t -> t <> [].
Proof. intros (P & _ & _ & -> & _). unfold render. discriminate. Qed.

Lemma from_rel_ref_roundtrip src t : (src = Opc.root \/ Opc.part_name src) -> Opc.part_name t ->
  from_rel_ref (baseURI src) (Opc.rel_ref t (baseURI src)) = Ok t.
Proof.
  intros Hs Ht. pose proof (Opc_proofs.resolve_rel_ref src t Hs Ht) as H. unfold Opc.resolve in H.
  destruct (from_rel_ref (baseURI src) (Opc.rel_ref t (baseURI src))) as [t'|e]; [congruence|].
  exfalso. apply (part_name_nonnil t Ht). auto.
Qed.

Lemma find_member_iter p : In p (iter_pids s) ->
  find_member (save_phys T s) (name_of (st_parts s) p) = Some (memf s p).
Proof.
  intros Hp. unfold find_member. rewrite save_members by exact Hw.
  pose proof (iv_names T s HI) as Hnd. unfold iter_names in Hnd.
  revert Hp Hnd. generalize (iter_pids s). induction l as [|a l IH]; intros Hp Hnd; [destruct Hp|].
  simpl. rewrite memf_name. simpl in Hnd. inversion Hnd; subst.
  destruct (str_eqb_spec (name_of (st_parts s) a) (name_of (st_parts s) p)) as [E|E].
  - destruct Hp as [->|Hp]; auto. exfalso. apply H1. rewrite E. apply in_map; auto.
  - destruct Hp as [->|Hp]; [congruence|]. apply IH; auto.
Qed.

(** one written relationship of a source whose in-memory relationships are [rs] *)
Lemma target_ok_out src base rs r :
  (src = Opc.root \/ Opc.part_name src) -> base = baseURI src ->
  NoDup (map rr_id rs) -> (forall r', In r' rs -> rr_ref r' = None) ->
  (forall q, In q (int_targets rs) -> In q (iter_pids s)) ->
  In r rs -> target_ok (save_phys T s) src rs (out_rel (st_parts s) base r) = true.
Proof.
  intros Hsrc -> Hnd Hnc Hcl Hr. unfold target_ok, out_rel.
  destruct (rr_tgt r) as [q|u] eqn:Et; cbn [Opc.r_mode Opc.r_target Opc.r_id]; auto.
  rewrite (Hnc r Hr).
  assert (Hq : In q (iter_pids s)) by (apply Hcl; apply int_targets_In; eauto).
  rewrite from_rel_ref_roundtrip; auto; [|apply iter_part_name; auto].
  rewrite (find_member_iter q Hq). rewrite (find_rel_NoDup rs r Hnd Hr). rewrite Et.
  rewrite memf_pid. apply Nat.eqb_refl.
Qed.

Lemma forallb_out_rels src base rs :
  (src = Opc.root \/ Opc.part_name src) -> base = baseURI src ->
  NoDup (map rr_id rs) -> (forall r', In r' rs -> rr_ref r' = None) ->
  (forall q, In q (int_targets rs) -> In q (iter_pids s)) ->
  forallb (target_ok (save_phys T s) src rs) (out_rels (st_parts s) base rs) = true.
Proof.
  intros H1 H2 H3 H4 H5. apply forallb_forall. intros o Ho. unfold out_rels in Ho.
  apply in_map_iff in Ho as (r & <- & Hr).
  apply (Permutation_in r (Opc_proofs.sort_by_perm _ rs)) in Hr.
  apply target_ok_out; auto.
Qed.

Lemma iter_closed p x q : In p (iter_pids s) -> getp s p = Some x -> In q (int_targets (pt_rels x)) ->
  In q (iter_pids s).
Proof.
  intros Hp Hx Hq. destruct (iter_pids_spec s Hw) as (Hiff & _). apply Hiff. apply Hiff in Hp.
  eapply rp1; eauto.
Qed.

Lemma iter_roots q : In q (int_targets (st_prels s)) -> In q (iter_pids s).
Proof. intros Hq. destruct (iter_pids_spec s Hw) as (Hiff & _). apply Hiff. constructor. exact Hq. Qed.

(** ** every internal Target names a member, the one holding the part the relationship points to *)
Lemma closed_targets : c_targets s (save_phys T s) = true.
Proof.
  unfold c_targets. apply andb_true_iff. split.
  - unfold save_phys at 2. cbn [ph_prels]. apply forallb_out_rels; auto.
    + apply (iv_pkeys T s HI).
    + apply (iv_pnocache T s HI).
    + apply iter_roots.
  - rewrite save_members by exact Hw. apply forallb_forall. intros m Hm.
    apply in_map_iff in Hm as (p & <- & Hp). rewrite memf_pid.
    destruct (iter_good p Hp) as (x & Hx & G). rewrite Hx. unfold memf. rewrite Hx. cbn [pm_name pm_rels].
    apply forallb_out_rels.
    + right. apply (gp_name _ _ G).
    + apply (gp_base _ _ G).
    + apply (gp_keys _ _ G).
    + apply (gp_nocache _ _ G).
    + intros q Hq. eapply iter_closed; eauto.
Qed.

Lemma out_rels_ids base rs : Permutation (map Opc.r_id (out_rels (st_parts s) base rs)) (map rr_id rs).
Proof.
  unfold out_rels. rewrite map_map.
  assert (E : forall l, map (fun r => Opc.r_id (out_rel (st_parts s) base r)) l = map rr_id l).
  { intros l. apply map_ext. intros r. unfold out_rel. destruct (rr_tgt r); reflexivity. }
  rewrite E. apply Permutation_map. apply Opc_proofs.sort_by_perm.
Qed.

(** ** every relationship id used in a part's XML is defined by its rels item *)
Lemma closed_refs : c_refs s (save_phys T s) = true.
Proof.
  unfold c_refs. rewrite save_members by exact Hw. apply forallb_forall. intros m Hm.
  apply in_map_iff in Hm as (p & <- & Hp). rewrite memf_pid.
  destruct (iter_good p Hp) as (x & Hx & G). rewrite Hx. unfold memf. rewrite Hx. cbn [pm_rels].
  apply forallb_forall. intros kr Hkr. apply mem_str_In.
  eapply Permutation_in; [apply Permutation_sym, out_rels_ids|]. apply (gp_refs _ _ G). exact Hkr.
Qed.

Lemma Permutation_filter' {A} (f : A -> bool) l l' : Permutation l l' -> Permutation (filter f l) (filter f l').
Proof.
  induction 1; simpl; auto.
  - destruct (f x); auto.
  - destruct (f x), (f y); auto. apply perm_swap.
  - eapply perm_trans; eauto.
Qed.

(** ** the officeDocument relationship leads to the presentation part *)
Lemma closed_main : c_main s (save_phys T s) = true.
Proof.
  unfold c_main. destruct (iv_main T s HI) as (r & Hf & Ht).
  unfold save_phys at 1. cbn [ph_prels]. unfold out_rels.
  set (srt := Opc.sort_by (fun a b => Opc.rid_leb (rr_id a) (rr_id b)) (st_prels s)).
  assert (Hfs : filter (fun r0 => str_eqb (rr_type r0) rt_office_document) srt = [r]).
  { assert (HP : Permutation (filter (fun r0 => str_eqb (rr_type r0) rt_office_document) srt) [r]).
    { rewrite <- Hf. apply Permutation_filter'. apply Opc_proofs.sort_by_perm. }
    apply Permutation_sym, Permutation_length_1_inv in HP. exact HP. }
  assert (Hfm : filter (fun o => str_eqb (Opc.r_type o) rt_office_document) (map (out_rel (st_parts s) s_slash) srt)
                = [out_rel (st_parts s) s_slash r]).
  { change [out_rel (st_parts s) s_slash r] with (map (out_rel (st_parts s) s_slash) [r]). rewrite <- Hfs.
    clear. induction srt as [|a l IH]; simpl; auto.
    assert (E : Opc.r_type (out_rel (st_parts s) s_slash a) = rr_type a) by (unfold out_rel; destruct (rr_tgt a); reflexivity).
    rewrite E. destruct (str_eqb (rr_type a) rt_office_document); simpl; rewrite IH; reflexivity. }
  rewrite Hfm.
  assert (Hr : In r (st_prels s)).
  { assert (In r [r]) by (simpl; auto). rewrite <- Hf in H. apply filter_In in H. tauto. }
  unfold out_rel. rewrite Ht. rewrite (iv_pnocache T s HI r Hr). cbn [Opc.r_mode Opc.r_target].
  assert (Hp : In (st_pres s) (iter_pids s)) by (apply iter_roots; apply int_targets_In; eauto).
  change s_slash with (baseURI Opc.root).
  rewrite from_rel_ref_roundtrip; auto; [|apply iter_part_name; auto].
  rewrite (find_member_iter _ Hp). rewrite memf_pid. apply Nat.eqb_refl.
Qed.

Theorem save_closed_aux : Closed s (save_phys T s).
Proof.
  unfold Closed, closedb. rewrite closed_names, closed_types, closed_targets, closed_refs, closed_main. reflexivity.
Qed.

End SaveClosed.

(** Inv gives Closed for the package save writes (the code as it is: no target cache) *)
Theorem save_closed T s : tables_ok T -> Inv T s ->
  snd (step false T s Save) = Saved (save_phys T s) /\ fst (step false T s Save) = s /\
  Closed s (save_phys T s).
Proof.
  intros HT HI. split; [reflexivity|]. split; [reflexivity|]. apply save_closed_aux; auto.
Qed.

(* ------------------------------------------------------------------------------ *)
(** * The decidable forms are sound *)

Lemma memn_In n l : memn n l = true <-> In n l.
Proof.
  unfold memn. rewrite existsb_exists. split.
  - intros (x & Hx & E). apply Nat.eqb_eq in E. subst. auto.
  - intros H. exists n. split; auto. apply Nat.eqb_refl.
Qed.

Lemma nodupn_NoDup l : nodupn l = true -> NoDup l.
Proof.
  induction l as [|a l IH]; simpl; [constructor|]. intros H. apply andb_true_iff in H as [H1 H2].
  constructor; auto. intros Hin. apply memn_In in Hin. rewrite Hin in H1. discriminate.
Qed.

Lemma resolve_all_F2 rs rids tg : resolve_all rs rids = Some tg ->
  Forall2 (fun rid q => related_part rid rs = Ok q) rids tg.
Proof.
  revert tg. induction rids as [|r l IH]; simpl; intros tg H.
  - inversion H. constructor.
  - destruct (related_part r rs) as [q|] eqn:E; [|discriminate].
    destruct (resolve_all rs l) as [t|]; [|discriminate]. inversion H; subst. constructor; auto.
Qed.

Lemma names_from_spec parts tg : forall i, names_from parts i tg = true ->
  forall j q, nth_error tg j = Some q -> name_of parts q = Ids.slide_name (i + N.of_nat j)%N.
Proof.
  induction tg as [|a t IH]; intros i H j q Hj; [destruct j; discriminate|].
  simpl in H. apply andb_true_iff in H as [H1 H2]. destruct j as [|j]; simpl in Hj.
  - inversion Hj; subst. apply str_eqb_eq in H1. rewrite H1. f_equal. lia.
  - rewrite (IH _ H2 j q Hj). f_equal. lia.
Qed.

Lemma good_partb_sound n x : good_partb n x = true -> good_part n x.
Proof.
  unfold good_partb. intros H.
  apply andb_true_iff in H as [H H10]. apply andb_true_iff in H as [H H9].
  apply andb_true_iff in H as [H H8]. apply andb_true_iff in H as [H H7].
  apply andb_true_iff in H as [H H6]. apply andb_true_iff in H as [H H5].
  apply andb_true_iff in H as [H H4]. apply andb_true_iff in H as [H H3].
  apply andb_true_iff in H as [H1 H2].
  constructor.
  - apply Opc_proofs.part_nameb_sound. exact H1.
  - apply str_eqb_eq. exact H2.
  - intros q Hq. rewrite forallb_forall in H3. apply Nat.ltb_lt. apply H3. exact Hq.
  - apply Opc_proofs.nodupb_NoDup. exact H4.
  - intros r Hr. rewrite forallb_forall in H5. specialize (H5 r Hr). destruct (rr_ref r); [discriminate|reflexivity].
  - intros kr Hkr. rewrite forallb_forall in H6. apply mem_str_In. apply H6. exact Hkr.
  - intros k r x' Hin Hk Hf. rewrite forallb_forall in H7. specialize (H7 (k, r) Hin). cbn [fst snd] in H7.
    apply orb_true_iff in H7 as [H7|H7].
    + apply str_eqb_eq in H7. contradiction.
    + rewrite Hf in H7. apply negb_true_iff in H7. intros Hc. apply mem_str_In in Hc. congruence.
  - intros r Hr. rewrite forallb_forall in H8. specialize (H8 r Hr).
    destruct (find_rel r (pt_rels x)) as [x'|]; [|discriminate]. exists x'. split; auto. apply mem_str_In. exact H8.
  - intros Hc. apply orb_true_iff in H9 as [H9|H9].
    + apply negb_true_iff, orb_false_iff in H9 as [Ha Hb].
      destruct Hc as [Hc|Hc]; rewrite Hc, str_eqb_refl in *; discriminate.
    + destruct (pt_idl x); [reflexivity|discriminate].
  - intros Hc. apply orb_true_iff in H10 as [H10|H10].
    + rewrite Hc, str_eqb_refl in H10. discriminate.
    + apply andb_true_iff in H10 as [Ha Hb]. split; [apply Opc_proofs.nodupb_NoDup; exact Ha|].
      intros kr Hkr Hin. rewrite forallb_forall in Hb. specialize (Hb kr Hkr).
      apply negb_true_iff in Hb. apply mem_str_In in Hin. congruence.
Qed.

Lemma reach_iter_parts s p x : reach_part s p x -> In x (iter_parts s).
Proof.
  intros [Hp Hx]. unfold iter_parts. apply in_flat_map. exists p. split; auto. rewrite Hx. simpl; auto.
Qed.

Lemma has_type_ne t rs : has_type t rs = true -> filter (fun r => str_eqb (rr_type r) t) rs <> [].
Proof. unfold has_type. destruct (filter _ rs); [discriminate|discriminate]. Qed.

Theorem invb_sound T s : invb T s = true -> Inv T s.
Proof.
  unfold invb. intros H.
  apply andb_true_iff in H as [H H11]. apply andb_true_iff in H as [H H10].
  apply andb_true_iff in H as [H H9]. apply andb_true_iff in H as [H H8].
  apply andb_true_iff in H as [H H7]. apply andb_true_iff in H as [H H6].
  apply andb_true_iff in H as [H H5]. apply andb_true_iff in H as [H H4].
  apply andb_true_iff in H as [H H3]. apply andb_true_iff in H as [H1 H2].
  constructor.
  - intros p x Hx. apply good_partb_sound. rewrite forallb_forall in H1. apply H1.
    unfold getp in Hx. eapply nth_error_In; eauto.
  - intros q Hq. rewrite forallb_forall in H2. apply Nat.ltb_lt. auto.
  - apply Opc_proofs.nodupb_NoDup. exact H3.
  - intros r Hr. rewrite forallb_forall in H4. specialize (H4 r Hr). destruct (rr_ref r); [discriminate|reflexivity].
  - apply Opc_proofs.nodupb_NoDup. exact H5.
  - destruct (filter (fun r => str_eqb (rr_type r) rt_office_document) (st_prels s)) as [|r [|]]; try discriminate.
    exists r. split; auto. destruct (rr_tgt r); [|discriminate]. apply Nat.eqb_eq in H6. subst. reflexivity.
  - destruct (getp s (st_pres s)) as [pp|]; [|discriminate]. exists pp. split; auto.
    intros Hc. apply mem_str_In in Hc. rewrite Hc in H7. discriminate.
  - intros p q x y Hx Hy He Hix Hiy. unfold clashb in H8. rewrite forallb_forall in H8.
    specialize (H8 x (reach_iter_parts s p x Hx)). rewrite forallb_forall in H8.
    specialize (H8 y (reach_iter_parts s q y Hy)). unfold intabb in H8.
    rewrite He, str_eqb_refl in H8. rewrite <- He in H8 at 1. rewrite Hix, Hiy in H8. simpl in H8.
    apply str_eqb_eq. exact H8.
  - unfold slidesb in H9. destruct (getp s (st_pres s)) as [pp|] eqn:Epp; [|discriminate].
    destruct (resolve_all (pt_rels pp) (pt_idl pp)) as [tg|] eqn:Etg; [|discriminate].
    apply andb_true_iff in H9 as [H9 Hd]. apply andb_true_iff in H9 as [H9 Hc].
    apply andb_true_iff in H9 as [Ha Hb].
    exists pp, tg. split; auto. split; [apply resolve_all_F2; auto|]. split; [apply nodupn_NoDup; auto|].
    split; [|split].
    + intros q Hq. rewrite forallb_forall in Hb. apply str_eqb_eq. auto.
    + intros p x [Hp Hx] Hdir. rewrite forallb_forall in Hc. specialize (Hc p Hp).
      rewrite (name_of_getp s p x Hx), Hdir, str_eqb_refl in Hc. simpl in Hc. apply memn_In. exact Hc.
    + intros Hs j q Hj. rewrite Hs in Hd. simpl in Hd.
      rewrite (names_from_spec _ _ _ Hd j q Hj). f_equal. lia.
  - intros m mx rid lp lx m' Hm Hct Hrid Hlp Hlx Hm'. unfold masterb in H10. rewrite forallb_forall in H10.
    assert (Hin : In m (seq 0 (length (st_parts s)))) by (apply in_seq; pose proof (getp_lt s m mx Hm); lia).
    specialize (H10 m Hin). rewrite Hm, Hct, str_eqb_refl in H10. simpl in H10.
    rewrite forallb_forall in H10. specialize (H10 rid Hrid). rewrite Hlp, Hlx, Hm' in H10.
    apply Nat.eqb_eq. exact H10.
  - unfold fixedb in H11. destruct (getp s (st_pres s)) as [pp|] eqn:Epp; [|discriminate].
    apply andb_true_iff in H11 as [H11 Hc]. apply andb_true_iff in H11 as [Ha Hb].
    split; [|split].
    + intros pp' Hpp' Hin. rewrite Epp in Hpp'; injection Hpp' as <-. apply mem_str_In in Hin. rewrite Hin in Ha. simpl in Ha.
      apply has_type_ne. exact Ha.
    + intros Hin. apply mem_str_In in Hin. rewrite Hin in Hb. simpl in Hb. apply has_type_ne. exact Hb.
    + intros pp' p Hpp' Hnm. rewrite Epp in Hpp'; injection Hpp' as <-. rewrite Hnm in Hc.
      destruct (part_with_reltype rt_notes_master (pt_rels pp)) as [q|]; [|discriminate].
      apply Nat.eqb_eq in Hc. subst. reflexivity.
Qed.

Lemma in_table_In tbl e c : Opc.in_table tbl e c = true <-> In (e, c) tbl.
Proof.
  unfold Opc.in_table. rewrite existsb_exists. split.
  - intros ([a b] & Hin & H). simpl in H. apply andb_true_iff in H as [H1 H2].
    apply str_eqb_eq in H1, H2. subst. exact Hin.
  - intros H. exists (e, c). split; auto. simpl. rewrite !str_eqb_refl. reflexivity.
Qed.

Theorem tables_okb_sound T : tables_okb T = true -> tables_ok T.
Proof.
  unfold tables_okb. intros H.
  apply andb_true_iff in H as [H H4]. apply andb_true_iff in H as [H H3]. apply andb_true_iff in H as [H1 H2].
  constructor.
  - split; cbn.
    + apply Opc_proofs.nodupb_NoDup. exact H1.
    + intros kv Hkv. rewrite forallb_forall in H2. apply str_eqb_eq. auto.
  - intros e c1 c2 Ha Hb Hne. apply in_table_In in Ha, Hb.
    rewrite forallb_forall in H3. specialize (H3 _ Ha). rewrite forallb_forall in H3. specialize (H3 _ Hb).
    cbn [fst snd] in H3. rewrite str_eqb_refl in H3. simpl in H3.
    apply orb_true_iff in H3 as [H3|H3]; apply str_eqb_eq in H3; [contradiction|exact H3].
  - intros c Hc. rewrite forallb_forall in H4. specialize (H4 c Hc). apply negb_true_iff in H4. exact H4.
Qed.

(* ------------------------------------------------------------------------------ *)
(** * drop_rel: reference counting *)

Lemma pop_rel_spec rid rs rs' : pop_rel rid rs = Ok rs' ->
  In rid (map rr_id rs) /\ rs' = filter (fun r => negb (str_eqb (rr_id r) rid)) rs.
Proof. unfold pop_rel. destruct (mem_str rid (map rr_id rs)) eqn:E; [|discriminate]. intros [= <-]. split; auto. apply mem_str_In; auto. Qed.

(** a relationship is removed only when at most one r:id attribute names it; every other
    relationship, and everything else about the part, stays *)
Theorem drop_rel_spec p rid p' : drop_rel p rid = Ok p' ->
  (2 <= ref_count rid p /\ p' = p) \/
  (ref_count rid p < 2 /\ In rid (map rr_id (pt_rels p)) /\
   p' = with_rels p (filter (fun r => negb (str_eqb (rr_id r) rid)) (pt_rels p))).
Proof.
  unfold drop_rel. destruct (Nat.ltb (ref_count rid p) 2) eqn:E.
  - apply Nat.ltb_lt in E. destruct (pop_rel rid (pt_rels p)) as [rs|] eqn:Ep; cbn [bind]; [|discriminate].
    intros [= <-]. right. apply pop_rel_spec in Ep as [H1 ->]. auto.
  - apply Nat.ltb_ge in E. intros [= <-]. left. auto.
Qed.

Theorem drop_rel_keeps_shared p rid : 2 <= ref_count rid p -> drop_rel p rid = Ok p.
Proof. intros H. unfold drop_rel. apply Nat.ltb_ge in H. rewrite H. reflexivity. Qed.

Theorem drop_rel_err p rid e : drop_rel p rid = Err e ->
  e = KeyErr /\ ref_count rid p < 2 /\ ~ In rid (map rr_id (pt_rels p)).
Proof.
  unfold drop_rel. destruct (Nat.ltb (ref_count rid p) 2) eqn:E; [|discriminate].
  apply Nat.ltb_lt in E. unfold pop_rel. destruct (mem_str rid (map rr_id (pt_rels p))) eqn:Em; cbn [bind]; [discriminate|].
  intros [= <-]. split; auto. split; auto. apply Opc_proofs.mem_str_nIn. exact Em.
Qed.

(** the other relationships are untouched by a drop *)
Lemma drop_rel_others p rid p' r : drop_rel p rid = Ok p' -> In r (pt_rels p) -> rr_id r <> rid -> In r (pt_rels p').
Proof.
  intros H Hr Hne. apply drop_rel_spec in H as [[_ ->]|(_ & _ & ->)]; auto.
  cbn [pt_rels with_rels]. apply filter_In. split; auto. apply negb_true_iff. apply Opc_proofs.str_eqb_neq. exact Hne.
Qed.

(** ** the implicit-relationship edge.  get_or_add hands back an existing relationship of
    the same type and target whether or not anything in the XML refers to it ... *)
Theorem get_or_add_reuses t g rs r : In r rs -> rr_type r = t -> rr_tgt r = g ->
  exists rid, get_or_add t g rs = Ok (rs, rid) /\ In rid (map rr_id rs).
Proof.
  intros Hr Ht Hg. unfold get_or_add, get_matching.
  destruct (find (fun r0 => str_eqb (rr_type r0) t && tgt_eqb (rr_tgt r0) g) rs) as [r0|] eqn:E.
  - exists (rr_id r0). split; auto. apply find_some in E as [Hin _]. apply in_map. exact Hin.
  - exfalso. apply (find_none _ _ E) in Hr. rewrite Ht, Hg, str_eqb_refl in Hr. simpl in Hr.
    destruct g; simpl in Hr; [rewrite Nat.eqb_refl in Hr|rewrite str_eqb_refl in Hr]; discriminate.
Qed.

(** ... and drop_rel counts r:id attributes only: a relationship that existed without any
    reference (count 0) and is then named by one link slot (count 1) is removed with it *)
Theorem drop_rel_implicit p rid : ref_count rid p <= 1 -> In rid (map rr_id (pt_rels p)) ->
  exists p', drop_rel p rid = Ok p' /\ ~ In rid (map rr_id (pt_rels p')).
Proof.
  intros Hc Hin. unfold drop_rel. assert (E : Nat.ltb (ref_count rid p) 2 = true) by (apply Nat.ltb_lt; lia).
  rewrite E. unfold pop_rel. apply mem_str_In in Hin. rewrite Hin. cbn [bind].
  eexists. split; [reflexivity|]. cbn [pt_rels with_rels]. intros H. apply in_map_iff in H as (r & Hr & Hf).
  apply filter_In in Hf as [_ Hf]. rewrite Hr, str_eqb_refl in Hf. discriminate.
Qed.

(* ------------------------------------------------------------------------------ *)
(** * A concrete deck: presentation, master, layout and two slides whose part names are out
      of presentation order (the first listed slide is slide2.xml) *)
Import Coq.Strings.String.StringSyntax.

Definition wT : tables :=
  mkT [(asc "png", asc "image/png")]
      [(asc "rels", asc "application/vnd.openxmlformats-package.relationships+xml"); (asc "xml", asc "application/xml")].

Definition w_ct_pres : str := asc "application/vnd.openxmlformats-officedocument.presentationml.presentation.main+xml".
Definition rid_ (n : N) : str := Ids.rId_name n.

Definition w_part (name ct : str) (idl : list str) (refs : list (str * str)) (phs : nat) (rels : list relr) : part :=
  mkP name (baseURI name) ct 0 idl refs [] phs false rels.

Definition wdeck : state :=
  mkS [ w_part (asc "/ppt/presentation.xml") w_ct_pres [rid_ 2; rid_ 3] [(k_id, rid_ 1)] 0
          [mkR (rid_ 1) rt_slide_master (TInt 1) None; mkR (rid_ 2) rt_slide (TInt 3) None; mkR (rid_ 3) rt_slide (TInt 4) None];
        w_part (asc "/ppt/slideMasters/slideMaster1.xml") ct_slide_master [rid_ 1] [] 0
          [mkR (rid_ 1) rt_slide_layout (TInt 2) None];
        w_part (asc "/ppt/slideLayouts/slideLayout1.xml") ct_slide_layout [] [] 1
          [mkR (rid_ 1) rt_slide_master (TInt 1) None];
        w_part (asc "/ppt/slides/slide2.xml") ct_slide [] [] 0 [mkR (rid_ 1) rt_slide_layout (TInt 2) None];
        w_part (asc "/ppt/slides/slide1.xml") ct_slide [] [] 0 [mkR (rid_ 1) rt_slide_layout (TInt 2) None] ]
      [mkR (rid_ 1) rt_office_document (TInt 0) None] 0 (Some (rid_ 1)) false None None.

Lemma wT_ok : tables_ok wT.
Proof. apply tables_okb_sound. vm_compute. reflexivity. Qed.

Lemma wdeck_inv : Inv wT wdeck.
Proof. apply invb_sound. vm_compute. reflexivity. Qed.

Definition saved_closed (lz : bool) (T : tables) (s : state) : bool :=
  match step lz T s Save with
  | (s1, Saved ph) => closedb s1 ph
  | _ => false
  end.

(** with target_ref as a lazyproperty (the code before 5eaa1dfb): save, first access of
    prs.slides, save -- the second package is not Closed (its Targets are the cached ones);
    with the property computed on each access the same history is Closed at both saves *)
Theorem stale_target_regression :
  exists T s, tables_ok T /\ Inv T s /\
    saved_closed true T s = true /\
    saved_closed true T (run true T s [Save; AccessSlides]) = false /\
    c_targets (fst (step true T (run true T s [Save; AccessSlides]) Save))
              (save_phys T (fst (step true T (run true T s [Save; AccessSlides]) Save))) = false /\
    saved_closed false T (run false T s [Save; AccessSlides]) = true.
Proof.
  exists wT, wdeck. split; [exact wT_ok|]. split; [exact wdeck_inv|]. vm_compute. repeat split.
Qed.

(** the notes slide of slide [i]: relationship of type slide from the notes-slide part *)
Definition notes_slide_rels (s : state) (i : nat) : list relr :=
  match getp s (st_pres s) with
  | Some pp =>
      match nth_error (pt_idl pp) i with
      | Some rid =>
          match related_part rid (pt_rels pp) with
          | Ok sp => match getp s sp with
                     | Some x => match part_with_reltype rt_notes_slide (pt_rels x) with
                                 | Ok np => match getp s np with
                                            | Some nx => filter (fun r => str_eqb (rr_type r) rt_slide) (pt_rels nx)
                                            | None => []
                                            end
                                 | Err _ => []
                                 end
                     | None => []
                     end
          | Err _ => []
          end
      | None => []
      end
  | None => []
  end.

(** the implicit relationship notes slide -> slide is reused by a slide jump from the notes
    placeholder to that slide and goes away when the jump is cleared; the package stays
    Closed and the invariant holds, but the notes slide no longer names its slide *)
Theorem implicit_rel_witness :
  exists T s, tables_ok T /\ Inv T s /\
    let s1 := run false T s [AccessNotes 0] in
    let s2 := run false T s [AccessNotes 0; SetNotesJump 0 0] in
    let s3 := run false T s [AccessNotes 0; SetNotesJump 0 0; ClearNotesJump 0] in
    length (notes_slide_rels s1 0) = 1 /\
    notes_slide_rels s2 0 = notes_slide_rels s1 0 /\      (* no second relationship: the implicit one is reused *)
    notes_slide_rels s3 0 = [] /\
    invb T s3 = true /\ saved_closed false T s3 = true.
Proof.
  exists wT, wdeck. split; [exact wT_ok|]. split; [exact wdeck_inv|]. vm_compute. repeat split.
Qed.

(** a jump to another slide goes through a relationship of its own and leaves the implicit one alone *)
Example implicit_rel_other_slide :
  let s3 := run false wT wdeck [AccessNotes 0; SetNotesJump 0 1; ClearNotesJump 0] in
  length (notes_slide_rels s3 0) = 1.
Proof. vm_compute. reflexivity. Qed.

(** add_movie refused because of its poster frame image keeps the media part and both of its
    relationships; nothing in the slide refers to them; the invariant still holds *)
Theorem refused_movie_witness :
  exists T s v, tables_ok T /\ Inv T s /\ blob_ok T v /\
    snd (step false T s (AddMovie 0 v PBad)) = Refused ValueErr /\
    length (st_parts (fst (step false T s (AddMovie 0 v PBad)))) = S (length (st_parts s)) /\
    invb T (fst (step false T s (AddMovie 0 v PBad))) = true.
Proof.
  exists wT, wdeck, (mkB 20 (asc "vid") (asc "video/unknown")).
  split; [exact wT_ok|]. split; [exact wdeck_inv|]. split.
  - unfold blob_ok. split; [vm_compute; reflexivity|]. split; [vm_compute; reflexivity|].
    intros H. vm_compute in H. repeat (destruct H as [H|H]; [discriminate|]). exact H.
  - vm_compute. repeat split.
Qed.

(* ------------------------------------------------------------------------------ *)
(** * Frame facts: how the reached set and the reach-dependent clauses of Inv move *)

Lemma getp_setp_same s p x : p < length (st_parts s) -> getp (setp s p x) p = Some x.
Proof. intros H. unfold getp, setp. cbn. apply Ids_proofs.set_nth_same. exact H. Qed.

Lemma getp_setp_other s p x q : p <> q -> getp (setp s p x) q = getp s q.
Proof. intros H. unfold getp, setp. cbn. apply Ids_proofs.set_nth_other. exact H. Qed.

Lemma length_setp s p x : length (st_parts (setp s p x)) = length (st_parts s).
Proof. unfold setp. cbn. apply Ids_proofs.set_nth_length. Qed.

Lemma getp_app_old s x q : q < length (st_parts s) -> getp (with_parts s (st_parts s ++ [x])) q = getp s q.
Proof. intros H. unfold getp. cbn. apply nth_error_app1. exact H. Qed.

Lemma getp_app_new s x : getp (with_parts s (st_parts s ++ [x])) (length (st_parts s)) = Some x.
Proof. unfold getp. cbn. rewrite nth_error_app2 by lia. rewrite Nat.sub_diag. reflexivity. Qed.

Lemma good_part_mono n n' x : n <= n' -> good_part n x -> good_part n' x.
Proof.
  intros Hle [H1 H2 H3 H4 H5 H6 H7 H8 H9 H10]. constructor; auto. intros q Hq. specialize (H3 q Hq). lia.
Qed.

Lemma reachP_dec s : wfg s -> forall p, reachP s p \/ ~ reachP s p.
Proof.
  intros Hw p. destruct (iter_pids_spec s Hw) as (Hiff & _).
  destruct (in_dec Nat.eq_dec p (iter_pids s)) as [H|H]; [left|right]; rewrite <- Hiff; auto.
Qed.

(** every edge of [s'] from a node that is reached in [s] or lies in [N] leads to such a node *)
Lemma reach_frame s s' (N : nat -> Prop) :
  (forall q, In q (int_targets (st_prels s')) -> reachP s q \/ N q) ->
  (forall p x' q, getp s' p = Some x' -> In q (int_targets (pt_rels x')) ->
                  (reachP s p \/ N p) -> reachP s q \/ N q) ->
  forall p, reachP s' p -> reachP s p \/ N p.
Proof. intros H1 H2 p Hp. induction Hp; eauto. Qed.

Lemma NoDup_map_pairwise {A B} (f : A -> B) l :
  NoDup l -> (forall a b, In a l -> In b l -> a <> b -> f a <> f b) -> NoDup (map f l).
Proof.
  induction 1 as [|x l Hx Hnd IH]; intros Hp; simpl; constructor.
  - intros Hin. apply in_map_iff in Hin as (y & Hy & Hyl). apply (Hp y x); simpl; auto. intros ->. auto.
  - apply IH. intros a b Ha Hb. apply Hp; simpl; auto.
Qed.

Lemma NoDup_map_inj_on {A B} (f : A -> B) l a b :
  NoDup (map f l) -> In a l -> In b l -> f a = f b -> a = b.
Proof.
  induction l as [|x l IH]; simpl; [tauto|]. intros Hnd Ha Hb E. inversion Hnd; subst.
  destruct Ha as [->|Ha], Hb as [->|Hb]; auto.
  - exfalso. apply H1. rewrite E. apply in_map. auto.
  - exfalso. apply H1. rewrite <- E. apply in_map. auto.
Qed.

Lemma reach_part_iff s : wfg s -> forall p x, reach_part s p x <-> (reachP s p /\ getp s p = Some x).
Proof. intros Hw p x. unfold reach_part. destruct (iter_pids_spec s Hw) as (Hiff & _). rewrite Hiff. tauto. Qed.

Lemma in_iter_names s : wfg s -> forall n, In n (iter_names s) <-> exists p x, reach_part s p x /\ pt_name x = n.
Proof.
  intros Hw n. unfold iter_names. rewrite in_map_iff. destruct (iter_pids_spec s Hw) as (_ & _ & Hlt). split.
  - intros (p & <- & Hp). destruct (getp_some s p (Hlt p Hp)) as (x & Hx). exists p, x.
    split; [split; auto|]. symmetry. apply name_of_getp. exact Hx.
  - intros (p & x & [Hp Hx] & <-). exists p. split; auto. apply name_of_getp. exact Hx.
Qed.

(** what a part that becomes reached must satisfy *)
Record new_ok (T : tables) (s : state) (x : part) : Prop := mkNew {
  nw_fresh : ~ In (pt_name x) (iter_names s);
  nw_bin : Opc.in_table (t_def T) s_bin (pt_ct x) = false
}.

(** the reach-dependent clauses of Inv carry over to a state [s'] whose reached parts are
    reached parts of [s], unchanged in name and content type, or members of the list [N] *)
Section Transfer.
Variable T : tables.
Variables s s' : state.
Variable N : list nat.
Hypothesis HT : tables_ok T.
Hypothesis HI : Inv T s.
Hypothesis Hw' : wfg s'.
Hypothesis Hreach : forall p, reachP s' p -> reachP s p \/ In p N.
Hypothesis Hold : forall p x x', reachP s p -> getp s p = Some x -> getp s' p = Some x' ->
                                 pt_name x' = pt_name x /\ pt_ct x' = pt_ct x.
Hypothesis HN : forall n x', In n N -> ~ reachP s n -> getp s' n = Some x' -> new_ok T s x'.
Hypothesis HNd : forall n m x y, In n N -> In m N -> n <> m -> ~ reachP s n -> ~ reachP s m ->
                                 getp s' n = Some x -> getp s' m = Some y -> pt_name x <> pt_name y.

Let Hw : wfg s := inv_wfg T s HI.

Lemma tr_old p x' : reachP s' p -> reachP s p -> getp s' p = Some x' ->
  exists x, getp s p = Some x /\ pt_name x' = pt_name x /\ pt_ct x' = pt_ct x.
Proof.
  intros _ Hp Hx'. destruct (iter_pids_spec s Hw) as (Hiff & _ & Hlt).
  destruct (getp_some s p (Hlt p (proj2 (Hiff p) Hp))) as (x & Hx). exists x. split; auto. eapply Hold; eauto.
Qed.

Lemma tr_names : NoDup (iter_names s').
Proof.
  destruct (iter_pids_spec s' Hw') as (Hiff' & Hnd' & Hlt'). destruct (iter_pids_spec s Hw) as (Hiff & _ & _).
  unfold iter_names. apply NoDup_map_pairwise; auto.
  intros a b Ha Hb Hab E. apply Hiff' in Ha, Hb.
  destruct (getp_some s' a (Hlt' a (proj2 (Hiff' a) Ha))) as (xa & Hxa).
  destruct (getp_some s' b (Hlt' b (proj2 (Hiff' b) Hb))) as (xb & Hxb).
  rewrite (name_of_getp s' a xa Hxa), (name_of_getp s' b xb Hxb) in E.
  assert (Hfresh : forall n m xn xm, reachP s' n -> reachP s' m -> reachP s m -> ~ reachP s n -> getp s' n = Some xn ->
                     getp s' m = Some xm -> pt_name xn <> pt_name xm).
  { intros n m xn xm Hn Hm' Hm Hnn Hxn Hxm E'. destruct (Hreach n Hn) as [|HnN]; [contradiction|].
    destruct (tr_old m xm Hm' Hm Hxm) as (x & Hx & En & _).
    apply (nw_fresh T s xn (HN n xn HnN Hnn Hxn)). rewrite E', En.
    apply (in_iter_names s Hw). exists m, x. split; auto. apply (reach_part_iff s Hw). auto. }
  destruct (reachP_dec s Hw a) as [Ra|Ra], (reachP_dec s Hw b) as [Rb|Rb].
  - destruct (tr_old a xa Ha Ra Hxa) as (ya & Hya & Ena & _). destruct (tr_old b xb Hb Rb Hxb) as (yb & Hyb & Enb & _).
    apply Hab. apply (NoDup_map_inj_on (name_of (st_parts s)) (iter_pids s)).
    + apply (iv_names T s HI).
    + apply Hiff; auto.
    + apply Hiff; auto.
    + rewrite (name_of_getp s a ya Hya), (name_of_getp s b yb Hyb). congruence.
  - apply (Hfresh b a xb xa); auto.
  - apply (Hfresh a b xa xb); auto.
  - destruct (Hreach a Ha) as [|HaN]; [contradiction|]. destruct (Hreach b Hb) as [|HbN]; [contradiction|].
    apply (HNd a b xa xb); auto.
Qed.

Lemma tr_clash : clash_free T s'.
Proof.
  intros p q x y Hx Hy He Hix Hiy.
  apply (reach_part_iff s' Hw') in Hx as [Rp Hx]. apply (reach_part_iff s' Hw') in Hy as [Rq Hy].
  destruct (Opc_proofs.str_eq_dec (pt_ct x) (pt_ct y)) as [|Hne]; auto. exfalso.
  pose proof (tk_fun T HT _ _ _ Hix (eq_ind_r (fun e => Opc.in_table (t_def T) e (pt_ct y) = true) Hiy He) Hne) as Hbin.
  assert (Hnew : forall n xn, reachP s' n -> getp s' n = Some xn -> ~ reachP s n ->
                   Opc.in_table (t_def T) s_bin (pt_ct xn) = true -> False).
  { intros n xn Rn Hxn Hnn Hin. destruct (Hreach n Rn) as [|HnN]; [contradiction|].
    rewrite (nw_bin T s xn (HN n xn HnN Hnn Hxn)) in Hin. discriminate. }
  destruct (reachP_dec s Hw p) as [Ra|Ra], (reachP_dec s Hw q) as [Rb|Rb].
  - destruct (tr_old p x Rp Ra Hx) as (xa & Hxa & Ena & Eca). destruct (tr_old q y Rq Rb Hy) as (yb & Hyb & Enb & Ecb).
    apply Hne. rewrite Eca, Ecb. rewrite Ena, Eca in Hix. rewrite Enb, Ecb in Hiy. rewrite Ena, Enb in He.
    apply (iv_clash T s HI p q xa yb); auto; apply (reach_part_iff s Hw); auto.
  - apply (Hnew q y Rq Hy Rb). rewrite <- Hbin, He. exact Hiy.
  - apply (Hnew p x Rp Hx Ra). rewrite <- Hbin. exact Hix.
  - apply (Hnew p x Rp Hx Ra). rewrite <- Hbin. exact Hix.
Qed.

Lemma tr_dir (tg tg' : list nat) :
  (forall p x, reach_part s p x -> baseURI (pt_name x) = s_slides_dir -> In p tg) -> incl tg tg' ->
  (forall n x', In n N -> ~ reachP s n -> getp s' n = Some x' -> baseURI (pt_name x') = s_slides_dir -> In n tg') ->
  forall p x', reach_part s' p x' -> baseURI (pt_name x') = s_slides_dir -> In p tg'.
Proof.
  intros H1 H2 H3 p x' Hx Hd. apply (reach_part_iff s' Hw') in Hx as [Rp Hx].
  destruct (reachP_dec s Hw p) as [Ra|Ra].
  - destruct (tr_old p x' Rp Ra Hx) as (x & Hxx & En & _). apply H2. apply (H1 p x).
    + apply (reach_part_iff s Hw). auto.
    + rewrite <- En. exact Hd.
  - destruct (Hreach p Rp) as [|HpN]; [contradiction|]. eapply H3; eauto.
Qed.

Lemma tr_name_in nm : In nm (iter_names s') ->
  In nm (iter_names s) \/ exists n x', In n N /\ ~ reachP s n /\ getp s' n = Some x' /\ pt_name x' = nm.
Proof.
  intros H. apply (in_iter_names s' Hw') in H as (p & x' & Hx & En).
  apply (reach_part_iff s' Hw') in Hx as [Rp Hx].
  destruct (reachP_dec s Hw p) as [Ra|Ra].
  - left. destruct (tr_old p x' Rp Ra Hx) as (x & Hxx & En' & _). apply (in_iter_names s Hw).
    exists p, x. split; [apply (reach_part_iff s Hw); auto|congruence].
  - right. destruct (Hreach p Rp) as [|HpN]; [contradiction|]. exists p, x'. auto.
Qed.
End Transfer.

(* ------------------------------------------------------------------------------ *)
(** * The part names the operations allocate *)

Definition stem_ok (stem : str) : bool :=
  match stem with c :: _ => negb (is_dot c) && forallb not_slash stem | [] => false end.

Lemma render_snoc_app d f g : render (d ++ [f]) ++ g = render (d ++ [f ++ g]).
Proof.
  rewrite !PackUri_proofs.render_snoc. destruct d; rewrite <- app_assoc; reflexivity.
Qed.

Lemma wf_segb_stem stem rest : stem_ok stem = true -> forallb not_slash rest = true -> wf_segb (stem ++ rest) = true.
Proof.
  destruct stem as [|c r]; [discriminate|]. simpl. intros H Hr. apply andb_true_iff in H as [Hd Hs].
  apply andb_true_iff in Hs as [Hc Hs]. apply negb_true_iff in Hd. unfold is_dot in Hd.
  unfold wf_segb. change ((c :: r) ++ rest) with (c :: (r ++ rest)). cbn [forallb].
  rewrite forallb_app, Hc, Hs, Hr. unfold s_dot, s_dotdot. cbn [str_eqb]. rewrite Hd. reflexivity.
Qed.

Lemma seg_free_wf d : wf_name d -> Opc_proofs.seg_free d.
Proof.
  intros H. unfold Opc_proofs.seg_free. eapply Forall_impl; [|exact H]. intros a Ha.
  apply PackUri_proofs.wf_segb_inv in Ha as (_ & Ha & _). exact Ha.
Qed.

Lemma part_name_snoc d f : wf_name d -> d <> [] -> last d [] <> s_rels_dir -> wf_segb f = true ->
  Opc.part_name (render (d ++ [f])).
Proof.
  intros Hd Hne Hl Hf. exists (d ++ [f]).
  assert (Hwf : wf_name (d ++ [f])) by (apply Forall_app; split; auto).
  split; auto. split; [intros E; apply app_eq_nil in E as [_ E]; discriminate|]. split; auto. split.
  - rewrite Opc_proofs.ct_uri_render. intros E. apply Opc_proofs.render_inj in E.
    + destruct d as [|a [|b d']]; [contradiction|discriminate|discriminate].
    + intros E'; apply app_eq_nil in E' as [_ E']; discriminate.
    + discriminate.
    + apply seg_free_wf. exact Hwf.
    + repeat constructor.
  - intros (d' & f' & E). change [s_rels_dir; f'] with ([s_rels_dir] ++ [f']) in E. rewrite app_assoc in E.
    apply app_inj_tail in E as [E _]. apply Hl. rewrite E. apply last_last.
Qed.

Lemma dec_not_slash n : forallb not_slash (dec_of_N n) = true.
Proof.
  pose proof (Ids_proofs.dec_of_N_digits n) as H. rewrite forallb_forall in *. intros c Hc.
  apply PackUri_proofs.digit_not_slash. auto.
Qed.

(** a name made of a directory, a stem, decimal digits and a tail *)
Lemma tmpl_name_facts d stem post k :
  wf_name d -> d <> [] -> last d [] <> s_rels_dir -> stem_ok stem = true -> forallb not_slash post = true ->
  Opc.part_name (Ids.tmpl_apply (render (d ++ [stem])) post k) /\
  baseURI (Ids.tmpl_apply (render (d ++ [stem])) post k) = render d.
Proof.
  intros Hd Hne Hl Hs Hp. unfold Ids.tmpl_apply. rewrite render_snoc_app.
  assert (Hf : wf_segb (stem ++ dec_of_N k ++ post) = true).
  { apply wf_segb_stem; auto. rewrite forallb_app, dec_not_slash, Hp. reflexivity. }
  split; [apply part_name_snoc; auto|apply PackUri_proofs.baseURI_render; auto].
Qed.

Definition seg (s : String.string) : str := asc s.

Definition known_tps : list (str * str) := [tp_theme; tp_notes_slide; tp_chart; tp_xlsx; tp_docx; tp_pptx; tp_ole].

Definition other_dirs : list str :=
  [asc "/ppt/theme"; asc "/ppt/notesSlides"; asc "/ppt/charts"; asc "/ppt/embeddings"; asc "/ppt/media"].

(** a name allocated from one of the templates: a part name in one of the directories above *)
Lemma tp_case d st post k : wf_name d -> d <> [] -> last d [] <> s_rels_dir -> stem_ok st = true ->
  forallb not_slash post = true -> In (render d) other_dirs ->
  Opc.part_name (Ids.tmpl_apply (render (d ++ [st])) post k) /\
  In (baseURI (Ids.tmpl_apply (render (d ++ [st])) post k)) other_dirs.
Proof.
  intros H1 H2 H3 H4 H5 H6. destruct (tmpl_name_facts d st post k H1 H2 H3 H4 H5) as [P B].
  split; auto. rewrite B. exact H6.
Qed.

Ltac tp_solve d st :=
  apply (tp_case d st);
  [repeat constructor|discriminate|vm_compute; discriminate|reflexivity|reflexivity|vm_compute; tauto].

Lemma tp_name_facts tp k : In tp known_tps ->
  Opc.part_name (Ids.tmpl_apply (fst tp) (snd tp) k) /\ In (baseURI (Ids.tmpl_apply (fst tp) (snd tp) k)) other_dirs.
Proof.
  intros H. simpl in H. destruct H as [<-|[<-|[<-|[<-|[<-|[<-|[<-|[]]]]]]]].
  - tp_solve [asc "ppt"; asc "theme"] (asc "theme").
  - tp_solve [asc "ppt"; asc "notesSlides"] (asc "notesSlide").
  - tp_solve [asc "ppt"; asc "charts"] (asc "chart").
  - tp_solve [asc "ppt"; asc "embeddings"] (asc "Microsoft_Excel_Sheet").
  - tp_solve [asc "ppt"; asc "embeddings"] (asc "Microsoft_Word_Document").
  - tp_solve [asc "ppt"; asc "embeddings"] (asc "Microsoft_PowerPoint_Presentation").
  - tp_solve [asc "ppt"; asc "embeddings"] (asc "oleObject").
Qed.

Lemma slide_name_facts k : Opc.part_name (Ids.slide_name k) /\ baseURI (Ids.slide_name k) = s_slides_dir.
Proof.
  unfold Ids.slide_name. change Ids.s_slide_pre with (render ([asc "ppt"; asc "slides"] ++ [asc "slide"])).
  destruct (tmpl_name_facts [asc "ppt"; asc "slides"] (asc "slide") Ids.s_xml_post k) as [P B];
    [repeat constructor|discriminate|discriminate|reflexivity|reflexivity|].
  split; auto.
Qed.

Lemma ext_ok_spec e : ext_ok e = true -> PackUri_proofs.no_dot e = true /\ forallb not_slash e = true.
Proof.
  unfold ext_ok, PackUri_proofs.no_dot. intros H. split; apply forallb_forall; intros c Hc;
    rewrite forallb_forall in H; specialize (H c Hc); apply andb_true_iff in H; tauto.
Qed.

Lemma media_dir_name stem (i : Z) e : stem_ok stem = true -> (0 < i)%Z -> ext_ok e = true ->
  let n := (c_slash :: asc "ppt/media/") ++ stem ++ Wire.show_Z i ++ [c_dot] ++ e in
  packuri_new n = Ok n /\ Opc.part_name n /\ baseURI n = asc "/ppt/media".
Proof.
  intros Hs Hi He. cbv zeta. split; [reflexivity|].
  rewrite (Ids_proofs.show_Z_pos i Hi).
  assert (E : (c_slash :: asc "ppt/media/") ++ stem ++ dec_of_N (Z.to_N i) ++ [c_dot] ++ e
              = Ids.tmpl_apply (render ([asc "ppt"; asc "media"] ++ [stem])) (c_dot :: e) (Z.to_N i)).
  { unfold Ids.tmpl_apply. rewrite PackUri_proofs.render_snoc.
    change (render [asc "ppt"; asc "media"]) with (c_slash :: asc "ppt/media").
    change (c_slash :: asc "ppt/media/") with ((c_slash :: asc "ppt/media") ++ [c_slash]).
    rewrite <- !app_assoc. reflexivity. }
  rewrite E. destruct (tmpl_name_facts [asc "ppt"; asc "media"] stem (c_dot :: e) (Z.to_N i)) as [P B];
    [repeat constructor|discriminate|vm_compute; discriminate|exact Hs| |].
  - cbn [forallb]. destruct (ext_ok_spec e He) as [_ H2]. rewrite H2. reflexivity.
  - split; auto.
Qed.

(* ------------------------------------------------------------------------------ *)
(** * Replacing one part object (not the presentation part, not a slide master) *)

Definition type_filter (t : str) (rs : list relr) : list relr := filter (fun r => str_eqb (rr_type r) t) rs.

Lemma part_with_reltype_filter t rs rs' : type_filter t rs' = type_filter t rs ->
  part_with_reltype t rs' = part_with_reltype t rs.
Proof. unfold part_with_reltype, type_filter. intros ->. reflexivity. Qed.

Lemma name_of_setp s p x x' q : getp s p = Some x -> pt_name x' = pt_name x ->
  name_of (st_parts (setp s p x')) q = name_of (st_parts s) q.
Proof.
  intros Hx En. unfold name_of. change (nth_error (st_parts (setp s p x')) q) with (getp (setp s p x') q).
  change (nth_error (st_parts s) q) with (getp s q).
  destruct (Nat.eq_dec p q) as [<-|Hne].
  - rewrite getp_setp_same by (eapply getp_lt; eauto). rewrite Hx. exact En.
  - rewrite getp_setp_other by auto. reflexivity.
Qed.

Section SetPart.
Variable T : tables.
Variable s : state.
Variables (p : nat) (x x' : part) (N : list nat).
Hypothesis HT : tables_ok T.
Hypothesis HI : Inv T s.
Hypothesis Hx : getp s p = Some x.
Hypothesis En : pt_name x' = pt_name x.
Hypothesis Ec : pt_ct x' = pt_ct x.
Hypothesis Hgood : good_part (length (st_parts s)) x'.
Hypothesis Hnp : p <> st_pres s.
Hypothesis Hnm : pt_ct x <> ct_slide_master.
Hypothesis Hmf : type_filter rt_slide_master (pt_rels x') = type_filter rt_slide_master (pt_rels x).
Hypothesis HpN : ~ In p N.
Hypothesis Hedges : forall q, In q (int_targets (pt_rels x')) ->
  In q (int_targets (pt_rels x)) \/ reachP s q \/ In q N \/ ~ reachP s p.
Hypothesis HNcl : forall n y q, In n N -> getp s n = Some y -> In q (int_targets (pt_rels y)) -> reachP s q \/ In q N.
Hypothesis HNok : forall n y, In n N -> ~ reachP s n -> getp s n = Some y ->
  new_ok T s y /\ baseURI (pt_name y) <> s_slides_dir /\ pt_name y <> n_notes_master /\ pt_name y <> n_core.
Hypothesis HNd : forall n m y z, In n N -> In m N -> n <> m -> ~ reachP s n -> ~ reachP s m ->
  getp s n = Some y -> getp s m = Some z -> pt_name y <> pt_name z.

Let s' := setp s p x'.
Let Hw : wfg s := inv_wfg T s HI.
Let Hlt : p < length (st_parts s) := getp_lt s p x Hx.

Lemma sp_getp q : getp s' q = if Nat.eqb p q then Some x' else getp s q.
Proof.
  unfold s'. destruct (Nat.eqb_spec p q) as [<-|Hne]; [apply getp_setp_same; auto|apply getp_setp_other; auto].
Qed.

Lemma sp_parts q y : getp s' q = Some y -> good_part (length (st_parts s')) y.
Proof.
  unfold s'. rewrite length_setp. fold s'. rewrite sp_getp. destruct (Nat.eqb p q).
  - intros [= <-]. exact Hgood.
  - apply (iv_parts T s HI).
Qed.

Lemma sp_wfg : wfg s'.
Proof.
  split.
  - unfold s'. rewrite length_setp. apply (iv_ptgts T s HI).
  - intros a y q Hy Hq. exact (gp_tgts _ _ (sp_parts a y Hy) q Hq).
Qed.

Lemma sp_reach q : reachP s' q -> reachP s q \/ In q N.
Proof.
  apply (reach_frame s s' (fun q => In q N)).
  - intros r Hr. left. constructor. exact Hr.
  - intros a y q0 Hy Hq Ha. rewrite sp_getp in Hy. destruct (Nat.eqb_spec p a) as [<-|Hne].
    + injection Hy as <-. destruct Ha as [Ha|Ha]; [|contradiction].
      destruct (Hedges q0 Hq) as [H|[H|[H|H]]]; auto; [|contradiction]. left. eapply rp1; eauto.
    + destruct Ha as [Ha|Ha]; [left; eapply rp1; eauto|eapply HNcl; eauto].
Qed.

Lemma sp_old q y y' : reachP s q -> getp s q = Some y -> getp s' q = Some y' ->
  pt_name y' = pt_name y /\ pt_ct y' = pt_ct y.
Proof.
  intros _ Hy Hy'. rewrite sp_getp in Hy'. destruct (Nat.eqb_spec p q) as [<-|Hne].
  - injection Hy' as <-. rewrite Hx in Hy. injection Hy as <-. auto.
  - rewrite Hy in Hy'. injection Hy' as <-. auto.
Qed.

Lemma sp_N n y' : In n N -> getp s' n = Some y' -> getp s n = Some y'.
Proof.
  intros Hn Hy'. rewrite sp_getp in Hy'. destruct (Nat.eqb_spec p n) as [<-|Hne]; [contradiction|exact Hy'].
Qed.

Theorem inv_setp : Inv T s'.
Proof.
  assert (Hnames : forall q, name_of (st_parts s') q = name_of (st_parts s) q)
    by (intros q; apply (name_of_setp s p x x' q Hx En)).
  assert (HNnew : forall n y', In n N -> ~ reachP s n -> getp s' n = Some y' -> new_ok T s y').
  { intros n y' Hn Hr Hy'. apply (HNok n y' Hn Hr). apply sp_N; auto. }
  assert (HNdist : forall n m y z, In n N -> In m N -> n <> m -> ~ reachP s n -> ~ reachP s m ->
                     getp s' n = Some y -> getp s' m = Some z -> pt_name y <> pt_name z).
  { intros n m y z Hn Hm Hne Rn Rm Hy Hz. apply (HNd n m y z); auto; apply sp_N; auto. }
  constructor.
  - exact sp_parts.
  - unfold s'. rewrite length_setp. apply (iv_ptgts T s HI).
  - apply (iv_pkeys T s HI).
  - apply (iv_pnocache T s HI).
  - apply (tr_names T s s' N HI sp_wfg sp_reach sp_old HNnew HNdist).
  - apply (iv_main T s HI).
  - destruct (iv_pres T s HI) as (pp & Hpp & Hc). exists pp. split; auto.
    change (st_pres s') with (st_pres s). rewrite sp_getp.
    destruct (Nat.eqb_spec p (st_pres s)); [contradiction|exact Hpp].
  - apply (tr_clash T s s' N HT HI sp_wfg sp_reach sp_old HNnew).
  - destruct (iv_slides T s HI) as (pp & tg & Hpp & HF & Hnd & Hdir & Hall & Hnm').
    exists pp, tg. split.
    { change (st_pres s') with (st_pres s). rewrite sp_getp.
      destruct (Nat.eqb_spec p (st_pres s)); [contradiction|exact Hpp]. }
    split; auto. split; auto. split; [intros q Hq; rewrite Hnames; auto|]. split.
    + apply (tr_dir T s s' N HI sp_wfg sp_reach sp_old tg tg); auto; [apply incl_refl|].
      intros n y' Hn Rn Hy' Hd. exfalso. destruct (HNok n y' Hn Rn (sp_N n y' Hn Hy')) as (_ & H & _). auto.
    + intros Hs j q Hj. rewrite Hnames. apply Hnm'; auto.
  - intros m mx rid lp lx m' Hm Hct Hrid Hlp Hlx Hm'.
    rewrite sp_getp in Hm. destruct (Nat.eqb_spec p m) as [<-|Hne].
    { injection Hm as <-. rewrite Ec in Hct. contradiction. }
    rewrite sp_getp in Hlx. destruct (Nat.eqb_spec p lp) as [<-|Hne2].
    + injection Hlx as <-. rewrite (part_with_reltype_filter _ _ _ Hmf) in Hm'.
      eapply (iv_master T s HI); eauto.
    + eapply (iv_master T s HI); eauto.
  - destruct (iv_fixed T s HI) as (F1 & F2 & F3).
    assert (Hpres : forall pp, getp s' (st_pres s') = Some pp -> getp s (st_pres s) = Some pp).
    { intros pp. change (st_pres s') with (st_pres s). rewrite sp_getp.
      destruct (Nat.eqb_spec p (st_pres s)); [contradiction|auto]. }
    assert (Hin : forall nm, nm = n_notes_master \/ nm = n_core -> In nm (iter_names s') -> In nm (iter_names s)).
    { intros nm Hnmc H. destruct (tr_name_in T s s' N HI sp_wfg sp_reach sp_old nm H) as [|(n & y' & Hn & Rn & Hy' & E)]; auto.
      exfalso. destruct (HNok n y' Hn Rn (sp_N n y' Hn Hy')) as (_ & _ & H1 & H2). destruct Hnmc; congruence. }
    split; [|split].
    + intros pp Hpp H. apply F1; auto.
    + intros H. apply F2; auto.
    + intros pp q Hpp. apply F3; auto.
Qed.
End SetPart.

(* ------------------------------------------------------------------------------ *)
(** * A new part object nobody relates to yet *)

Lemma reachP_lt s : wfg s -> forall p, reachP s p -> p < length (st_parts s).
Proof. intros Hw p Hp. destruct (iter_pids_spec s Hw) as (Hiff & _ & Hlt). apply Hlt. apply Hiff. exact Hp. Qed.

Lemma related_part_target rid rs q : related_part rid rs = Ok q -> In q (int_targets rs).
Proof.
  unfold related_part. destruct (find_rel rid rs) as [r|] eqn:E; [|discriminate].
  destruct (rr_tgt r) eqn:Et; [|discriminate]. intros [= <-]. apply find_rel_In in E as [Hin _].
  apply int_targets_In. eauto.
Qed.

Section Append.
Variable T : tables.
Variable s : state.
Variable y : part.
Hypothesis HT : tables_ok T.
Hypothesis HI : Inv T s.
Hypothesis Hgood : good_part (S (length (st_parts s))) y.
Hypothesis Hidl : pt_idl y = [].

Let s' := with_parts s (st_parts s ++ [y]).
Let n := length (st_parts s).
Let Hw : wfg s := inv_wfg T s HI.

Lemma ap_len : length (st_parts s') = S n.
Proof. unfold s'. cbn. rewrite app_length. simpl. unfold n. lia. Qed.

Lemma ap_getp q : getp s' q = if Nat.ltb q n then getp s q else if Nat.eqb q n then Some y else None.
Proof.
  unfold s', n. destruct (Nat.ltb_spec q (length (st_parts s))).
  - apply getp_app_old. auto.
  - destruct (Nat.eqb_spec q (length (st_parts s))) as [->|Hne]; [apply getp_app_new|].
    unfold getp. cbn. apply nth_error_None. rewrite app_length. simpl. lia.
Qed.

Lemma ap_getp_old q z : getp s q = Some z -> getp s' q = Some z.
Proof. intros H. rewrite ap_getp. pose proof (getp_lt s q z H). destruct (Nat.ltb_spec q n); [auto|unfold n in *; lia]. Qed.

Lemma ap_parts q z : getp s' q = Some z -> good_part (length (st_parts s')) z.
Proof.
  rewrite ap_len, ap_getp. destruct (Nat.ltb q n).
  - intros H. eapply good_part_mono; [|apply (iv_parts T s HI q z H)]. unfold n. lia.
  - destruct (Nat.eqb q n); [intros [= <-]; exact Hgood|discriminate].
Qed.

Lemma ap_wfg : wfg s'.
Proof.
  split.
  - intros q Hq. rewrite ap_len. pose proof (iv_ptgts T s HI q Hq). unfold n. lia.
  - intros a z q Hz Hq. exact (gp_tgts _ _ (ap_parts a z Hz) q Hq).
Qed.

Lemma ap_reach q : reachP s' q -> reachP s q \/ In q (@nil nat).
Proof.
  apply (reach_frame s s' (fun q => In q (@nil nat))).
  - intros r Hr. left. constructor. exact Hr.
  - intros a z q0 Hz Hq [Ha|[]]. left. pose proof (reachP_lt s Hw a Ha) as Hlt.
    rewrite ap_getp in Hz. destruct (Nat.ltb_spec a n); [|unfold n in *; lia]. eapply rp1; eauto.
Qed.

Lemma ap_reach_iff q : reachP s' q <-> reachP s q.
Proof.
  split.
  - intros H. destruct (ap_reach q H) as [|[]]; auto.
  - intros H. induction H as [q Hq|a q z Ha IH Hz Hq]; [constructor; exact Hq|].
    eapply rp1; eauto. apply ap_getp_old. exact Hz.
Qed.

Lemma ap_old q z z' : reachP s q -> getp s q = Some z -> getp s' q = Some z' ->
  pt_name z' = pt_name z /\ pt_ct z' = pt_ct z.
Proof. intros _ Hz Hz'. rewrite (ap_getp_old q z Hz) in Hz'. injection Hz' as <-. auto. Qed.

Lemma ap_name q : q < n -> name_of (st_parts s') q = name_of (st_parts s) q.
Proof. intros H. unfold name_of. change (nth_error (st_parts s') q) with (getp s' q). rewrite ap_getp.
  destruct (Nat.ltb_spec q n); [reflexivity|lia]. Qed.

Theorem inv_append : Inv T s'.
Proof.
  assert (HN0 : forall m y', In m (@nil nat) -> ~ reachP s m -> getp s' m = Some y' -> new_ok T s y') by (intros m y' []).
  assert (HNd0 : forall a b ya yb, In a (@nil nat) -> In b (@nil nat) -> a <> b -> ~ reachP s a -> ~ reachP s b ->
                   getp s' a = Some ya -> getp s' b = Some yb -> pt_name ya <> pt_name yb) by (intros a b ya yb []).
  constructor.
  - exact ap_parts.
  - intros q Hq. rewrite ap_len. pose proof (iv_ptgts T s HI q Hq). unfold n. lia.
  - apply (iv_pkeys T s HI).
  - apply (iv_pnocache T s HI).
  - apply (tr_names T s s' [] HI ap_wfg ap_reach ap_old HN0 HNd0).
  - apply (iv_main T s HI).
  - destruct (iv_pres T s HI) as (pp & Hpp & Hc). exists pp. split; auto. apply ap_getp_old. exact Hpp.
  - apply (tr_clash T s s' [] HT HI ap_wfg ap_reach ap_old HN0).
  - destruct (iv_slides T s HI) as (pp & tg & Hpp & HF & Hnd & Hdir & Hall & Hnm').
    assert (Htg : forall q, In q tg -> q < n).
    { intros q Hq. apply In_nth_error in Hq as (j & Hj).
      assert (exists rid, nth_error (pt_idl pp) j = Some rid /\ related_part rid (pt_rels pp) = Ok q) as (rid & _ & Hr).
      { clear - HF Hj. revert j Hj. induction HF; intros j Hj; [destruct j; discriminate|].
        destruct j; simpl in *; [injection Hj as <-; eauto|eauto]. }
      apply related_part_target in Hr. exact (gp_tgts _ _ (iv_parts T s HI _ pp Hpp) q Hr). }
    exists pp, tg. split; [apply ap_getp_old; exact Hpp|]. split; auto. split; auto.
    split; [intros q Hq; rewrite ap_name; auto|]. split.
    + apply (tr_dir T s s' [] HI ap_wfg ap_reach ap_old tg tg); auto; [apply incl_refl|intros m y' []].
    + intros Hs j q Hj. rewrite ap_name; [apply Hnm'; auto|]. apply Htg. eapply nth_error_In; eauto.
  - intros m mx rid lp lx m' Hm Hct Hrid Hlp Hlx Hm'.
    rewrite ap_getp in Hm. destruct (Nat.ltb_spec m n).
    + assert (Hlp' : lp < n).
      { apply related_part_target in Hlp. exact (gp_tgts _ _ (iv_parts T s HI m mx Hm) lp Hlp). }
      rewrite ap_getp in Hlx. destruct (Nat.ltb_spec lp n); [|lia]. eapply (iv_master T s HI); eauto.
    + destruct (Nat.eqb m n); [|discriminate]. injection Hm as <-. rewrite Hidl in Hrid. destruct Hrid.
  - destruct (iv_fixed T s HI) as (F1 & F2 & F3).
    assert (Hpres : forall pp, getp s' (st_pres s') = Some pp -> getp s (st_pres s) = Some pp).
    { intros pp Hpp'. destruct (iv_pres T s HI) as (pp0 & Hpp0 & _).
      change (st_pres s') with (st_pres s) in Hpp'. rewrite (ap_getp_old _ _ Hpp0) in Hpp'. congruence. }
    assert (Hin : forall nm, In nm (iter_names s') -> In nm (iter_names s)).
    { intros nm H. destruct (tr_name_in T s s' [] HI ap_wfg ap_reach ap_old nm H) as [|(m & y' & [] & _)]; auto. }
    split; [|split].
    + intros pp Hpp H. apply F1; auto.
    + intros H. apply F2; auto.
    + intros pp q Hpp. apply F3; auto.
Qed.
End Append.

(* ------------------------------------------------------------------------------ *)
(** * Local facts: relationship collections and good_part under the edits the operations make *)

Lemma find_rel_app_old rid rs extra : In rid (map rr_id rs) -> find_rel rid (rs ++ extra) = find_rel rid rs.
Proof.
  induction rs as [|a rs IH]; simpl; [tauto|]. intros H.
  destruct (str_eqb_spec (rr_id a) rid) as [E|E]; auto. apply IH. destruct H; [contradiction|auto].
Qed.

Lemma find_rel_app_new rid rs r : ~ In rid (map rr_id rs) -> rr_id r = rid -> find_rel rid (rs ++ [r]) = Some r.
Proof.
  induction rs as [|a rs IH]; simpl; intros Hn E.
  - rewrite E, str_eqb_refl. reflexivity.
  - destruct (str_eqb_spec (rr_id a) rid) as [E'|E']; [exfalso; apply Hn; auto|]. apply IH; auto.
Qed.

Lemma int_targets_app a b : int_targets (a ++ b) = int_targets a ++ int_targets b.
Proof. unfold int_targets. apply flat_map_app. Qed.

Lemma type_filter_app t a b : type_filter t (a ++ b) = type_filter t a ++ type_filter t b.
Proof. unfold type_filter. apply filter_app. Qed.

(** get_or_add never raises; it either finds or appends under a fresh rId *)
Lemma get_or_add_cases t g rs :
  (exists rid r, get_or_add t g rs = Ok (rs, rid) /\ In r rs /\ rr_id r = rid /\ rr_type r = t /\ rr_tgt r = g) \/
  (exists rid, get_or_add t g rs = Ok (rs ++ [mkR rid t g None], rid) /\ ~ In rid (map rr_id rs) /\
               forall r, In r rs -> rr_type r = t -> rr_tgt r <> g).
Proof.
  unfold get_or_add, get_matching.
  destruct (find (fun r => str_eqb (rr_type r) t && tgt_eqb (rr_tgt r) g) rs) as [r|] eqn:E.
  - left. apply find_some in E as [Hin Hb]. apply andb_true_iff in Hb as [H1 H2]. apply str_eqb_eq in H1.
    exists (rr_id r), r. repeat split; auto.
    destruct (rr_tgt r), g; simpl in H2; try discriminate.
    + apply Nat.eqb_eq in H2. subst; auto.
    + apply str_eqb_eq in H2. subst; auto.
  - right. unfold add_rel. destruct (Ids_proofs.rid_fresh (map rr_id rs)) as (rid & Hr & Hf & _).
    rewrite Hr. cbn [bind]. exists rid. repeat split; auto.
    intros r Hin Ht Hg. pose proof (find_none _ _ E r Hin) as Hb. cbn beta in Hb.
    rewrite Ht, Hg, str_eqb_refl in Hb. simpl in Hb.
    destruct g; simpl in Hb; [rewrite Nat.eqb_refl in Hb|rewrite str_eqb_refl in Hb]; discriminate.
Qed.

Lemma good_add_rel n x rid t g :
  good_part n x -> ~ In rid (map rr_id (pt_rels x)) -> (forall q, g = TInt q -> q < n) ->
  good_part n (with_rels x (pt_rels x ++ [mkR rid t g None])).
Proof.
  intros [H1 H2 H3 H4 H5 H6 H7 H8 H9 H10] Hf Hq. constructor; cbn [pt_name pt_base pt_rels pt_ct pt_idl pt_refs pt_slots with_rels]; auto.
  - intros q. rewrite int_targets_app. intros Hin. apply in_app_or in Hin as [Hin|Hin]; auto.
    destruct g; simpl in Hin; [destruct Hin as [<-|[]]; auto|destruct Hin].
  - rewrite map_app. simpl. apply Ids_proofs.NoDup_snoc; auto.
  - intros r Hr. apply in_app_or in Hr as [Hr|[<-|[]]]; auto.
  - intros kr Hkr. rewrite map_app. apply in_or_app. left. apply H6. exact Hkr.
  - intros k r x' Hin Hk Hfr. rewrite find_rel_app_old in Hfr by (apply (H6 (k, r)); auto). eapply H7; eauto.
  - intros r Hr. destruct (H8 r Hr) as (x' & Hx' & Ht). exists x'. split; auto.
    rewrite find_rel_app_old; auto. apply find_rel_In in Hx' as [Hin <-]. apply in_map. auto.
Qed.

Lemma all_refs_with_refs x l : all_refs (with_refs x l) = map (fun r => (k_id, r)) (pt_idl x) ++ l ++ slot_refs (pt_slots x).
Proof. reflexivity. Qed.

(** appending references that name relationships of the right kind *)
Lemma good_add_refs n x krs :
  good_part n x -> pt_ct x <> ct_slide_master ->
  (forall k r, In (k, r) krs -> exists r', find_rel r (pt_rels x) = Some r' /\ (k <> k_id -> ~ In (rr_type r') link_types)) ->
  good_part n (with_refs x (pt_refs x ++ krs)).
Proof.
  intros [H1 H2 H3 H4 H5 H6 H7 H8 H9 H10] Hm Hk. constructor; cbn [pt_name pt_base pt_rels pt_ct pt_idl pt_refs pt_slots with_refs]; auto.
  - intros kr. rewrite all_refs_with_refs. intros Hin.
    apply in_app_or in Hin as [Hin|Hin]; [apply H6; unfold all_refs; apply in_or_app; auto|].
    apply in_app_or in Hin as [Hin|Hin]; [|apply H6; unfold all_refs; apply in_or_app; right; apply in_or_app; auto].
    apply in_app_or in Hin as [Hin|Hin]; [apply H6; unfold all_refs; apply in_or_app; right; apply in_or_app; auto|].
    destruct kr as [k r]. destruct (Hk k r Hin) as (r' & Hr' & _). apply find_rel_In in Hr' as [Hi <-]. cbn [snd]. apply in_map; auto.
  - intros k r x'. rewrite all_refs_with_refs. intros Hin Hkk Hf.
    assert (Hold : In (k, r) (all_refs x) -> ~ In (rr_type x') link_types) by (intros Ho; eapply H7; eauto).
    apply in_app_or in Hin as [Hin|Hin]; [apply Hold; unfold all_refs; apply in_or_app; auto|].
    apply in_app_or in Hin as [Hin|Hin]; [|apply Hold; unfold all_refs; apply in_or_app; right; apply in_or_app; auto].
    apply in_app_or in Hin as [Hin|Hin]; [apply Hold; unfold all_refs; apply in_or_app; right; apply in_or_app; auto|].
    destruct (Hk k r Hin) as (r' & Hr' & Hn). rewrite Hf in Hr'. injection Hr' as <-. auto.
  - intros Hc. contradiction.
Qed.

Lemma slot_refs_app a b : slot_refs (a ++ b) = slot_refs a ++ slot_refs b.
Proof. unfold slot_refs. apply flat_map_app. Qed.

Lemma good_add_slot n x : good_part n x -> pt_ct x <> ct_slide_master ->
  good_part n (with_slots x (pt_slots x ++ [(None, None)])).
Proof.
  intros [H1 H2 H3 H4 H5 H6 H7 H8 H9 H10] Hm.
  assert (E : slot_refs (pt_slots x ++ [(None, None)]) = slot_refs (pt_slots x)).
  { rewrite slot_refs_app. simpl. apply app_nil_r. }
  constructor; cbn [pt_name pt_base pt_rels pt_ct pt_idl pt_refs pt_slots with_slots]; auto.
  - intros kr. unfold all_refs. cbn [pt_idl pt_refs pt_slots with_slots]. rewrite E. apply H6.
  - intros k r x'. unfold all_refs. cbn [pt_idl pt_refs pt_slots with_slots]. rewrite E. apply H7.
  - intros r. unfold slot_rids. cbn [pt_slots with_slots]. rewrite E. apply H8.
  - intros Hc. contradiction.
Qed.

(* ------------------------------------------------------------------------------ *)
(** * part.relate_to *)

Lemma m_part_run s p x : getp s p = Some x -> m_part p s = (s, Ok x).
Proof. intros H. unfold m_part, bindM, getS. rewrite H. reflexivity. Qed.

Lemma m_setp_run s p x : m_setp p x s = (setp s p x, Ok tt).
Proof. reflexivity. Qed.

Lemma m_relate_run s src t g x rs rid : getp s src = Some x -> get_or_add t g (pt_rels x) = Ok (rs, rid) ->
  m_relate src t g s = (setp s src (with_rels x rs), Ok rid).
Proof.
  intros Hx Hg. unfold m_relate, bindM. rewrite (m_part_run s src x Hx). unfold lift. rewrite Hg. reflexivity.
Qed.

Lemma with_rels_same x : with_rels x (pt_rels x) = x.
Proof. destruct x; reflexivity. Qed.

Definition rel_facts (x : part) (rs : list relr) (rid t : str) (g : tgt) : Prop :=
  (rs = pt_rels x \/ (rs = pt_rels x ++ [mkR rid t g None] /\ ~ In rid (map rr_id (pt_rels x)))) /\
  (exists r, find_rel rid rs = Some r /\ rr_type r = t /\ rr_tgt r = g) /\
  (forall k, In k (map rr_id (pt_rels x)) -> find_rel k rs = find_rel k (pt_rels x)).

Lemma get_or_add_facts n x t g : good_part n x ->
  exists rs rid, get_or_add t g (pt_rels x) = Ok (rs, rid) /\ rel_facts x rs rid t g.
Proof.
  intros G. destruct (get_or_add_cases t g (pt_rels x)) as [(rid & r & E & Hin & Hid & Ht & Hg)|(rid & E & Hf & _)].
  - exists (pt_rels x), rid. split; auto. split; [left; auto|]. split; auto.
    exists r. split; auto. rewrite <- Hid. apply find_rel_NoDup; auto. apply (gp_keys _ _ G).
  - exists (pt_rels x ++ [mkR rid t g None]), rid. split; auto. split; [right; auto|]. split.
    + eexists. split; [apply find_rel_app_new; auto|]. auto.
    + intros k Hk. apply find_rel_app_old. auto.
Qed.

Section Relate.
Variable T : tables.
Variable s : state.
Variables (src : nat) (x : part) (t : str) (q : nat) (N : list nat).
Hypothesis HT : tables_ok T.
Hypothesis HI : Inv T s.
Hypothesis Hx : getp s src = Some x.
Hypothesis Hnp : src <> st_pres s.
Hypothesis Hnm : pt_ct x <> ct_slide_master.
Hypothesis Ht : t <> rt_slide_master.
Hypothesis Hq : q < length (st_parts s).
Hypothesis HsN : ~ In src N.
Hypothesis Hqr : reachP s q \/ In q N \/ ~ reachP s src.
Hypothesis HNcl : forall n y q', In n N -> getp s n = Some y -> In q' (int_targets (pt_rels y)) -> reachP s q' \/ In q' N.
Hypothesis HNok : forall n y, In n N -> ~ reachP s n -> getp s n = Some y ->
  new_ok T s y /\ baseURI (pt_name y) <> s_slides_dir /\ pt_name y <> n_notes_master /\ pt_name y <> n_core.
Hypothesis HNd : forall n m y z, In n N -> In m N -> n <> m -> ~ reachP s n -> ~ reachP s m ->
  getp s n = Some y -> getp s m = Some z -> pt_name y <> pt_name z.

Theorem relate_inv :
  exists rs rid, get_or_add t (TInt q) (pt_rels x) = Ok (rs, rid) /\ rel_facts x rs rid t (TInt q) /\
                 Inv T (setp s src (with_rels x rs)).
Proof.
  pose proof (iv_parts T s HI src x Hx) as G.
  destruct (get_or_add_facts _ x t (TInt q) G) as (rs & rid & E & F). exists rs, rid. split; auto. split; auto.
  destruct F as ([->|[-> Hf]] & _ & _).
  - rewrite with_rels_same. apply (inv_setp T s src x x N); auto.
  - apply (inv_setp T s src x _ N); auto.
    + apply good_add_rel; auto. intros q' [= <-]. exact Hq.
    + cbn [pt_rels with_rels]. rewrite type_filter_app. simpl.
      destruct (str_eqb_spec t rt_slide_master); [contradiction|]. apply app_nil_r.
    + cbn [pt_rels with_rels]. intros q'. rewrite int_targets_app. intros Hin.
      apply in_app_or in Hin as [Hin|Hin]; auto. simpl in Hin. destruct Hin as [<-|[]]. tauto.
Qed.
End Relate.

(** an external relationship: no edge of the graph changes *)
Theorem relate_ext_inv T s src x t u : tables_ok T -> Inv T s -> getp s src = Some x -> src <> st_pres s ->
  pt_ct x <> ct_slide_master -> t <> rt_slide_master ->
  exists rs rid, get_or_add t (TExt u) (pt_rels x) = Ok (rs, rid) /\ rel_facts x rs rid t (TExt u) /\
                 Inv T (setp s src (with_rels x rs)).
Proof.
  intros HT HI Hx Hnp Hnm Ht. pose proof (iv_parts T s HI src x Hx) as G.
  destruct (get_or_add_facts _ x t (TExt u) G) as (rs & rid & E & F). exists rs, rid. split; auto. split; auto.
  destruct F as ([->|[-> Hf]] & _ & _).
  - rewrite with_rels_same. apply (inv_setp T s src x x []); auto; try (intros; contradiction).
  - apply (inv_setp T s src x _ []); auto; try (intros; contradiction).
    + apply good_add_rel; auto. intros q' [=].
    + cbn [pt_rels with_rels]. rewrite type_filter_app. simpl.
      destruct (str_eqb_spec t rt_slide_master); [contradiction|]. apply app_nil_r.
    + cbn [pt_rels with_rels]. intros q'. rewrite int_targets_app. intros Hin.
      apply in_app_or in Hin as [Hin|Hin]; auto; simpl in Hin; destruct Hin.
Qed.

(* ------------------------------------------------------------------------------ *)
(** * Presentation.slides: the slide parts are renamed slide1..n *)

Lemma set_names_nth parts : forall names q, length names = length parts ->
  nth_error (set_names parts names) q =
  match nth_error parts q, nth_error names q with
  | Some x, Some n => Some (with_name x n)
  | _, _ => None
  end.
Proof.
  induction parts as [|a parts IH]; intros [|n names] q Hl; simpl in Hl; try discriminate.
  - destruct q; reflexivity.
  - destruct q; simpl; [reflexivity|]. apply IH. lia.
Qed.

Lemma set_names_length parts : forall names, length names = length parts -> length (set_names parts names) = length parts.
Proof.
  induction parts as [|a parts IH]; intros [|n names] Hl; simpl in *; try discriminate; auto.
Qed.

Lemma lookup_rel_idx rid rs q : related_part rid rs = Ok q -> Ids.lookup_rel rid (prels_idx rs) = Some q.
Proof.
  unfold related_part. induction rs as [|a rs IH]; simpl; [discriminate|].
  destruct (str_eqb_spec (rr_id a) rid) as [E|E].
  - destruct (rr_tgt a) eqn:Et; [|discriminate]. intros [= <-]. simpl. rewrite E, str_eqb_refl. reflexivity.
  - intros H. destruct (rr_tgt a); simpl; [|auto].
    destruct (str_eqb_spec rid (rr_id a)) as [E'|E']; [congruence|auto].
Qed.

Lemma resolvable_prefix_all rs rids tg :
  Forall2 (fun rid q => related_part rid rs = Ok q) rids tg -> resolvable_prefix rs rids = (rids, None).
Proof.
  induction 1 as [|rid q rids tg Hr _ IH]; simpl; auto.
  unfold related_part in Hr. destruct (find_rel rid rs) as [r|]; [|discriminate].
  destruct (rr_tgt r); [|discriminate]. rewrite IH. reflexivity.
Qed.

Lemma ext_slide_name k : ext (Ids.slide_name k) = asc "xml".
Proof.
  unfold Ids.slide_name, Ids.tmpl_apply.
  change Ids.s_slide_pre with (render ([asc "ppt"; asc "slides"] ++ [asc "slide"])).
  rewrite render_snoc_app. change Ids.s_xml_post with (c_dot :: asc "xml"). rewrite app_assoc.
  apply PackUri_proofs.ext_render.
  - repeat constructor.
  - rewrite <- app_assoc. apply wf_segb_stem; [reflexivity|]. rewrite forallb_app, dec_not_slash. reflexivity.
  - reflexivity.
  - reflexivity.
Qed.

(** with a well-behaved default table only bin can clash *)
Lemma clash_only_bin T x y : tables_ok T ->
  Opc.lower (ext (pt_name x)) = Opc.lower (ext (pt_name y)) ->
  Opc.in_table (t_def T) (Opc.lower (ext (pt_name x))) (pt_ct x) = true ->
  Opc.in_table (t_def T) (Opc.lower (ext (pt_name y))) (pt_ct y) = true ->
  Opc.lower (ext (pt_name x)) <> s_bin -> pt_ct x = pt_ct y.
Proof.
  intros HT He Hx Hy Hb. destruct (Opc_proofs.str_eq_dec (pt_ct x) (pt_ct y)) as [|Hne]; auto.
  exfalso. apply Hb. rewrite <- He in Hy. exact (tk_fun T HT _ _ _ Hx Hy Hne).
Qed.

Section Rename.
Variable T : tables.
Variable s : state.
Hypothesis HT : tables_ok T.
Hypothesis HI : Inv T s.
Variables (pp : part) (tg : list nat) (names' : list str).
Hypothesis Hpp : getp s (st_pres s) = Some pp.
Hypothesis HF : Forall2 (fun rid q => related_part rid (pt_rels pp) = Ok q) (pt_idl pp) tg.
Hypothesis Hnd : NoDup tg.
Hypothesis Hdir : forall q, In q tg -> baseURI (name_of (st_parts s) q) = s_slides_dir.
Hypothesis Hall : forall p x, reach_part s p x -> baseURI (pt_name x) = s_slides_dir -> In p tg.
Hypothesis Hlen : length names' = length (st_parts s).
Hypothesis Hlisted : forall j p, nth_error tg j = Some p -> nth_error names' p = Some (Ids.slide_name (N.of_nat j + 1)%N).
Hypothesis Hother : forall q, ~ In q tg -> nth_error names' q = nth_error (map pt_name (st_parts s)) q.

Let s' := with_slides (with_parts s (set_names (st_parts s) names')) true.
Let Hw : wfg s := inv_wfg T s HI.

Lemma rn_getp q : getp s' q =
  match getp s q with
  | Some x => Some (with_name x (match nth_error names' q with Some n => n | None => [] end))
  | None => None
  end.
Proof.
  unfold s', getp. cbn. rewrite set_names_nth by exact Hlen.
  destruct (nth_error (st_parts s) q) eqn:E; [|reflexivity].
  destruct (nth_error names' q) eqn:E2; [reflexivity|].
  apply nth_error_None in E2. assert (q < length (st_parts s)) by (apply nth_error_Some; congruence). lia.
Qed.

Lemma rn_same q x : getp s q = Some x -> ~ In q tg -> getp s' q = Some x.
Proof.
  intros Hx Hq. rewrite rn_getp, Hx. rewrite (Hother q Hq). rewrite nth_error_map.
  unfold getp in Hx. rewrite Hx. simpl. destruct x; reflexivity.
Qed.

Lemma rn_listed j q x : nth_error tg j = Some q -> getp s q = Some x ->
  getp s' q = Some (with_name x (Ids.slide_name (N.of_nat j + 1)%N)).
Proof. intros Hj Hx. rewrite rn_getp, Hx, (Hlisted j q Hj). reflexivity. Qed.

Lemma rn_cases q x' : getp s' q = Some x' ->
  exists x, getp s q = Some x /\ pt_rels x' = pt_rels x /\ pt_ct x' = pt_ct x /\ pt_base x' = pt_base x /\
            pt_idl x' = pt_idl x /\ pt_refs x' = pt_refs x /\ pt_slots x' = pt_slots x /\
            ((~ In q tg /\ x' = x) \/ (exists j, nth_error tg j = Some q /\ pt_name x' = Ids.slide_name (N.of_nat j + 1)%N)).
Proof.
  intros H. destruct (getp s q) as [x|] eqn:Hx; [|rewrite rn_getp, Hx in H; discriminate].
  exists x. split; auto. destruct (in_dec Nat.eq_dec q tg) as [Hin|Hin].
  - apply In_nth_error in Hin as (j & Hj). rewrite (rn_listed j q x Hj Hx) in H. injection H as <-.
    repeat split; auto. right. exists j. auto.
  - rewrite (rn_same q x Hx Hin) in H. injection H as <-. repeat split; auto.
Qed.

Lemma rn_reach q : reachP s' q <-> reachP s q.
Proof.
  split; intros H.
  - induction H as [q Hq|a q z Ha IH Hz Hq]; [constructor; exact Hq|].
    destruct (rn_cases a z Hz) as (x & Hx & Er & _). eapply rp1; eauto. rewrite <- Er. exact Hq.
  - induction H as [q Hq|a q z Ha IH Hz Hq]; [constructor; exact Hq|].
    destruct (getp s' a) as [z'|] eqn:Hz'; [|rewrite rn_getp, Hz in Hz'; discriminate].
    destruct (rn_cases a z' Hz') as (x & Hx & Er & _). rewrite Hz in Hx. injection Hx as <-.
    eapply rp1; eauto. rewrite Er. exact Hq.
Qed.

Lemma rn_len : length (st_parts s') = length (st_parts s).
Proof. unfold s'. cbn. apply set_names_length. exact Hlen. Qed.

Lemma rn_good q x' : getp s' q = Some x' -> good_part (length (st_parts s')) x'.
Proof.
  intros H. rewrite rn_len. destruct (rn_cases q x' H) as (x & Hx & Er & Ec & Eb & Ei & Ef & Es & Hc).
  pose proof (iv_parts T s HI q x Hx) as G. destruct Hc as [[_ ->]|(j & Hj & En)]; auto.
  destruct G as [H1 H2 H3 H4 H5 H6 H7 H8 H9 H10].
  destruct (slide_name_facts (N.of_nat j + 1)%N) as [Pn Bn].
  constructor; unfold all_refs, slot_rids; rewrite ?Er, ?Ec, ?Ei, ?Ef, ?Es, ?En; auto.
  - rewrite Eb, H2, Bn. rewrite <- (name_of_getp s q x Hx). apply Hdir. eapply nth_error_In; eauto.
Qed.

Lemma rn_wfg : wfg s'.
Proof.
  split.
  - rewrite rn_len. apply (iv_ptgts T s HI).
  - intros a z q Hz Hq. exact (gp_tgts _ _ (rn_good a z Hz) q Hq).
Qed.

Lemma rn_name_neq a b xa xb : reachP s a -> reachP s b -> a <> b -> getp s' a = Some xa -> getp s' b = Some xb ->
  pt_name xa <> pt_name xb.
Proof.
  intros Ra Rb Hab Ha Hb E.
  destruct (rn_cases a xa Ha) as (ya & Hya & _ & _ & _ & _ & _ & _ & Ca).
  destruct (rn_cases b xb Hb) as (yb & Hyb & _ & _ & _ & _ & _ & _ & Cb).
  destruct (iter_pids_spec s Hw) as (Hiff & _).
  assert (Hnl : forall c yc xc k, reachP s c -> getp s c = Some yc -> ~ In c tg -> xc = yc ->
                 pt_name xc = Ids.slide_name k -> False).
  { intros c yc xc k Rc Hyc Hnc -> En. apply Hnc. apply (Hall c yc); [split; [apply Hiff; auto|auto]|].
    rewrite En. apply slide_name_facts. }
  destruct Ca as [[Na ->]|(ja & Hja & Ena)], Cb as [[Nb ->]|(jb & Hjb & Enb)].
  - apply Hab. apply (NoDup_map_inj_on (name_of (st_parts s)) (iter_pids s)); try (apply Hiff; auto).
    + apply (iv_names T s HI).
    + rewrite (name_of_getp s a ya Hya), (name_of_getp s b yb Hyb). exact E.
  - eapply (Hnl a ya ya); eauto. rewrite E. exact Enb.
  - eapply (Hnl b yb yb); eauto. rewrite <- E. exact Ena.
  - rewrite Ena, Enb in E. apply Ids_proofs.slide_name_inj in E.
    assert (ja = jb) by lia. subst jb. rewrite Hja in Hjb. congruence.
Qed.

Theorem inv_rename : Inv T s'.
Proof.
  destruct (iter_pids_spec s' rn_wfg) as (Hiff' & Hnd' & Hlt').
  constructor.
  - exact rn_good.
  - rewrite rn_len. apply (iv_ptgts T s HI).
  - apply (iv_pkeys T s HI).
  - apply (iv_pnocache T s HI).
  - unfold iter_names. apply NoDup_map_pairwise; auto. intros a b Ha Hb Hab.
    apply Hiff' in Ha, Hb.
    destruct (getp_some s' a (Hlt' a (proj2 (Hiff' a) Ha))) as (xa & Hxa).
    destruct (getp_some s' b (Hlt' b (proj2 (Hiff' b) Hb))) as (xb & Hxb).
    rewrite (name_of_getp s' a xa Hxa), (name_of_getp s' b xb Hxb).
    apply (rn_name_neq a b xa xb); auto; apply rn_reach; auto.
  - apply (iv_main T s HI).
  - destruct (getp s' (st_pres s')) as [pp'|] eqn:E.
    + exists pp'. split; auto. destruct (rn_cases _ pp' E) as (x & Hx & _ & Ec & _).
      change (st_pres s') with (st_pres s) in Hx. rewrite Hpp in Hx. injection Hx as <-. rewrite Ec.
      destruct (iv_pres T s HI) as (pp0 & Hpp0 & Hc). rewrite Hpp in Hpp0. injection Hpp0 as <-. exact Hc.
    + change (st_pres s') with (st_pres s) in E. rewrite rn_getp, Hpp in E. discriminate.
  - intros a b xa xb [Ha Hxa] [Hb Hxb] He Hia Hib.
    destruct (rn_cases a xa Hxa) as (ya & Hya & _ & Eca & _ & _ & _ & _ & Ca).
    destruct (rn_cases b xb Hxb) as (yb & Hyb & _ & Ecb & _ & _ & _ & _ & Cb).
    assert (Hxml : forall z k, pt_name z = Ids.slide_name k -> Opc.lower (ext (pt_name z)) <> s_bin).
    { intros z k En. rewrite En, ext_slide_name. vm_compute. discriminate. }
    destruct Ca as [[Na ->]|(ja & Hja & Ena)].
    + destruct Cb as [[Nb ->]|(jb & Hjb & Enb)].
      * apply (iv_clash T s HI a b ya yb); auto; split; auto;
          apply (iter_pids_spec s Hw); apply rn_reach; apply Hiff'; auto.
      * apply (clash_only_bin T ya xb HT He Hia Hib). rewrite He. eapply Hxml; eauto.
    + apply (clash_only_bin T xa xb HT He Hia Hib). eapply Hxml; eauto.
  - destruct (getp s' (st_pres s')) as [pp'|] eqn:E.
    2:{ change (st_pres s') with (st_pres s) in E. rewrite rn_getp, Hpp in E. discriminate. }
    destruct (rn_cases _ pp' E) as (x & Hx & Er & _ & _ & Ei & _).
    change (st_pres s') with (st_pres s) in Hx. rewrite Hpp in Hx. injection Hx as <-.
    exists pp', tg. split; auto. rewrite Er, Ei. split; auto. split; auto.
    assert (Htgn : forall j q, nth_error tg j = Some q -> name_of (st_parts s') q = Ids.slide_name (N.of_nat j + 1)%N).
    { intros j q Hj. assert (Hq : q < length (st_parts s)).
      { assert (Hin : In q tg) by (eapply nth_error_In; eauto).
        clear - HF Hin Hpp HI. induction HF; [destruct Hin|]. destruct Hin as [<-|Hin]; auto.
        apply related_part_target in H. exact (gp_tgts _ _ (iv_parts T s HI _ pp Hpp) _ H). }
      destruct (getp_some s q Hq) as (x & Hx). rewrite (name_of_getp s' q _ (rn_listed j q x Hj Hx)). reflexivity. }
    split; [|split].
    + intros q Hq. apply In_nth_error in Hq as (j & Hj). rewrite (Htgn j q Hj). apply slide_name_facts.
    + intros a xa [Ha Hxa] Hd. destruct (rn_cases a xa Hxa) as (ya & Hya & _ & _ & _ & _ & _ & _ & Ca).
      destruct Ca as [[Na ->]|(ja & Hja & _)]; [|eapply nth_error_In; eauto].
      apply (Hall a ya); auto. split; auto. apply (iter_pids_spec s Hw). apply rn_reach. apply Hiff'. exact Ha.
    + intros _ j q Hj. apply Htgn. exact Hj.
  - intros m mx rid lp lx m' Hm Hct Hrid Hlp Hlx Hm'.
    destruct (rn_cases m mx Hm) as (ym & Hym & Erm & Ecm & _ & Eim & _).
    destruct (rn_cases lp lx Hlx) as (yl & Hyl & Erl & _).
    rewrite Erm in Hlp. rewrite Ecm in Hct. rewrite Eim in Hrid. rewrite Erl in Hm'.
    eapply (iv_master T s HI); eauto.
  - destruct (iv_fixed T s HI) as (F1 & F2 & F3).
    assert (Hin : forall nm, (forall k, nm <> Ids.slide_name k) -> In nm (iter_names s') -> In nm (iter_names s)).
    { intros nm Hk H. apply (in_iter_names s' rn_wfg) in H as (a & xa & [Ha Hxa] & En).
      destruct (rn_cases a xa Hxa) as (ya & Hya & _ & _ & _ & _ & _ & _ & Ca).
      destruct Ca as [[Na ->]|(ja & Hja & Ena)]; [|exfalso; eapply Hk; rewrite <- En; eauto].
      apply (in_iter_names s Hw). exists a, ya. split; auto. split; auto.
      apply (iter_pids_spec s Hw). apply rn_reach. apply Hiff'. exact Ha. }
    assert (Hk1 : forall k, n_notes_master <> Ids.slide_name k).
    { intros k E. pose proof (proj2 (slide_name_facts k)) as B. rewrite <- E in B. vm_compute in B. discriminate. }
    assert (Hk2 : forall k, n_core <> Ids.slide_name k).
    { intros k E. pose proof (proj2 (slide_name_facts k)) as B. rewrite <- E in B. vm_compute in B. discriminate. }
    assert (Hpr : forall pp', getp s' (st_pres s') = Some pp' -> pt_rels pp' = pt_rels pp).
    { intros pp' E. destruct (rn_cases _ pp' E) as (x & Hx & Er & _).
      change (st_pres s') with (st_pres s) in Hx. rewrite Hpp in Hx. injection Hx as <-. exact Er. }
    split; [|split].
    + intros pp' E H. rewrite (Hpr pp' E). apply (F1 pp Hpp). apply Hin; auto.
    + intros H. apply F2. apply Hin; auto.
    + intros pp' q E Hq. rewrite (Hpr pp' E). apply (F3 pp q Hpp). exact Hq.
Qed.
End Rename.

Lemma Forall2_impl {A B} (P Q : A -> B -> Prop) l l' : (forall a b, P a b -> Q a b) -> Forall2 P l l' -> Forall2 Q l l'.
Proof. intros H. induction 1; constructor; auto. Qed.

Theorem access_inv T s : tables_ok T -> Inv T s ->
  exists s1, m_access_slides s = (s1, Ok tt) /\ Inv T s1 /\ st_slides s1 = true /\ st_pres s1 = st_pres s.
Proof.
  intros HT HI. unfold m_access_slides. destruct (st_slides s) eqn:Es.
  - exists s. auto.
  - destruct (iv_slides T s HI) as (pp & tg & Hpp & HF & Hnd & Hdir & Hall & _). rewrite Hpp.
    rewrite (resolvable_prefix_all _ _ _ HF).
    assert (Hres : Ids_proofs.resolves (prels_idx (pt_rels pp)) (pt_idl pp) tg).
    { unfold Ids_proofs.resolves. eapply Forall2_impl; [|exact HF]. intros a b. apply lookup_rel_idx. }
    assert (Hrange : forall p, In p tg -> p < length (map pt_name (st_parts s))).
    { rewrite map_length. intros q Hin. clear - HF Hin Hpp HI. induction HF; [destruct Hin|]. destruct Hin as [<-|Hin]; auto.
      apply related_part_target in H. exact (gp_tgts _ _ (iv_parts T s HI _ pp Hpp) _ H). }
    destruct (Ids_proofs.rename_listed _ _ _ (map pt_name (st_parts s)) Hres Hnd Hrange) as (names' & E & Hl & H3 & H4 & _).
    rewrite E. eexists. split; [reflexivity|]. split; [|split; reflexivity].
    rewrite map_length in Hl.
    apply (inv_rename T s HT HI pp tg names'); auto.
Qed.

(** prs.slides at i: a slide part the presentation part reaches *)
Definition slidep (s : state) (sp : nat) : Prop :=
  st_slides s = true /\ reachP s sp /\ sp <> st_pres s /\ exists x, getp s sp = Some x /\ pt_ct x = ct_slide.

Lemma pres_reach T s : Inv T s -> reachP s (st_pres s).
Proof.
  intros HI. destruct (iv_main T s HI) as (r & Hf & Ht). constructor. apply int_targets_In. exists r. split; auto.
  assert (In r [r]) by (simpl; auto). rewrite <- Hf in H. apply filter_In in H. tauto.
Qed.

Lemma m_class_run s p ct x : getp s p = Some x ->
  m_class p ct s = (s, if str_eqb (pt_ct x) ct then Ok tt else Err OtherErr).
Proof. intros H. unfold m_class, bindM. rewrite (m_part_run s p x H). destruct (str_eqb (pt_ct x) ct); reflexivity. Qed.

Theorem slide_inv T s i : tables_ok T -> Inv T s ->
  exists s1, Inv T s1 /\ st_pres s1 = st_pres s /\
    ((exists e, m_slide i s = (s1, Err e)) \/ (exists sp, m_slide i s = (s1, Ok sp) /\ slidep s1 sp)).
Proof.
  intros HT HI. destruct (access_inv T s HT HI) as (s1 & E & HI1 & Hs1 & Hp1).
  exists s1. split; auto. split; auto. unfold m_slide, bindM. rewrite E. unfold getS.
  destruct (iv_pres T s1 HI1) as (pp & Hpp & Hc). rewrite (m_part_run s1 _ pp Hpp).
  destruct (nth_error (pt_idl pp) i) as [rid|] eqn:En; [|left; eexists; reflexivity].
  unfold lift. destruct (related_part rid (pt_rels pp)) as [sp|e] eqn:Er; [|left; eexists; reflexivity].
  assert (Hsp : sp < length (st_parts s1)).
  { apply related_part_target in Er. exact (gp_tgts _ _ (iv_parts T s1 HI1 _ pp Hpp) _ Er). }
  destruct (getp_some s1 sp Hsp) as (x & Hx). rewrite (m_class_run s1 sp ct_slide x Hx).
  destruct (str_eqb_spec (pt_ct x) ct_slide) as [Ec|Ec]; [|left; eexists; reflexivity].
  right. exists sp. split; [reflexivity|]. split; auto. split; [|split].
  - eapply rp1; [apply (pres_reach T s1 HI1)|exact Hpp|]. apply related_part_target in Er. exact Er.
  - intros ->. rewrite Hpp in Hx. injection Hx as <-. apply Hc. rewrite Ec. simpl. auto.
  - eauto.
Qed.

(* ------------------------------------------------------------------------------ *)
(** * Running the monadic code under the invariant *)

Definition MH {A} (T : tables) (m : M A) (s : state) (Q : A -> state -> Prop) : Prop :=
  Inv T (fst (m s)) /\ forall a, snd (m s) = Ok a -> Q a (fst (m s)).

Lemma MH_bind {A B} T (m : M A) (f : A -> M B) s Q R :
  MH T m s Q -> (forall a s1, Inv T s1 -> Q a s1 -> MH T (f a) s1 R) -> MH T (bindM m f) s R.
Proof.
  intros [H1 H2] Hf. unfold MH, bindM. destruct (m s) as [s1 [a|e]]; cbn [fst snd] in *.
  - apply Hf; auto.
  - split; auto. discriminate.
Qed.

Lemma MH_weaken {A} T (m : M A) s (Q R : A -> state -> Prop) :
  MH T m s Q -> (forall a s1, Q a s1 -> R a s1) -> MH T m s R.
Proof. intros [H1 H2] H. split; auto. Qed.

Lemma MH_ret {A} T (a : A) s (Q : A -> state -> Prop) : Inv T s -> Q a s -> MH T (ret a) s Q.
Proof. intros H1 H2. split; cbn; auto. intros b [= <-]. auto. Qed.

Lemma MH_fail {A} T e s (Q : A -> state -> Prop) : Inv T s -> MH T (fail e) s Q.
Proof. intros H1. split; cbn; auto. discriminate. Qed.

Lemma MH_lift {A} T (r : res A) s (Q : A -> state -> Prop) : Inv T s -> (forall a, r = Ok a -> Q a s) -> MH T (lift r) s Q.
Proof. intros H1 H2. split; cbn; auto. Qed.

Lemma MH_getS T s (Q : state -> state -> Prop) : Inv T s -> Q s s -> MH T getS s Q.
Proof. intros H1 H2. split; cbn; auto. intros b [= <-]. auto. Qed.

Lemma MH_part T s p x (Q : part -> state -> Prop) : Inv T s -> getp s p = Some x -> Q x s -> MH T (m_part p) s Q.
Proof. intros H1 Hx H2. unfold MH. rewrite (m_part_run s p x Hx). cbn. split; auto. intros b [= <-]. auto. Qed.

Lemma MH_part_any T s p (Q : part -> state -> Prop) : Inv T s -> (forall x, getp s p = Some x -> Q x s) -> MH T (m_part p) s Q.
Proof.
  intros H1 H2. destruct (getp s p) as [x|] eqn:E; [apply (MH_part T s p x); auto|].
  unfold MH, m_part, bindM, getS. rewrite E. cbn. split; auto. discriminate.
Qed.

Lemma MH_setp T s p x (Q : unit -> state -> Prop) : Inv T (setp s p x) -> Q tt (setp s p x) -> MH T (m_setp p x) s Q.
Proof. intros H1 H2. split; cbn; auto. intros [] _. auto. Qed.

Lemma MH_class T s p ct (Q : unit -> state -> Prop) : Inv T s ->
  (forall x, getp s p = Some x -> pt_ct x = ct -> Q tt s) -> MH T (m_class p ct) s Q.
Proof.
  intros H1 H2. unfold m_class. apply (MH_bind T _ _ s (fun x s1 => s1 = s /\ getp s p = Some x)).
  - apply MH_part_any; auto.
  - intros x s1 _ [-> Hx]. destruct (str_eqb_spec (pt_ct x) ct) as [E|E]; [apply MH_ret; eauto|apply MH_fail; auto].
Qed.

Lemma MH_slide T s i : tables_ok T -> Inv T s ->
  MH T (m_slide i) s (fun sp s1 => slidep s1 sp /\ st_pres s1 = st_pres s).
Proof.
  intros HT HI. destruct (slide_inv T s i HT HI) as (s1 & HI1 & Hp & [(e & E)|(sp & E & Hs)]); unfold MH; rewrite E; cbn.
  - split; auto. discriminate.
  - split; auto. intros a [= <-]. auto.
Qed.

Lemma MH_access T s : tables_ok T -> Inv T s ->
  MH T m_access_slides s (fun _ s1 => st_slides s1 = true /\ st_pres s1 = st_pres s).
Proof.
  intros HT HI. destruct (access_inv T s HT HI) as (s1 & E & HI1 & Hs & Hp). unfold MH. rewrite E. cbn. split; auto.
Qed.

Lemma fst_fin {A} (f : A -> outcome) (m : M A) s : fst (fin f m s) = fst (m s).
Proof. unfold fin. destruct (m s). reflexivity. Qed.

Lemma ct_slide_ne_master : ct_slide <> ct_slide_master. Proof. vm_compute. discriminate. Qed.
Lemma ct_notes_ne_master : ct_notes_slide <> ct_slide_master. Proof. vm_compute. discriminate. Qed.
Lemma ct_chart_ne_master : ct_chart <> ct_slide_master. Proof. vm_compute. discriminate. Qed.

(** a part the link operations and the shape additions edit: a slide or a notes slide *)
Definition editable (s : state) (p : nat) (x : part) : Prop :=
  getp s p = Some x /\ p <> st_pres s /\ (pt_ct x = ct_slide \/ pt_ct x = ct_notes_slide).

Lemma editable_not_master s p x : editable s p x -> pt_ct x <> ct_slide_master.
Proof. intros (_ & _ & [E|E]); rewrite E; [apply ct_slide_ne_master|apply ct_notes_ne_master]. Qed.

Lemma slidep_editable s sp : slidep s sp -> exists x, editable s sp x /\ pt_ct x = ct_slide /\ reachP s sp.
Proof. intros (_ & Hr & Hn & x & Hx & Ec). exists x. split; [split; auto|auto]. Qed.

(** ** the operations that only touch flags, slots or nothing *)

Lemma step_access T s : tables_ok T -> Inv T s -> Inv T (fst (step false T s AccessSlides)).
Proof. intros HT HI. cbn [step]. rewrite fst_fin. apply (MH_access T s HT HI). Qed.

Lemma step_save T s : Inv T s -> Inv T (fst (step false T s Save)).
Proof. intros HI. exact HI. Qed.

Lemma step_picture_bad T s i : tables_ok T -> Inv T s -> Inv T (fst (step false T s (AddPictureBad i))).
Proof.
  intros HT HI. cbn [step]. rewrite fst_fin. unfold m_add_picture_bad.
  apply (MH_bind T _ _ s _ (fun _ _ => True) (MH_slide T s i HT HI)). intros sp s1 HI1 _. apply MH_fail. auto.
Qed.

Lemma step_plain T s i : tables_ok T -> Inv T s -> Inv T (fst (step false T s (AddPlainShape i))).
Proof.
  intros HT HI. cbn [step]. rewrite fst_fin.
  apply (MH_bind T _ _ s _ (fun _ _ => True) (MH_slide T s i HT HI)). intros sp s1 HI1 [Hs _].
  destruct (slidep_editable s1 sp Hs) as (x & He & Ec & Hr). destruct He as (Hx & Hnp & Hcls).
  apply (MH_bind T _ _ s1 (fun y s2 => y = x /\ s2 = s1)); [apply (MH_part T s1 sp x); auto|].
  intros y s2 _ [-> ->]. apply MH_setp; auto.
  apply (inv_setp T s1 sp x _ []); auto; try (intros; contradiction);
    try (rewrite Ec; apply ct_slide_ne_master).
  apply good_add_slot; [apply (iv_parts T s1 HI1 sp x Hx)|rewrite Ec; apply ct_slide_ne_master].
Qed.
