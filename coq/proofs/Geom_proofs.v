(** Proofs about model/Geom.v.  Each statement is re-stated in props/C17.v and closed
    there by [exact <this lemma>]. *)
From V.lib Require Import Prelude.
From V.model Require Import Geom.
From Coq Require Import ZifyBool.
Open Scope Z_scope.

(* ================================================================== connector *)

Definition Inv (c : conn) : Prop := 0 <= c_cx c /\ 0 <= c_cy c.

Lemma conn_new bx by_ ex ey :
  let c := add_cxn bx by_ ex ey in
  begin_x c = bx /\ begin_y c = by_ /\ end_x c = ex /\ end_y c = ey /\ Inv c.
Proof.
  unfold add_cxn, begin_x, begin_y, end_x, end_y, Inv; cbn.
  destruct (Z.ltb_spec ex bx), (Z.ltb_spec ey by_); lia.
Qed.

Ltac conn_crush :=
  repeat (cbn [do_writes wr_ok wr_apply fst snd];
          match goal with
          | |- context [if (?a <=? ?b) then _ else _] => destruct (Z.leb_spec0 a b)
          | |- context [if coord_ok ?a then _ else _] =>
              let E := fresh "E" in destruct (coord_ok a) eqn:E
          | |- context [if pos_ok ?a then _ else _] =>
              let E := fresh "E" in destruct (pos_ok a) eqn:E
          end);
  cbn [do_writes wr_ok wr_apply fst snd].

Ltac conn_finish :=
  intros H; inversion H; subst; clear H;
  unfold begin_x, begin_y, end_x, end_y; cbn;
  unfold pos_ok, coord_ok in *; repeat split; try reflexivity; try lia.

(** One successful assignment, stated for each of the four setters. *)
Lemma set_begin_x_ok c v c' :
  set_begin_x c v = (c', None) ->
  begin_x c' = v /\ end_x c' = end_x c /\ begin_y c' = begin_y c /\ end_y c' = end_y c /\
  0 <= c_cx c' /\ c_y c' = c_y c /\ c_cy c' = c_cy c /\ c_fv c' = c_fv c.
Proof.
  destruct c as [x y cx cy fh fv].
  unfold set_begin_x, cstep, cop_writes, begin_writes; cbn [c_x c_y c_cx c_cy c_fh c_fv].
  destruct fh; cbn zeta; conn_crush; try discriminate; conn_finish.
Qed.

Lemma set_end_x_ok c v c' :
  set_end_x c v = (c', None) ->
  end_x c' = v /\ begin_x c' = begin_x c /\ begin_y c' = begin_y c /\ end_y c' = end_y c /\
  0 <= c_cx c' /\ c_y c' = c_y c /\ c_cy c' = c_cy c /\ c_fv c' = c_fv c.
Proof.
  destruct c as [x y cx cy fh fv].
  unfold set_end_x, cstep, cop_writes, end_writes; cbn [c_x c_y c_cx c_cy c_fh c_fv].
  destruct fh; cbn zeta; conn_crush; try discriminate; conn_finish.
Qed.

Lemma set_begin_y_ok c v c' :
  set_begin_y c v = (c', None) ->
  begin_y c' = v /\ end_y c' = end_y c /\ begin_x c' = begin_x c /\ end_x c' = end_x c /\
  0 <= c_cy c' /\ c_x c' = c_x c /\ c_cx c' = c_cx c /\ c_fh c' = c_fh c.
Proof.
  destruct c as [x y cx cy fh fv].
  unfold set_begin_y, cstep, cop_writes, begin_writes; cbn [c_x c_y c_cx c_cy c_fh c_fv].
  destruct fv; cbn zeta; conn_crush; try discriminate; conn_finish.
Qed.

Lemma set_end_y_ok c v c' :
  set_end_y c v = (c', None) ->
  end_y c' = v /\ begin_y c' = begin_y c /\ begin_x c' = begin_x c /\ end_x c' = end_x c /\
  0 <= c_cy c' /\ c_x c' = c_x c /\ c_cx c' = c_cx c /\ c_fh c' = c_fh c.
Proof.
  destruct c as [x y cx cy fh fv].
  unfold set_end_y, cstep, cop_writes, end_writes; cbn [c_x c_y c_cx c_cy c_fh c_fv].
  destruct fv; cbn zeta; conn_crush; try discriminate; conn_finish.
Qed.

(** Any successful assignment refines the abstract step and keeps the invariant. *)
Lemma cstep_ok c op c' :
  Inv c -> cstep c op = (c', None) -> abs_conn c' = seg_step (abs_conn c) op /\ Inv c'.
Proof.
  intros [Hx Hy] H; destruct op as [v|v|v|v].
  - apply set_begin_x_ok in H. unfold abs_conn, seg_step, Inv; cbn.
    destruct H as (-> & -> & -> & -> & ? & ? & -> & ?); auto.
  - apply set_begin_y_ok in H. unfold abs_conn, seg_step, Inv; cbn.
    destruct H as (-> & -> & -> & -> & ? & ? & -> & ?); auto.
  - apply set_end_x_ok in H. unfold abs_conn, seg_step, Inv; cbn.
    destruct H as (-> & -> & -> & -> & ? & ? & -> & ?); auto.
  - apply set_end_y_ok in H. unfold abs_conn, seg_step, Inv; cbn.
    destruct H as (-> & -> & -> & -> & ? & ? & -> & ?); auto.
Qed.

(** Every history of successful assignments: the connector reads as the two end points
    obtained by performing the assignments on an abstract segment. *)
Lemma conn_history_ok ops : forall c c',
  Inv c -> conn_run_ok c ops = Some c' ->
  abs_conn c' = fold_left seg_step ops (abs_conn c) /\ Inv c'.
Proof.
  induction ops as [|op ops IH]; intros c c' HI H; cbn in *.
  - inversion H; subst; auto.
  - destruct (cstep c op) as [c1 [e|]] eqn:E; try discriminate.
    destruct (cstep_ok _ _ _ HI E) as [Ha HI1].
    destruct (IH _ _ HI1 H) as [Hb HI2]. rewrite Hb, Ha; auto.
Qed.

(** Values for which no attribute validation can fail: half of the coordinate range. *)
Definition BOUND : Z := 13636521158450.
Definition inb (v : Z) : Prop := - BOUND <= v <= BOUND.
Definition seg_bounded (s : seg) : Prop := inb (s_bx s) /\ inb (s_by s) /\ inb (s_ex s) /\ inb (s_ey s).
Definition cop_val (op : cop) : Z := match op with SetBX v | SetBY v | SetEX v | SetEY v => v end.

Lemma cstep_succeeds c op :
  Inv c -> seg_bounded (abs_conn c) -> inb (cop_val op) -> snd (cstep c op) = None.
Proof.
  destruct c as [x y cx cy fh fv]; unfold Inv, seg_bounded, abs_conn, inb, BOUND; cbn.
  unfold begin_x, begin_y, end_x, end_y; cbn.
  intros [Hx Hy] (Hbx & Hby & Hex & Hey) Hv.
  destruct op as [v|v|v|v]; cbn in Hv;
    unfold cstep, cop_writes, begin_writes, end_writes; cbn [c_x c_y c_cx c_cy c_fh c_fv].
  - destruct fh; cbn zeta; conn_crush; try reflexivity;
      exfalso; unfold pos_ok, coord_ok, COORD_LO, COORD_HI in *; lia.
  - destruct fv; cbn zeta; conn_crush; try reflexivity;
      exfalso; unfold pos_ok, coord_ok, COORD_LO, COORD_HI in *; lia.
  - destruct fh; cbn zeta; conn_crush; try reflexivity;
      exfalso; unfold pos_ok, coord_ok, COORD_LO, COORD_HI in *; lia.
  - destruct fv; cbn zeta; conn_crush; try reflexivity;
      exfalso; unfold pos_ok, coord_ok, COORD_LO, COORD_HI in *; lia.
Qed.

Lemma seg_step_bounded s op : seg_bounded s -> inb (cop_val op) -> seg_bounded (seg_step s op).
Proof.
  unfold seg_bounded; destruct op; cbn; intuition.
Qed.

(** Total version: on bounded values no assignment raises, so the history as the
    implementation runs it refines the abstract history. *)
Lemma conn_history_total ops : forall c,
  Inv c -> seg_bounded (abs_conn c) -> Forall (fun op => inb (cop_val op)) ops ->
  conn_run_ok c ops = Some (conn_run c ops) /\
  abs_conn (conn_run c ops) = fold_left seg_step ops (abs_conn c) /\ Inv (conn_run c ops).
Proof.
  induction ops as [|op ops IH]; intros c HI HB HF.
  - cbn; auto.
  - inversion HF as [|? ? Hop HF']; subst.
    pose proof (cstep_succeeds c op HI HB Hop) as Hs.
    change (conn_run c (op :: ops)) with (conn_run (fst (cstep c op)) ops).
    cbn [conn_run_ok fold_left].
    destruct (cstep c op) as [c1 e] eqn:E; cbn in Hs; subst e; cbn [fst].
    destruct (cstep_ok _ _ _ HI E) as [Ha HI1].
    assert (HB1 : seg_bounded (abs_conn c1)) by (rewrite Ha; apply seg_step_bounded; auto).
    destruct (IH c1 HI1 HB1 HF') as (H1 & H2 & H3).
    rewrite H1, H2, Ha; auto.
Qed.

(** A refused assignment is not atomic: an end point that was not assigned moves. *)
Lemma conn_set_failure_not_atomic :
  exists c v c' e, Inv c /\ set_begin_x c v = (c', Some e) /\ end_x c' <> end_x c.
Proof.
  exists (add_cxn 0 0 COORD_HI 5), (-1).
  eexists; eexists; split; [|split].
  - unfold Inv; cbn; lia.
  - vm_compute; reflexivity.
  - vm_compute; discriminate.
Qed.

Lemma conn_set_failure_swaps :
  exists c v c' e, Inv c /\ set_begin_x c v = (c', Some e) /\
                   begin_x c' = end_x c /\ end_x c' = begin_x c /\ begin_x c <> end_x c.
Proof.
  exists (add_cxn 10 0 0 5), (COORD_LO - 1).
  eexists; eexists; split; [|split; [|split; [|split]]].
  - unfold Inv; cbn; lia.
  - vm_compute; reflexivity.
  - vm_compute; reflexivity.
  - vm_compute; reflexivity.
  - vm_compute; discriminate.
Qed.

(* ================================================================== groups *)

Definition Consistent (s : shape) : Prop := consistentb s = true.
Definition AllConsistent (sl : list shape) : Prop := forallb consistentb sl = true.

Lemma recalc_g_box kids g : recalc_g kids = Ok g -> box_okb g kids = true.
Proof.
  unfold recalc_g, box_okb.
  destruct (child_extents kids) as [[[x y] cx] cy].
  destruct (coord_ok x && coord_ok y && pos_ok cx && pos_ok cy); intros H; inversion H; subst.
  cbn. rewrite !Z.eqb_refl. reflexivity.
Qed.

Lemma forallb_firstn {A} (f : A -> bool) l : forall i,
  forallb f l = true -> forallb f (firstn i l) = true.
Proof.
  induction l as [|a l IH]; intros [|i] H; cbn in *; auto.
  apply andb_true_iff in H as [Ha Hl]. rewrite Ha; cbn; auto.
Qed.

Lemma forallb_skipn {A} (f : A -> bool) l : forall i,
  forallb f l = true -> forallb f (skipn i l) = true.
Proof.
  induction l as [|a l IH]; intros [|i] H; cbn in *; auto.
  apply andb_true_iff in H as [Ha Hl]. auto.
Qed.

Lemma forallb_set_nth {A} (f : A -> bool) l i a :
  forallb f l = true -> f a = true -> forallb f (set_nth i a l) = true.
Proof.
  intros Hl Ha. unfold set_nth. rewrite forallb_app.
  change (forallb f (a :: skipn (S i) l)) with (f a && forallb f (skipn (S i) l)).
  rewrite forallb_firstn, Ha, forallb_skipn; auto.
Qed.

Lemma forallb_nth_error {A} (f : A -> bool) l i a :
  forallb f l = true -> nth_error l i = Some a -> f a = true.
Proof.
  intros Hl Hn. rewrite forallb_forall in Hl. apply Hl. eapply nth_error_In; eauto.
Qed.

Lemma nth_error_set_nth {A} (l : list A) : forall i a k,
  nth_error l i = Some k -> nth_error (set_nth i a l) i = Some a.
Proof.
  unfold set_nth.
  induction l as [|b l IH]; intros [|i] a k H; cbn in *; try discriminate; auto.
  eapply IH; eauto.
Qed.

(** Which parts of the tree an addition leaves literally unchanged: along the path
    exactly one member of each group is replaced (same position), every other member
    is the same term, and the new member is the last one of the receiving group. *)
Fixpoint frame_ok (p : list nat) (new s s' : shape) {struct p} : Prop :=
  match s, s' with
  | Grp g kids, Grp g' kids' =>
      match p with
      | [] => kids' = kids ++ [new]
      | i :: p' => exists k k', nth_error kids i = Some k /\ kids' = set_nth i k' kids /\
                                frame_ok p' new k k'
      end
  | _, _ => False
  end.

Lemma add_in_frame p : forall new rc s s', add_in p new rc s = Ok s' -> frame_ok p new s s'.
Proof.
  induction p as [|i p IH]; intros new rc [x y cx cy|g kids] s' H; cbn in H; try discriminate.
  - destruct rc.
    + destruct (recalc_g (kids ++ [new])); cbn in H; inversion H; subst; cbn; auto.
    + inversion H; subst; cbn; auto.
  - destruct (nth_error kids i) as [k|] eqn:En; try discriminate.
    destruct (add_in p new rc k) as [k'|e] eqn:Ea; cbn in H; try discriminate.
    assert (exists g', s' = Grp g' (set_nth i k' kids)) as [g' ->].
    { destruct rc.
      - destruct (recalc_g (set_nth i k' kids)); cbn in H; inversion H; eauto.
      - inversion H; eauto. }
    cbn. exists k, k'. repeat split; eauto.
Qed.

(** Every group on the path, from [s] down to the receiving group, has the bounding
    box of its members. *)
Fixpoint on_path_okb (p : list nat) (s : shape) {struct p} : bool :=
  match s with
  | Leaf _ _ _ _ => false
  | Grp g kids =>
      box_okb g kids &&
      match p with
      | [] => true
      | i :: p' => match nth_error kids i with Some k => on_path_okb p' k | None => false end
      end
  end.

Lemma add_in_path_ok p : forall new s s',
  add_in p new true s = Ok s' -> on_path_okb p s' = true.
Proof.
  induction p as [|i p IH]; intros new [x y cx cy|g kids] s' H; cbn in H; try discriminate.
  - destruct (recalc_g (kids ++ [new])) as [g'|] eqn:Er; cbn in H; inversion H; subst.
    cbn. rewrite (recalc_g_box _ _ Er). reflexivity.
  - destruct (nth_error kids i) as [k|] eqn:En; try discriminate.
    destruct (add_in p new true k) as [k'|e] eqn:Ea; cbn in H; try discriminate.
    destruct (recalc_g (set_nth i k' kids)) as [g'|] eqn:Er; cbn in H; inversion H; subst.
    cbn. rewrite (recalc_g_box _ _ Er), (nth_error_set_nth _ _ _ _ En). cbn. eapply IH; eauto.
Qed.

(** Additions that recalculate preserve consistency of the whole tree. *)
Lemma add_in_consistent p : forall new s s',
  Consistent s -> Consistent new -> add_in p new true s = Ok s' -> Consistent s'.
Proof.
  unfold Consistent.
  induction p as [|i p IH]; intros new [x y cx cy|g kids] s' Hs Hn H; cbn in H; try discriminate;
    cbn in Hs; apply andb_true_iff in Hs as [Hb Hk].
  - destruct (recalc_g (kids ++ [new])) as [g'|] eqn:Er; cbn in H; inversion H; subst.
    cbn. rewrite (recalc_g_box _ _ Er), forallb_app, Hk; cbn. rewrite Hn; reflexivity.
  - destruct (nth_error kids i) as [k|] eqn:En; try discriminate.
    destruct (add_in p new true k) as [k'|e] eqn:Ea; cbn in H; try discriminate.
    destruct (recalc_g (set_nth i k' kids)) as [g'|] eqn:Er; cbn in H; inversion H; subst.
    cbn. rewrite (recalc_g_box _ _ Er); cbn.
    apply forallb_set_nth; auto.
    apply (IH new k k'); auto. eapply forallb_nth_error; eauto.
Qed.

(** An addition that does not recalculate keeps consistency exactly when the bounding
    box of the receiving group is not changed by the new member. *)
Fixpoint unaffected (p : list nat) (new s : shape) {struct p} : Prop :=
  match s with
  | Leaf _ _ _ _ => True
  | Grp g kids =>
      match p with
      | [] => child_extents (kids ++ [new]) = child_extents kids
      | i :: p' => match nth_error kids i with Some k => unaffected p' new k | None => True end
      end
  end.

Lemma min_list_app h t a : min_list h (t ++ [a]) = Z.min (min_list h t) a.
Proof. unfold min_list. rewrite fold_left_app. reflexivity. Qed.
Lemma max_list_app h t a : max_list h (t ++ [a]) = Z.max (max_list h t) a.
Proof. unfold max_list. rewrite fold_left_app. reflexivity. Qed.

Lemma map_plus_ext {A} (f g : A -> Z) l : forall l',
  map f l' = map f l -> map g l' = map g l ->
  map (fun s => f s + g s) l' = map (fun s => f s + g s) l.
Proof.
  induction l as [|k r IH]; intros [|k' r'] Hf Hg; cbn in *; try discriminate; auto.
  inversion Hf; inversion Hg. f_equal; try lia. apply IH; auto.
Qed.

(** The extents of a group depend on a replaced member only through its four numbers. *)
Lemma child_extents_ext kids kids' :
  map sh_x kids' = map sh_x kids -> map sh_y kids' = map sh_y kids ->
  map sh_cx kids' = map sh_cx kids -> map sh_cy kids' = map sh_cy kids ->
  child_extents kids' = child_extents kids.
Proof.
  intros Hx Hy Hcx Hcy.
  pose proof (map_plus_ext sh_x sh_cx kids kids' Hx Hcx) as Hsx.
  pose proof (map_plus_ext sh_y sh_cy kids kids' Hy Hcy) as Hsy.
  destruct kids as [|k r], kids' as [|k' r']; cbn in *; try discriminate; auto.
  inversion Hx; inversion Hy; inversion Hsx; inversion Hsy. congruence.
Qed.

Lemma map_set_nth {A B} (f : A -> B) l : forall i a k,
  nth_error l i = Some k -> f a = f k -> map f (set_nth i a l) = map f l.
Proof.
  unfold set_nth.
  induction l as [|b l IH]; intros [|i] a k H E; cbn in *; try discriminate.
  - inversion H; subst. rewrite E. reflexivity.
  - f_equal. eapply IH; eauto.
Qed.

(** Without recalculation the xfrm of every group on the path stays what it was. *)
Lemma add_in_norecalc_xfrm p : forall new s s',
  add_in p new false s = Ok s' ->
  sh_x s' = sh_x s /\ sh_y s' = sh_y s /\ sh_cx s' = sh_cx s /\ sh_cy s' = sh_cy s.
Proof.
  destruct p as [|i p]; intros new [x y cx cy|g kids] s' H; cbn in H; try discriminate.
  - inversion H; subst; cbn; auto.
  - destruct (nth_error kids i) as [k|]; try discriminate.
    destruct (add_in p new false k) as [k'|e]; cbn in H; try discriminate.
    inversion H; subst; cbn; auto.
Qed.

Lemma add_in_norecalc_consistent p : forall new s s',
  Consistent s -> Consistent new -> unaffected p new s ->
  add_in p new false s = Ok s' -> Consistent s'.
Proof.
  unfold Consistent.
  induction p as [|i p IH]; intros new [x y cx cy|g kids] s' Hs Hn Hu H; cbn in H; try discriminate;
    cbn in Hs; apply andb_true_iff in Hs as [Hb Hk].
  - inversion H; subst. cbn in Hu. cbn.
    unfold box_okb in *. rewrite Hu, Hb, forallb_app, Hk; cbn. rewrite Hn; reflexivity.
  - destruct (nth_error kids i) as [k|] eqn:En; try discriminate.
    destruct (add_in p new false k) as [k'|e] eqn:Ea; cbn in H; try discriminate.
    inversion H; subst. cbn in Hu; rewrite En in Hu.
    destruct (add_in_norecalc_xfrm _ _ _ _ Ea) as (Ex & Ey & Ecx & Ecy).
    cbn. unfold box_okb in *.
    rewrite (child_extents_ext kids (set_nth i k' kids)); [rewrite Hb; cbn | | | |];
      try (eapply map_set_nth; eauto).
    apply forallb_set_nth; auto.
    apply (IH new k k'); auto. eapply forallb_nth_error; eauto.
Qed.

(** Slide level. *)
Definition slide_unaffected (p : list nat) (new : shape) (sl : slide) : Prop :=
  match p with
  | [] => True
  | i :: p' => match nth_error sl i with Some s => unaffected p' new s | None => True end
  end.

Definition gop_safe (sl : slide) (op : gop) : Prop :=
  Consistent (go_new op) /\
  (go_rc op = true \/ slide_unaffected (go_path op) (go_new op) sl).

Lemma gstep_consistent sl op sl' :
  AllConsistent sl -> gop_safe sl op -> gstep sl op = Ok sl' -> AllConsistent sl'.
Proof.
  unfold AllConsistent, gop_safe, gstep, slide_add.
  destruct op as [p new rc]; cbn [go_path go_new go_rc].
  intros Hs [Hn Hsafe] H.
  destruct p as [|i p].
  - inversion H; subst. rewrite forallb_app, Hs; cbn. unfold Consistent in Hn; rewrite Hn; reflexivity.
  - destruct (nth_error sl i) as [k|] eqn:En; try discriminate.
    destruct (add_in p new rc k) as [k'|e] eqn:Ea; cbn in H; try discriminate.
    inversion H; subst.
    apply forallb_set_nth; auto.
    pose proof (forallb_nth_error _ _ _ _ Hs En) as Hk.
    destruct rc.
    + exact (add_in_consistent p new k k' Hk Hn Ea).
    + destruct Hsafe as [?|Hu]; try discriminate. cbn in Hu; rewrite En in Hu.
      exact (add_in_norecalc_consistent p new k k' Hk Hn Hu Ea).
Qed.

(** A history every step of which is safe in the state it is performed in. *)
Fixpoint run_safe (sl : slide) (ops : list gop) : Prop :=
  match ops with
  | [] => True
  | op :: r => gop_safe sl op /\
               match gstep sl op with Ok sl' => run_safe sl' r | Err _ => True end
  end.

Lemma slide_history_consistent ops : forall sl sl',
  AllConsistent sl -> run_safe sl ops -> slide_run sl ops = Ok sl' -> AllConsistent sl'.
Proof.
  induction ops as [|op ops IH]; intros sl sl' Hs Hsafe H; cbn in *.
  - inversion H; subst; auto.
  - destruct Hsafe as [Hop Hrest].
    destruct (gstep sl op) as [sl1|e] eqn:E; cbn in H; try discriminate.
    apply (IH sl1 sl'); auto. exact (gstep_consistent sl op sl1 Hs Hop E).
Qed.

(** Slide-level frame and path statements for one addition. *)
Definition slide_frame_ok (p : list nat) (new : shape) (sl sl' : slide) : Prop :=
  match p with
  | [] => sl' = sl ++ [new]
  | i :: p' => exists k k', nth_error sl i = Some k /\ sl' = set_nth i k' sl /\ frame_ok p' new k k'
  end.

Definition slide_path_okb (p : list nat) (sl : slide) : bool :=
  match p with
  | [] => true
  | i :: p' => match nth_error sl i with Some k => on_path_okb p' k | None => false end
  end.

Lemma slide_add_spec p new rc sl sl' :
  slide_add p new rc sl = Ok sl' ->
  slide_frame_ok p new sl sl' /\ (rc = true -> slide_path_okb p sl' = true).
Proof.
  unfold slide_add, slide_frame_ok, slide_path_okb. destruct p as [|i p]; intros H.
  - inversion H; auto.
  - destruct (nth_error sl i) as [k|] eqn:En; try discriminate.
    destruct (add_in p new rc k) as [k'|e] eqn:Ea; cbn in H; try discriminate.
    inversion H; subst. split.
    + exists k, k'. repeat split; auto. eapply add_in_frame; eauto.
    + intros ->. rewrite (nth_error_set_nth _ _ _ _ En). eapply add_in_path_ok; eauto.
Qed.

(** The two additions the implementation performs without recalculation break
    consistency: an empty group (add_group_shape) and a leaf (a freeform shape). *)
Lemma add_empty_group_breaks :
  exists s s', Consistent s /\ Consistent (Grp gxf0 []) /\
               add_in [] (Grp gxf0 []) false s = Ok s' /\ ~ Consistent s'.
Proof.
  exists (Grp (mkG 100 100 50 50 100 100 50 50) [Leaf 100 100 50 50]).
  eexists. unfold Consistent. repeat split; try (vm_compute; reflexivity).
  vm_compute. discriminate.
Qed.

Lemma add_leaf_norecalc_breaks :
  exists s new s', Consistent s /\ Consistent new /\
                   add_in [] new false s = Ok s' /\ ~ Consistent s'.
Proof.
  exists (Grp (mkG 100 100 50 50 100 100 50 50) [Leaf 100 100 50 50]), (Leaf 10 10 500 500).
  eexists. unfold Consistent. repeat split; try (vm_compute; reflexivity).
  vm_compute. discriminate.
Qed.
