From V.lib Require Import Prelude.
From V.gen Require Import GenC13.
From V.model Require Import Placeholder.

Lemma no_unmodelled : n_unmodelled = 0%nat.
Proof. vm_compute. reflexivity. Qed.
