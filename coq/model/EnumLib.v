(** Model of pptx.enum.base.BaseXmlEnum over a member table, of the preset-shape table
    (pptx.spec.autoshape_types as used by shapes/autoshape.py) and of the chart-writer
    dispatch (chart/xmlwriter.py ChartXmlWriter).  Definitions only. *)
From V.lib Require Import Prelude Wire.

(** One row of an enumeration body, in definition order.  [m_xml = None] is the
    Python None, [Some []] the empty string: both mean -no XML value-. *)
Record member := {
  m_id : N;              (* global row number, used only to name rows *)
  m_name : str;
  m_value : Z;           (* the MS API integer, the Enum value *)
  m_xml : option str
}.

Definition token (m : member) : str := match m_xml m with Some s => s | None => [] end.
Definition has_xml (m : member) : bool := match m_xml m with Some (_ :: _) => true | _ => false end.

(** Python Enum: a row whose value equals the value of an earlier row does not create
    a member, its name becomes an alias of the earlier member and its own tuple is
    dropped.  [EnumCls(v)] and [EnumCls[name]] resolve to the first row with the value. *)
Fixpoint lookup_value (rows : list member) (v : Z) : option member :=
  match rows with
  | [] => None
  | m :: r => if Z.eqb (m_value m) v then Some m else lookup_value r v
  end.

(** Iteration order of the class: first occurrences of each value, definition order. *)
Fixpoint canonical (rows : list member) : list member :=
  match rows with
  | [] => []
  | m :: r => m :: filter (fun x => negb (Z.eqb (m_value x) (m_value m))) (canonical r)
  end.

Definition xml_is (s : str) (m : member) : bool :=
  match m_xml m with Some t => str_eqb t s | None => false end.

(** BaseXmlEnum.from_xml: the empty string never maps; first member in iteration order
    whose xml_value equals the string; ValueError when there is none. *)
Definition from_xml (rows : list member) (s : str) : res member :=
  match s with
  | [] => Err ValueErr
  | _ => match find (xml_is s) (canonical rows) with
         | Some m => Ok m
         | None => Err ValueErr
         end
  end.

(** BaseXmlEnum.to_xml: [cls(value)] (ValueError when no member has the value), then
    ValueError when the member has no XML value. *)
Definition to_xml (rows : list member) (v : Z) : res str :=
  match lookup_value rows v with
  | None => Err ValueErr
  | Some m => if has_xml m then Ok (token m) else Err ValueErr
  end.

(** [EnumCls[name]]: KeyError for an unknown name; aliases give the canonical member. *)
Definition by_name (rows : list member) (n : str) : res member :=
  match find (fun m => str_eqb (m_name m) n) rows with
  | None => Err KeyErr
  | Some r => match lookup_value rows (m_value r) with
              | Some c => Ok c
              | None => Err KeyErr
              end
  end.

(** The canonical member a row stands for. *)
Definition canon_of (rows : list member) (m : member) : member :=
  match lookup_value rows (m_value m) with Some c => c | None => m end.

Definition is_alias (rows : list member) (m : member) : bool :=
  negb (N.eqb (m_id (canon_of rows m)) (m_id m)).

Record enum := { e_id : N; e_name : str; e_rows : list member }.

Definition find_enum (es : list enum) (n : str) : option enum :=
  find (fun e => str_eqb (e_name e) n) es.
Definition enum_by_id (es : list enum) (i : N) : option enum :=
  find (fun e => N.eqb (e_id e) i) es.

(** number of members (in iteration order) carrying the token [t] *)
Definition token_count (rows : list member) (t : str) : nat :=
  length (filter (xml_is t) (canonical rows)).

Definition member_eqb (a b : member) : bool := N.eqb (m_id a) (m_id b).

(** The per-row statement of the property, decidable form: the row resolves to a member
    whose token is carried by no other member, from_xml (to_xml row) is that member, and
    the tuple written on an alias row names the same token as the member it resolves to. *)
Definition bij_ok (rows : list member) (m : member) : bool :=
  let c := canon_of rows m in
  Nat.eqb (token_count rows (token c)) 1
  && match to_xml rows (m_value m) with
     | Ok t => match from_xml rows t with Ok m' => member_eqb m' c | Err _ => false end
     | Err _ => false
     end
  && match m_xml m, m_xml c with
     | Some a, Some b => str_eqb a b
     | None, None => true
     | _, _ => false
     end.

(** Schema simple types: the tokens of the xsd:enumeration facets, or [None] when the
    type is not an enumeration (any string is in its lexical space, e.g. ST_Lang). *)
Record stype := { s_id : N; s_tokens : option (list str) }.
Definition in_stype (s : stype) (t : str) : bool :=
  match s_tokens s with None => true | Some l => mem_str t l end.
Definition stype_by_id (ss : list stype) (i : N) : option stype :=
  find (fun s => N.eqb (s_id s) i) ss.
Definition token_in (ss : list stype) (i : N) (t : str) : bool :=
  match stype_by_id ss i with Some s => in_stype s t | None => false end.

(** One use of an enumeration as the type of an attribute. *)
Record use := { u_id : N; u_enum : N; u_stype : N }.

(** Preset table (pptx.spec.autoshape_types) and the standard's definitions. *)
Record spec_row := { sp_value : Z; sp_av : list (str * Z) }.
Record preset_def := { pd_name : str; pd_av : list (str * str) }.  (* gd name, fmla *)

Definition w_val_ : str := [118; 97; 108; 32]%N.   (* -val - *)
Definition parse_val (f : str) : option Z :=
  if starts_with w_val_ f then parse_Z (skipn 4 f) else None.

Definition find_spec (tbl : list spec_row) (v : Z) : option spec_row :=
  find (fun r => Z.eqb (sp_value r) v) tbl.
Definition find_def (defs : list preset_def) (n : str) : option preset_def :=
  find (fun d => str_eqb (pd_name d) n) defs.

Definition optZ_eqb (a b : option Z) : bool :=
  match a, b with Some x, Some y => Z.eqb x y | None, None => true | _, _ => false end.

Fixpoint av_eqb (a : list (str * Z)) (d : list (str * str)) : bool :=
  match a, d with
  | [], [] => true
  | (n, v) :: a', (n', f) :: d' => str_eqb n n' && optZ_eqb (Some v) (parse_val f) && av_eqb a' d'
  | _, _ => false
  end.

Definition preset_ok (tbl : list spec_row) (defs : list preset_def) (m : member) : bool :=
  match find_spec tbl (m_value m), find_def defs (token m) with
  | Some sp, Some d => has_xml m && av_eqb (sp_av sp) (pd_av d)
  | _, _ => false
  end.

(** AutoShapeType.default_adjustment_values: autoshape_types[member] (KeyError). *)
Definition default_adjustments (tbl : list spec_row) (v : Z) : res (list (str * Z)) :=
  match find_spec tbl v with Some sp => Ok (sp_av sp) | None => Err KeyErr end.

(** AdjustmentCollection: state = the a:gd guides of a:prstGeom/a:avLst (name, val N). *)
Record adj := { a_name : str; a_def : Z; a_actual : option Z }.
Definition adj_val (a : adj) : Z := match a_actual a with Some v => v | None => a_def a end.

(** dict((adj.name, adj) for adj in adjustments): a later adjustment of the same name
    replaces the earlier one, so a guide updates the LAST adjustment with its name. *)
Fixpoint last_index (n : str) (l : list adj) (i : nat) (acc : option nat) : option nat :=
  match l with
  | [] => acc
  | a :: r => last_index n r (S i) (if str_eqb (a_name a) n then Some i else acc)
  end.

Fixpoint set_actual (i : nat) (v : Z) (l : list adj) : list adj :=
  match l, i with
  | [], _ => []
  | a :: r, O => {| a_name := a_name a; a_def := a_def a; a_actual := Some v |} :: r
  | a :: r, S j => a :: set_actual j v r
  end.

Definition apply_guide (l : list adj) (g : str * Z) : list adj :=
  match last_index (fst g) l 0 None with
  | Some i => set_actual i (snd g) l
  | None => l
  end.

(** _initialized_adjustments: prstGeom.prst (from_xml of the attribute: ValueError),
    the table row of that member (KeyError), then the guides in document order. *)
Definition init_adjustments (rows : list member) (tbl : list spec_row)
           (prst : str) (guides : list (str * Z)) : res (list adj) :=
  bind (from_xml rows prst) (fun m =>
  bind (default_adjustments tbl (m_value m)) (fun av =>
  Ok (fold_left apply_guide guides
        (map (fun p => {| a_name := fst p; a_def := snd p; a_actual := None |}) av)))).

(** Python list index: negative counts from the end; IndexError outside. *)
Definition py_index (len : nat) (i : Z) : res nat :=
  let n := Z.of_nat len in
  if (0 <=? i)%Z && (i <? n)%Z then Ok (Z.to_nat i)
  else if (i <? 0)%Z && (- n <=? i)%Z then Ok (Z.to_nat (n + i))
  else Err IndexErr.

(** adjustments[idx] = value on a freshly read collection, then _rewrite_guides:
    every adjustment is written out as (name, val). *)
Definition adj_step (rows : list member) (tbl : list spec_row) (prst : str)
           (guides : list (str * Z)) (op : Z * Z) : res (list (str * Z)) :=
  bind (init_adjustments rows tbl prst guides) (fun l =>
  bind (py_index (length l) (fst op)) (fun i =>
  Ok (map (fun a => (a_name a, adj_val a)) (set_actual i (snd op) l)))).

Fixpoint adj_run (rows : list member) (tbl : list spec_row) (prst : str)
         (guides : list (str * Z)) (ops : list (Z * Z)) : res (list (str * Z)) :=
  match ops with
  | [] => Ok guides
  | op :: r => bind (adj_step rows tbl prst guides op) (fun g => adj_run rows tbl prst g r)
  end.

(** Chart types: the dispatch dict of ChartXmlWriter, what each writer emitted on this
    run (enumerated attribute values with the simple type of the attribute), and the
    type PlotTypeInspector reports for the written chart. *)
Record chart_row := {
  c_id : N;
  c_value : Z;
  c_writer : N;
  c_tokens : list (N * str);
  c_inspected : option Z
}.

Definition writer_dispatch (rows : list chart_row) (v : Z) : res N :=
  match find (fun r => Z.eqb (c_value r) v) rows with
  | Some r => Ok (c_writer r)
  | None => Err OtherErr      (* NotImplementedError *)
  end.

Definition memZ (z : Z) (l : list Z) : bool := existsb (Z.eqb z) l.

Definition chart_ok (ss : list stype) (types : list (str * Z)) (r : chart_row) : bool :=
  memZ (c_value r) (map snd types)
  && forallb (fun p => token_in ss (fst p) (snd p)) (c_tokens r)
  && optZ_eqb (c_inspected r) (Some (c_value r)).

Fixpoint nodupZ (l : list Z) : bool :=
  match l with [] => true | x :: r => negb (memZ x r) && nodupZ r end.

(** Decidable per-entry checks used by the instance theorems and the diagnostics. *)
Definition memNN (p : N * N) (l : list (N * N)) : bool :=
  existsb (fun q => N.eqb (fst p) (fst q) && N.eqb (snd p) (snd q)) l.

(** what a recorded finding says the token of row [m] resolves to: the row with id [j] *)
Definition back_is (rows : list member) (m : member) (j : N) : bool :=
  match from_xml rows (token (canon_of rows m)) with Ok m' => N.eqb (m_id m') j | Err _ => false end.
Definition back_of (kb : list (N * N)) (i : N) : option N :=
  match find (fun q => N.eqb (fst q) i) kb with Some q => Some (snd q) | None => None end.

(** rows whose member has no XML value are outside the property *)
Definition bij_row_ok (rows : list member) (m : member) : bool :=
  negb (has_xml (canon_of rows m)) || bij_ok rows m.

Definition tok_ok (ss : list stype) (u : use) (m : member) : bool :=
  negb (has_xml m) || token_in ss (u_stype u) (token m).

Definition use_rows (es : list enum) (u : use) : list member :=
  match enum_by_id es (u_enum u) with Some e => canonical (e_rows e) | None => [] end.
