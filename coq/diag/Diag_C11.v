(** Diagnostics for C11: rows whose write / read obligation fails (verdict 1) and rows not
    judged (verdict 2).  No obligations here. *)
From V.lib Require Import Prelude PyFloat PyVal.
From V.model Require Import SimpleTypeLib.
From V.gen Require Import GenC11.
Eval vm_compute in (7001%N :: map ar_id (filter (fun r => N.eqb (w_verdict r) 1) rows)).
Eval vm_compute in (7002%N :: map ar_id (filter (fun r => N.eqb (r_verdict r) 1) rows)).
Eval vm_compute in (7003%N :: map ar_id (filter (fun r => N.eqb (w_verdict r) 2) rows)).
Eval vm_compute in (7004%N :: map ar_id (filter (fun r => N.eqb (r_verdict r) 2) rows)).
Eval vm_compute in (7005%N :: map ar_id (filter (fun r => negb (rt_ok_b r)) rows)).
