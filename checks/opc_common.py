"""Shared python side of the C01 / C16 checks.

* an independent minimal OPC writer (zipfile + hand-written XML), no use of pptx;
* an independent reader (zipfile + lxml) that decodes a physical package into the
  structural form the Coq model consumes (model/OpcRun.v wire format) and into the
  form the oracles use;
* the random package-graph generator;
* the implementation runner (pptx.opc.package.OpcPackage / pptx.Presentation) and the
  observation of the loaded graph and of the saved package.
"""
import io
import os
import posixpath
import warnings
import zipfile

from lxml import etree

from corr.harness import exc_name

NS_PR = "http://schemas.openxmlformats.org/package/2006/relationships"
NS_CT = "http://schemas.openxmlformats.org/package/2006/content-types"
RT_BASE = "http://schemas.openxmlformats.org/officeDocument/2006/relationships/"
RT_OD = RT_BASE + "officeDocument"
CT_NAME = "[Content_Types].xml"

_parser = etree.XMLParser(remove_blank_text=True, resolve_entities=False)


# ----------------------------------------------------------------------------- writer
def esc_attr(s):
    out = []
    for ch in s:
        if ch == "&":
            out.append("&amp;")
        elif ch == "<":
            out.append("&lt;")
        elif ch == ">":
            out.append("&gt;")
        elif ch == '"':
            out.append("&quot;")
        elif ch in "\t\n\r":
            out.append("&#%d;" % ord(ch))
        else:
            out.append(ch)
    return "".join(out)


def rels_xml(rels, explicit_internal=False, pretty=False):
    """rels: list of (id, type, target, mode) with mode 'Internal' | 'External' | other text."""
    nl = "\n  " if pretty else ""
    parts = ['<?xml version="1.0" encoding="UTF-8" standalone="yes"?>\n<Relationships xmlns="%s">' % NS_PR]
    for rid, rtype, target, mode in rels:
        tm = ""
        if mode != "Internal" or explicit_internal:
            tm = ' TargetMode="%s"' % esc_attr(mode)
        parts.append('%s<Relationship Id="%s" Type="%s" Target="%s"%s/>' % (nl, esc_attr(rid), esc_attr(rtype), esc_attr(target), tm))
    parts.append(("\n" if pretty else "") + "</Relationships>")
    return "".join(parts).encode("utf-8")


def ct_xml(defaults, overrides):
    parts = ['<?xml version="1.0" encoding="UTF-8" standalone="yes"?>\n<Types xmlns="%s">' % NS_CT]
    for ext, ct in defaults:
        parts.append('<Default Extension="%s" ContentType="%s"/>' % (esc_attr(ext), esc_attr(ct)))
    for pn, ct in overrides:
        parts.append('<Override PartName="%s" ContentType="%s"/>' % (esc_attr(pn), esc_attr(ct)))
    parts.append("</Types>")
    return "".join(parts).encode("utf-8")


def zip_bytes(members):
    buf = io.BytesIO()
    with warnings.catch_warnings():
        warnings.simplefilter("ignore")
        with zipfile.ZipFile(buf, "w", zipfile.ZIP_DEFLATED) as z:
            for name, data in members:
                z.writestr(zipfile.ZipInfo(name, (1980, 1, 1, 0, 0, 0)), data)
    return buf.getvalue()


def write_dir(members, root):
    for name, data in members:
        path = os.path.join(root, *name.split("/"))
        os.makedirs(os.path.dirname(path), exist_ok=True)
        with open(path, "wb") as f:
            f.write(data)


def dir_entries(members):
    """Directories of the tree a member list is laid out as (names without trailing slash)."""
    dirs = set()
    for n, _ in members:
        segs = n.split("/")
        for i in range(1, len(segs)):
            dirs.add("/".join(segs[:i]))
    return sorted(dirs)


def dir_safe(members):
    """Can this member list be laid out as a directory tree without a file/directory clash?"""
    names = [n for n, _ in members]
    if len(set(names)) != len(names):
        return False
    dirs = set()
    for n in names:
        if not n or n.endswith("/") or "//" in n or n.startswith("/") or "\x00" in n:
            return False
        segs = n.split("/")
        if any(s in (".", "..") for s in segs):
            return False
        for i in range(1, len(segs)):
            dirs.add("/".join(segs[:i]))
    return not (dirs & set(names))


# ----------------------------------------------------------------------------- reader
def read_zip(data):
    """Ordered (name, bytes) list of a zip given as bytes."""
    with zipfile.ZipFile(io.BytesIO(data), "r") as z:
        return [(i.filename, z.read(i)) for i in z.infolist()]


def as_dict(members):
    """zipfile semantics: {name: z.read(name)} resolves a duplicated name to its last entry."""
    d = {}
    for n, b in members:
        d[n] = b
    return d


def well_formed(data):
    try:
        etree.fromstring(data, _parser)
        return True
    except Exception:  # noqa
        return False


def canon(data):
    """Canonical form of an XML payload (blank text removed, C14N)."""
    root = etree.fromstring(data, _parser)
    return etree.tostring(root, method="c14n")


def decode_rels(data):
    """None if not a Relationships document; else list of (id, type, target, mode)."""
    try:
        root = etree.fromstring(data, _parser)
    except Exception:  # noqa
        return None
    if root.tag != "{%s}Relationships" % NS_PR:
        return None
    out = []
    for r in root.findall("{%s}Relationship" % NS_PR):
        if r.get("Id") is None or r.get("Type") is None or r.get("Target") is None:
            return None
        out.append((r.get("Id"), r.get("Type"), r.get("Target"), r.get("TargetMode", "Internal")))
    return out


def decode_ct(data):
    try:
        root = etree.fromstring(data, _parser)
    except Exception:  # noqa
        return None
    if root.tag != "{%s}Types" % NS_CT:
        return None
    ds, os_ = [], []
    for d in root.findall("{%s}Default" % NS_CT):
        if d.get("Extension") is None or d.get("ContentType") is None:
            return None
        ds.append((d.get("Extension"), d.get("ContentType")))
    for o in root.findall("{%s}Override" % NS_CT):
        if o.get("PartName") is None or o.get("ContentType") is None:
            return None
        os_.append((o.get("PartName"), o.get("ContentType")))
    return ds, os_


MODE_CODE = {"Internal": "0", "External": "1"}


class Payloads:
    """Token table: the model sees payloads as numbers."""

    def __init__(self):
        self.by_bytes = {}
        self.items = []

    def tok(self, data):
        t = self.by_bytes.get(data)
        if t is None:
            t = len(self.items) + 1
            self.by_bytes[data] = t
            self.items.append(data)
        return t

    def get(self, t):
        return self.items[t - 1]


def wire_package(members, pay):
    """Fields of one package for model/OpcRun.v; `members` ordered (name, bytes), names unique."""
    fs = [str(len(members))]
    for name, data in members:
        fs += ["/" + name, str(pay.tok(data)), "1" if well_formed(data) else "0"]
        rl = decode_rels(data)
        ct = decode_ct(data) if rl is None else None
        if rl is not None:
            fs += ["r", str(len(rl))]
            for rid, rtype, target, mode in rl:
                fs += [rid, rtype, target, MODE_CODE.get(mode, "2")]
        elif ct is not None:
            fs += ["c", str(len(ct[0]))]
            for a, b in ct[0]:
                fs += [a, b]
            fs.append(str(len(ct[1])))
            for a, b in ct[1]:
                fs += [a, b]
        else:
            fs.append("b")
    return fs


# ----------------------------------------------------------------------------- model output
def _dec(field):
    field = field.strip()
    if not field:
        return ""
    return "".join(chr(int(t)) for t in field.split(" "))


class Cursor:
    def __init__(self, fields):
        self.f = fields
        self.i = 0

    def raw(self):
        v = self.f[self.i]
        self.i += 1
        return v

    def s(self):
        return _dec(self.raw())

    def n(self):
        return int(self.raw())


def parse_lrels(cur):
    out = []
    for _ in range(cur.n()):
        rid, rtype, ext, target = cur.s(), cur.s(), cur.raw(), cur.s()
        out.append((rid, rtype, ext == "True", target))
    return out


def parse_graph(cur):
    krels = parse_lrels(cur)
    parts = []
    for _ in range(cur.n()):
        name, ct, tok, flag = cur.s(), cur.s(), cur.n(), cur.n()
        parts.append((name, ct, tok, flag, parse_lrels(cur)))
    return krels, parts


def parse_package(cur):
    out = []
    for _ in range(cur.n()):
        name, tok, flag, kind = cur.s(), cur.n(), cur.n(), cur.raw()
        if kind == "b":
            out.append((name, ("b", tok, flag)))
        elif kind == "r":
            rl = []
            for _ in range(cur.n()):
                rid, rtype, target, mode = cur.s(), cur.s(), cur.s(), cur.raw()
                rl.append((rid, rtype, target, mode))
            out.append((name, ("r", rl, tok)))
        elif kind == "c":
            ds = [(cur.s(), cur.s()) for _ in range(cur.n())]
            os_ = [(cur.s(), cur.s()) for _ in range(cur.n())]
            out.append((name, ("c", ds, os_, tok)))
        else:
            raise ValueError("bad member kind %r" % kind)
    return out


def parse_rt(line):
    """-> ('err', cls) | ('ok', graph, saved members, second, (wfb, no_default_clashb))"""
    if line.startswith("err:"):
        return ("err", line[4:])
    fs = line.split("|")
    if fs[0] != "ok":
        return ("bad", line)
    cur = Cursor(fs)
    cur.raw()
    hyp = (cur.raw() == "True", cur.raw() == "True")     # wfb, no_default_clashb
    graph = parse_graph(cur)
    saved = parse_package(cur)
    second = cur.raw()
    return ("ok", graph, saved, second, hyp)


def parse_pres(line):
    if line in ("notfound", "badzip", "badcase") or line.startswith("err:"):
        return (line,)
    fs = line.split("|")
    cur = Cursor(fs)
    cur.raw()
    main = cur.s()
    graph = parse_graph(cur)
    r = cur.raw()
    if r == "ok":
        renamed = ("ok", [cur.s() for _ in range(cur.n())])
    else:
        renamed = (r,)
    return ("ok", main, graph, renamed)


def parse_reg(line):
    return parse_package(Cursor(line.split("|")))


def members_from_model(pkg, pay):
    """Real bytes for a package printed by the model: token 0 marks an item the model wrote."""
    out = []
    for name, m in pkg:
        tok = m[1] if m[0] == "b" else m[-1]
        if tok > 0:
            data = pay.get(tok)
        elif m[0] == "r":
            data = rels_xml([(a, b, c, {"0": "Internal", "1": "External"}.get(d, "Bogus")) for a, b, c, d in m[1]])
        elif m[0] == "c":
            data = ct_xml(m[1], m[2])
        else:
            data = b""
        out.append((name[1:], data))
    return out


# ----------------------------------------------------------------------------- implementation
def impl_graph(pkg, pay):
    """(package rels, parts in iter_parts order) in the shape of parse_graph; payloads as
    (tok, flag): a payload equal to a known token is (tok, 1|0); an XML part whose bytes are
    canonically equal to exactly the original is reported by the caller."""
    def lrels(rels):
        out = []
        for rel in rels.values():
            if rel.is_external:
                out.append((rel.rId, rel.reltype, True, rel.target_ref))
            else:
                out.append((rel.rId, rel.reltype, False, str(rel.target_part.partname)))
        return out

    parts = []
    for part in pkg.iter_parts():
        parts.append((str(part.partname), part.content_type, part.blob, lrels(part.rels)))
    return lrels(pkg._rels), parts


def open_opc(pkg_file):
    import pptx  # noqa: F401  registers the part classes
    from pptx.opc.package import OpcPackage

    with warnings.catch_warnings():
        warnings.simplefilter("ignore")
        return OpcPackage.open(pkg_file)


def save_bytes(pkg):
    buf = io.BytesIO()
    with warnings.catch_warnings():
        warnings.simplefilter("ignore")
        pkg.save(buf)
    return buf.getvalue()


def impl_roundtrip(pkg_file):
    """-> ('err', cls, text) | ('ok', graph, saved1 members, second 'same'|'diff'|'err:cls')"""
    try:
        pkg = open_opc(pkg_file)
        graph = impl_graph(pkg, None)
        s1 = save_bytes(pkg)
    except Exception as e:  # noqa
        return ("err", exc_name(e), "%s: %s" % (type(e).__name__, str(e)[:200]))
    m1 = read_zip(s1)
    try:
        s2 = save_bytes(open_opc(io.BytesIO(s1)))
        m2 = read_zip(s2)
        d1, d2 = as_dict(m1), as_dict(m2)
        second = "same" if (d1 == d2 and len(m1) == len(m2)) else "diff"
    except Exception as e:  # noqa
        second = "err:" + exc_name(e)
        m2 = None
    return ("ok", graph, m1, second, m2)


def payload_matches(data, orig, flag):
    """flag 0/1: bytes identical; flag 2: re-serialised XML, equal up to XML equivalence."""
    if flag in (0, 1):
        return data == orig
    try:
        return canon(data) == canon(orig)
    except Exception:  # noqa
        return False


def diff_graph(model_graph, impl_g, pay):
    """List of differences between the model's loaded graph and the implementation's."""
    out = []
    mk, mp = model_graph
    ik, ip = impl_g
    if mk != ik:
        out.append("package rels: model %r impl %r" % (mk, ik))
    if [p[0] for p in mp] != [p[0] for p in ip]:
        out.append("parts (iter_parts order): model %r impl %r" % ([p[0] for p in mp], [p[0] for p in ip]))
        return out
    for (mn, mct, tok, flag, mrels), (in_, ict, blob, irels) in zip(mp, ip):
        if mct != ict:
            out.append("content type of %s: model %r impl %r" % (mn, mct, ict))
        if mrels != irels:
            out.append("rels of %s: model %r impl %r" % (mn, mrels, irels))
        if not payload_matches(blob, pay.get(tok), flag):
            out.append("payload of %s differs (flag %d)" % (mn, flag))
    return out


def diff_saved(model_saved, impl_members, pay):
    out = []
    mnames = [n for n, _ in model_saved]
    inames = ["/" + n for n, _ in impl_members]
    if mnames != inames:
        out.append("saved members: model %r impl %r" % (mnames, inames))
        return out
    for (name, m), (_n, data) in zip(model_saved, impl_members):
        if m[0] == "c":
            got = decode_ct(data)
            if got is None or (got[0], got[1]) != (m[1], m[2]):
                out.append("content types item: model %r impl %r" % ((m[1], m[2]), got))
        elif m[0] == "r":
            got = decode_rels(data)
            want = [(a, b, c, {"0": "Internal", "1": "External"}.get(d, "?")) for a, b, c, d in m[1]]
            if got != want:
                out.append("rels item %s: model %r impl %r" % (name, want, got))
        else:
            if not payload_matches(data, pay.get(m[1]), m[2]):
                out.append("payload of %s differs (flag %d)" % (name, m[2]))
    return out


# ----------------------------------------------------------------------------- independent reading of OPC
def resolve_ref(base_dir, ref):
    """RFC 3986 style resolution of a relationship target against the source's directory
    (independent of pptx: posixpath only)."""
    if ref.startswith("/"):
        joined = ref
    else:
        joined = base_dir.rstrip("/") + "/" + ref
    segs = []
    for s in joined.split("/"):
        if s in ("", "."):
            continue
        if s == "..":
            if segs:
                segs.pop()
            continue
        segs.append(s)
    return "/" + "/".join(segs)


def rels_name(partname):
    if partname == "/":
        return "_rels/.rels"
    d, f = posixpath.split(partname)
    return (d.rstrip("/") + "/_rels/" + f + ".rels").lstrip("/")


def ct_of(ct, partname):
    """Content type per OPC 10.1.2.4: Override by part name, else Default by extension; both
    compared case-insensitively (ASCII)."""
    ds, os_ = ct
    for pn, t in os_:
        if pn.lower() == partname.lower():
            return t
    ext = partname.rsplit("/", 1)[-1]
    ext = ext.rsplit(".", 1)[1] if "." in ext else ""
    for e, t in ds:
        if e.lower() == ext.lower():
            return t
    return None


def logical(members):
    """Independent reading of a physical package: reachable parts with type, payload and
    relationships (dangling internal relationships left out).  Returns None when the package
    has no readable content types item."""
    d = as_dict(members)
    if CT_NAME not in d:
        return None
    ct = decode_ct(d[CT_NAME])
    if ct is None:
        return None

    def rels_of(partname):
        data = d.get(rels_name(partname))
        if data is None:
            return []
        return decode_rels(data) or []

    base = lambda pn: "/" if pn == "/" else (posixpath.split(pn)[0] or "/")  # noqa: E731
    out_rels, order, seen = {}, [], set()
    stack = ["/"]
    while stack:
        src = stack.pop()
        if src in seen:
            continue
        seen.add(src)
        order.append(src)
        kept = []
        for rid, rtype, target, mode in rels_of(src):
            if mode == "External":
                kept.append((rid, rtype, True, target))
                continue
            t = resolve_ref(base(src), target)
            if t != "/" and t[1:] in d:
                kept.append((rid, rtype, False, t))
                stack.append(t)
        out_rels[src] = kept
    parts = {}
    for pn in order:
        if pn == "/":
            continue
        parts[pn] = (ct_of(ct, pn), d[pn[1:]], out_rels[pn])
    return out_rels["/"], parts


# ----------------------------------------------------------------------------- generator
CT_X = {
    "pres": "application/vnd.openxmlformats-officedocument.presentationml.presentation.main+xml",
    "slide": "application/vnd.openxmlformats-officedocument.presentationml.slide+xml",
    "layout": "application/vnd.openxmlformats-officedocument.presentationml.slideLayout+xml",
    "master": "application/vnd.openxmlformats-officedocument.presentationml.slideMaster+xml",
    "core": "application/vnd.openxmlformats-package.core-properties+xml",
    "chart": "application/vnd.openxmlformats-officedocument.drawingml.chart+xml",
    "theme": "application/vnd.openxmlformats-officedocument.theme+xml",
    "xml": "application/xml",
    "pml_ps": "application/vnd.openxmlformats-officedocument.presentationml.printerSettings",
    "sml_ps": "application/vnd.openxmlformats-officedocument.spreadsheetml.printerSettings",
    "wml_ps": "application/vnd.openxmlformats-officedocument.wordprocessingml.printerSettings",
    "png": "image/png", "jpeg": "image/jpeg", "gif": "image/gif", "xlsx": "application/vnd.openxmlformats-officedocument.spreadsheetml.sheet",
    "custom": "application/x-verif-custom", "vml": "application/vnd.openxmlformats-officedocument.vmlDrawing",
    "ole": "application/vnd.openxmlformats-officedocument.oleObject",
}
# extension -> candidate content types (first ones are those the default table knows for the extension)
EXT_TYPES = {
    "xml": ["xml", "slide", "layout", "master", "pres", "core", "chart", "theme", "custom"],
    "bin": ["pml_ps", "sml_ps", "wml_ps", "ole", "custom"],
    "png": ["png", "custom"], "jpeg": ["jpeg"], "jpg": ["jpeg", "png"], "gif": ["gif"],
    "xlsx": ["xlsx"], "vml": ["vml", "custom"], "dat": ["custom", "png"], "": ["custom", "ole"],
    "rels2": ["custom"],
}
DIRS = ["", "ppt", "ppt/slides", "ppt/slideLayouts", "ppt/media", "docProps", "customXml",
        "ppt/embeddings", "a/b/c/d/e", "x y", "A", "ppt/printerSettings", "dé/我"]
STEMS = ["slide", "image", "data", "printerSettings", "Thing", "naïf", "我", "app", "core", "x.y", "item"]
RTYPES = [RT_OD, RT_BASE + "slide", RT_BASE + "image", RT_BASE + "slideLayout", RT_BASE + "hyperlink",
          "http://schemas.openxmlformats.org/package/2006/relationships/metadata/core-properties",
          "urn:verif:custom-rel", RT_BASE + "printerSettings"]
EXTERNALS = ["https://example.com/a?b=1&c=2", "file:///C:/x%20y.pptx", "../outside/thing.xml", "mailto:a@b.c",
             "NULL", "", "http://x/\u00e9\"<>'"]
XML_CLASS = {"pres", "slide", "layout", "master", "core", "chart"}   # registered XmlPart classes


_LIVE_TYPES = []


def live_part_types():
    """[(content type, loads as an XML part)] for every key of the live PartFactory.part_type_for, sorted"""
    if not _LIVE_TYPES:
        import pptx  # noqa: F401  (fills the table)
        from pptx.opc.package import PartFactory, XmlPart

        for k, cls in sorted(PartFactory.part_type_for.items()):
            _LIVE_TYPES.append((str(k), isinstance(cls, type) and issubclass(cls, XmlPart)))
    return _LIVE_TYPES


# the two main-part content types of a presentation python-pptx opens, spelled as the standard / Office spell them
# (literals of the harness: the constants of the tree under test are what is being judged)
STD_PPTX_MAIN = "application/vnd.openxmlformats-officedocument.presentationml.presentation.main+xml"
STD_MACRO_MAIN = "application/vnd.ms-powerpoint.presentation.macroEnabled.main+xml"


def ascii_upper(s):
    return "".join(c.upper() if c.isascii() else c for c in s)


def ascii_swap(s):
    return "".join(c.swapcase() if c.isascii() else c for c in s)


def flip_case(rng, s):
    return "".join((c.upper() if rng.random() < 0.5 else c.lower()) if c.isascii() else c for c in s)


def rand_xml(rng):
    ns = rng.choice(["", ' xmlns="urn:v:d"', ' xmlns:p="urn:v:p" xmlns:a="urn:v:a"'])
    pfx = "p:" if "xmlns:p" in ns else ""
    body = []
    for _ in range(rng.randint(0, 4)):
        k = rng.random()
        if k < 0.3:
            body.append("<%sc a=\"%s\"/>" % (pfx, esc_attr(rng.choice(["1", "x y", "é", "<&>", "a\tb"]))))
        elif k < 0.5:
            body.append("\n  <%sd>  </%sd>\n" % (pfx, pfx))
        elif k < 0.7:
            body.append("<%st>%s</%st>" % (pfx, rng.choice(["text", " lead", "é&amp;ü", "&#x1F600;", ""]), pfx))
        elif k < 0.8:
            body.append("<!-- c -->")
        elif k < 0.9:
            body.append("<%se><%sf r:id=\"rId1\" xmlns:r=\"%s\"/></%se>" % (pfx, pfx, RT_BASE[:-1], pfx))
        else:
            body.append("  \n")
    decl = rng.choice(['<?xml version="1.0" encoding="UTF-8" standalone="yes"?>\n', "<?xml version='1.0'?>", "", "\ufeff"])
    return (decl + "<%sroot%s>%s</%sroot>" % (pfx, ns, "".join(body), pfx)).encode("utf-8")


def rand_bytes(rng):
    k = rng.random()
    if k < 0.1:
        return b""
    if k < 0.2:
        return b"<not xml"
    if k < 0.3:
        return rand_xml(rng)
    return bytes(rng.getrandbits(8) for _ in range(rng.randint(1, 48)))


def rel_target(rng, src_dir, target):
    """A reference text that resolves from directory src_dir to part name target."""
    k = rng.random()
    if k < 0.25:
        return target                                   # root-absolute
    rel = posixpath.relpath(target, src_dir or "/")
    if k < 0.40:
        return "./" + rel
    if k < 0.50 and src_dir not in ("", "/"):
        last = src_dir.rstrip("/").rsplit("/", 1)[-1]
        return "../" + last + "/" + rel                 # up and down again
    if k < 0.55:
        return rel.replace("/", "/./", 1)
    return rel


class GenPkg:
    """One generated package: members + what the generator meant (for the oracle)."""

    def __init__(self):
        self.members = []       # ordered (name, bytes)
        self.faults = []        # names of the malformations applied ([] = valid stream)
        self.notes = {}


def gen_package(rng, malformed=False):
    g = GenPkg()
    n = rng.choice([0, 1, 2, 3, 4, 5, 6, 8, 10, 12])
    names, used_lower = [], set()
    parts = {}                  # name -> dict(ct, payload, rels)
    tries = 0
    while len(names) < n and tries < 200:
        tries += 1
        d = rng.choice(DIRS)
        ext = rng.choice(list(EXT_TYPES))
        stem = rng.choice(STEMS) + (str(rng.randint(1, 12)) if rng.random() < 0.7 else "")
        e = flip_case(rng, ext) if rng.random() < 0.3 else ext
        fn = stem + ("." + e if e else "")
        name = "/" + (d + "/" if d else "") + fn
        if name.lower() in used_lower or fn.lower() == CT_NAME.lower() or "/_rels/" in name.lower():
            continue
        used_lower.add(name.lower())
        kind = rng.choice(EXT_TYPES[ext][:3] if rng.random() < 0.7 else EXT_TYPES[ext])
        payload = rand_xml(rng) if kind in XML_CLASS else rand_bytes(rng)
        ct = CT_X[kind]
        if rng.random() < 0.25:
            # the loader dispatches on the content type: every type REGISTERED in the live part-class table (aliases
            # included) is a code path of its own, whatever the extension of the part
            ct, is_xml = rng.choice(live_part_types())
            payload = rand_xml(rng) if is_xml else rand_bytes(rng)
        names.append(name)
        parts[name] = {"ct": ct, "payload": payload, "rels": [], "ext": e}
    # relationships: the root plus every part
    def mk_rels(src, k):
        src_dir = "/" if src == "/" else posixpath.split(src)[0]
        rels, ids = [], set()
        for _ in range(k):
            rid = rng.choice(["rId%d" % rng.randint(1, 30), "rId%d" % rng.randint(1, 5), "R%d" % rng.randint(1, 9),
                              "rId0%d" % rng.randint(1, 9), "rId", "x", "rId1a"])
            if rid in ids:
                continue
            ids.add(rid)
            if names and rng.random() < 0.8:
                t = rng.choice(names)
                rels.append((rid, rng.choice(RTYPES), rel_target(rng, src_dir, t), "Internal"))
            else:
                rels.append((rid, rng.choice(RTYPES), rng.choice(EXTERNALS), "External"))
        return rels

    root_rels = mk_rels("/", rng.randint(0, 4) if names else rng.randint(0, 1))
    for nm in names:
        parts[nm]["rels"] = mk_rels(nm, rng.choice([0, 0, 1, 2, 3, 5]))
    # content types: per lower-cased extension choose an optional Default, Overrides for the rest
    defaults, overrides = [], []
    by_ext = {}
    for nm in names:
        by_ext.setdefault(parts[nm]["ext"].lower(), []).append(nm)
    for e, group in sorted(by_ext.items()):
        dflt = None
        if e and rng.random() < 0.7:
            dflt = parts[rng.choice(group)]["ct"]
            defaults.append((flip_case(rng, e) if rng.random() < 0.3 else e, dflt))
        for nm in group:
            if parts[nm]["ct"] != dflt or rng.random() < 0.2:
                overrides.append((flip_case(rng, nm) if rng.random() < 0.25 else nm, parts[nm]["ct"]))
    if rng.random() < 0.8:
        defaults.append(("rels", "application/vnd.openxmlformats-package.relationships+xml"))
    if rng.random() < 0.3:
        defaults.append(("unused", "application/x-unused"))
    rng.shuffle(defaults)
    rng.shuffle(overrides)
    extra = []
    if rng.random() < 0.25:
        extra.append(("docProps/thumbnail.jpeg", rand_bytes(rng)))      # unreferenced member
    if rng.random() < 0.1:
        extra.append(("ppt/_rels/ghost.xml.rels", rels_xml([("rId1", RTYPES[1], "slides/slide1.xml", "Internal")])))

    # ---- malformations (each keeps the package a zip the loader must deal with) ----
    have_ct = True
    if malformed:
        k = rng.choice(["dangling", "dangling", "no-ct-entry", "no-ct-item", "bad-rels-xml", "bad-part-xml",
                        "dup-rid", "dup-ct-entries", "weird-mode", "case-twins", "dslash", "to-root",
                        "dangling-with-rels", "no-root-rels", "bad-ct-xml", "dangling-other-mode"])
        g.faults.append(k)
        anyp = rng.choice(names) if names else None
        if k == "dangling":
            src = rng.choice(["/"] + names)
            lst = root_rels if src == "/" else parts[src]["rels"]
            lst.insert(rng.randint(0, len(lst)), ("rId99", rng.choice(RTYPES), rng.choice(["NULL", "../NULL", "/ppt/slides/NULL", "missing.xml", "/", ".."]), "Internal"))
        elif k == "dangling-other-mode":
            root_rels.append(("rId98", RTYPES[1], "nowhere.xml", "Bogus"))
        elif k == "no-ct-entry" and anyp:
            overrides = [(a, b) for a, b in overrides if a.lower() != anyp.lower()]
            defaults = [(a, b) for a, b in defaults if a.lower() != parts[anyp]["ext"].lower()]
        elif k == "no-ct-item":
            have_ct = False
        elif k == "bad-rels-xml":
            g.notes["bad_rels"] = rng.choice(["/"] + names)
        elif k == "bad-part-xml" and anyp:
            parts[anyp]["ct"] = CT_X["slide"]
            parts[anyp]["payload"] = b"<p:sld"
            overrides = [(a, b) for a, b in overrides if a.lower() != anyp.lower()] + [(anyp, CT_X["slide"])]
        elif k == "dup-rid" and anyp:
            lst = root_rels
            lst.append(("rId1", RTYPES[2], anyp, "Internal"))
            lst.append(("rId1", RTYPES[3], rng.choice(names), "Internal"))
        elif k == "dup-ct-entries" and anyp:
            overrides.append((ascii_upper(anyp), CT_X["custom"]))
            defaults.append((ascii_upper(parts[anyp]["ext"]) or "zz", CT_X["ole"]))
        elif k == "weird-mode" and anyp:
            root_rels.append(("rId97", RTYPES[1], anyp, "Bogus"))
        elif k == "case-twins" and anyp:
            twin = ascii_swap(anyp)
            if twin != anyp and twin not in parts:
                parts[twin] = {"ct": CT_X["custom"], "payload": b"twin", "rels": [], "ext": parts[anyp]["ext"]}
                names.append(twin)
                overrides.append((twin, CT_X["custom"]))
                root_rels.append(("rId96", RTYPES[1], twin, "Internal"))
                root_rels.append(("rId95", RTYPES[1], anyp, "Internal"))
        elif k == "dslash" and anyp:
            root_rels.append(("rId94", RTYPES[1], "/" + anyp, "Internal"))
        elif k == "to-root":
            root_rels.append(("rId93", RTYPES[1], rng.choice(["/", "..", ".", "../.."]), "Internal"))
        elif k == "dangling-with-rels" and anyp:
            root_rels.append(("rId92", RTYPES[1], "/gone/absent.xml", "Internal"))
            extra.append(("gone/_rels/absent.xml.rels", rels_xml([("rId1", RTYPES[1], anyp, "Internal")])))
        elif k == "no-root-rels":
            g.notes["no_root_rels"] = True
        elif k == "bad-ct-xml":
            g.notes["bad_ct"] = True

    members = []
    if have_ct:
        members.append((CT_NAME, b"<Types" if g.notes.get("bad_ct") else ct_xml(defaults, overrides)))
    if not g.notes.get("no_root_rels"):
        data = rels_xml(root_rels, explicit_internal=rng.random() < 0.2, pretty=rng.random() < 0.3)
        if g.notes.get("bad_rels") == "/":
            data = b"<Relationships"
        members.append(("_rels/.rels", data))
    for nm in names:
        members.append((nm[1:], parts[nm]["payload"]))
        rl = parts[nm]["rels"]
        if rl or rng.random() < 0.15:
            data = rels_xml(rl, explicit_internal=rng.random() < 0.2, pretty=rng.random() < 0.3)
            if g.notes.get("bad_rels") == nm:
                data = rng.choice([b"<Relationships", b"<x/>", b""])
            members.append((rels_name(nm), data))
    members += extra
    # member order in a zip is free
    if rng.random() < 0.5:
        rng.shuffle(members)
    g.members = members
    g.parts, g.root_rels, g.names = parts, root_rels, names
    return g


# ----------------------------------------------------------------------------- irregularities (C16)
import re as _re

NS_P = "http://schemas.openxmlformats.org/presentationml/2006/main"
NS_R = "http://schemas.openxmlformats.org/officeDocument/2006/relationships"
CT_CORE = "application/vnd.openxmlformats-package.core-properties+xml"
RT_CORE = "http://schemas.openxmlformats.org/package/2006/relationships/metadata/core-properties"
_SLIDE_RE = _re.compile(r"^ppt/slides/slide(\d+)\.xml$")


def source_of_rels(name):
    """Part name (with leading slash) whose rels item has member name `name`, or None."""
    d, f = posixpath.split(name)
    if posixpath.basename(d) != "_rels" or not f.endswith(".rels"):
        return None
    parent = posixpath.dirname(d)
    stem = f[: -len(".rels")]
    if not stem:
        return "/" if parent == "" else None
    return "/" + (parent + "/" if parent else "") + stem


def base_dir(partname):
    return "/" if partname == "/" else (posixpath.split(partname)[0] or "/")


def main_part_name(members):
    lg = logical(members)
    if lg is None:
        return None
    od = [r for r in lg[0] if r[1] == RT_OD and not r[2]]
    return od[0][3] if len(od) == 1 else None


def slide_rids(members):
    """r:id values of p:sldIdLst/p:sldId of the main part, in document order ([] when unreadable)."""
    main = main_part_name(members)
    if main is None:
        return []
    data = as_dict(members).get(main[1:])
    try:
        root = etree.fromstring(data, _parser)
    except Exception:  # noqa
        return []
    out = []
    for lst in root.findall("{%s}sldIdLst" % NS_P):
        for s in lst.findall("{%s}sldId" % NS_P):
            rid = s.get("{%s}id" % NS_R)
            if rid is not None:
                out.append(rid)
    return out


def list_faults(members):
    """Every single irregularity of the property's list applicable to this member list."""
    d = as_dict(members)
    out = []
    for name, data in members:
        if source_of_rels(name) is not None:
            rl = decode_rels(data)
            if rl is None:
                continue
            out.append(("del-rels", name))
            first = True
            for i, r in enumerate(rl):
                if r[3] != "External":
                    out.append(("dangling", name, i))
                    if first:
                        out.append(("void-target", name, i))     # a relationship removed by emptying its Target
                        first = False
    ct = decode_ct(d.get(CT_NAME, b""))
    main = main_part_name(members)
    if ct is not None:
        for i in range(len(ct[0])):
            out.append(("case-default", i))
        for i, (pn, _t) in enumerate(ct[1]):
            out.append(("case-override", i))
            if main is None or pn.lower() != main.lower():
                out.append(("unknown-ct", i))
    for v in range(4):
        out.append(("extra", v))
    if sum(1 for n, _ in members if _SLIDE_RE.match(n)) >= 1:
        out.append(("rename-slides", "gaps"))
        out.append(("rename-slides", "reverse"))
    if any(r[1] == RT_CORE for r in (decode_rels(d.get("_rels/.rels", b"")) or [])):
        out.append(("no-core",))
    if main is not None:
        for t in ("application/vnd.openxmlformats-officedocument.presentationml.slide+xml",
                  "application/vnd.openxmlformats-officedocument.presentationml.template.main+xml",
                  "application/x-verif-unknown", STD_MACRO_MAIN):
            out.append(("wrong-main", t))
        out.append(("del-member", main[1:]))
    out.append(("del-member", CT_NAME))
    out.append(("del-member", "_rels/.rels"))
    # the extension of a part name in the other letter case (image1.PNG) while the Default entry that types it
    # keeps its spelling: the members, the rels item and every Target follow the new name
    if ct is not None:
        over = {pn.lower() for pn, _t in ct[1]}
        for name, _data in members:
            if name == CT_NAME or source_of_rels(name) is not None or ("/" + name).lower() in over:
                continue
            stem, dot, ext = name.rpartition(".")
            if dot and "/" not in ext and ext.isascii() and ext.upper() != ext.lower():
                out.append(("case-ext", name))
    # a part member deleted while its own rels item stays behind (every relationship to it dangles and
    # the loader still meets the orphaned rels item when it walks the graph)
    for name, _data in members:
        if name == CT_NAME or source_of_rels(name) is not None or (main is not None and name == main[1:]):
            continue
        out.append(("del-member", name))
    return out


def _replace(members, name, data):
    return [(n, data if n == name else b) for n, b in members]


def _retarget(members, mapping):
    """Rename parts (mapping old partname -> new partname): members, their rels items, the
    Override entries and every relationship target that resolves to a renamed part."""
    tmp = {}
    for old, new in mapping.items():
        tmp[old[1:]] = new[1:]
        tmp[rels_name(old)] = rels_name(new)
    out = []
    for name, data in members:
        src = source_of_rels(name)
        if src is not None:
            rl = decode_rels(data)
            if rl is not None:
                new_src = mapping.get(src, src)
                nl = []
                for rid, rtype, target, mode in rl:
                    if mode != "External":
                        t = resolve_ref(base_dir(src), target)
                        t2 = mapping.get(t, t)
                        if t2 != t or new_src != src:
                            target = t2 if target.startswith("/") else posixpath.relpath(t2, base_dir(new_src))
                    nl.append((rid, rtype, target, mode))
                data = rels_xml(nl)
        elif name == CT_NAME:
            ct = decode_ct(data)
            if ct is not None:
                low = {k.lower(): v for k, v in mapping.items()}
                data = ct_xml(ct[0], [(low.get(pn.lower(), pn), t) for pn, t in ct[1]])
        out.append((tmp.get(name, name), data))
    return out


def apply_fault(members, fault):
    kind = fault[0]
    d = as_dict(members)
    if kind == "dangling":
        _k, name, i = fault
        rl = decode_rels(d[name])
        rid, rtype, target, mode = rl[i]
        rl[i] = (rid, rtype, posixpath.join(posixpath.dirname(target), "NULL"), mode)
        return _replace(members, name, rels_xml(rl))
    if kind == "void-target":
        _k, name, i = fault
        rl = decode_rels(d[name])
        rid, rtype, _target, mode = rl[i]
        rl[i] = (rid, rtype, "", mode)
        return _replace(members, name, rels_xml(rl))
    if kind == "del-rels" or kind == "del-member":
        return [(n, b) for n, b in members if n != fault[1]]
    if kind in ("case-default", "case-override", "unknown-ct", "wrong-main"):
        ds, os_ = decode_ct(d[CT_NAME])
        ds, os_ = list(ds), list(os_)
        if kind == "case-default":
            e, t = ds[fault[1]]
            ds[fault[1]] = (ascii_swap(e) if ascii_swap(e) != e else e, t)
            if ds[fault[1]][0] == e:
                ds[fault[1]] = (e.upper() if e.isascii() else e, t)
        elif kind == "case-override":
            pn, t = os_[fault[1]]
            os_[fault[1]] = (ascii_swap(pn), t)
        elif kind == "unknown-ct":
            pn, t = os_[fault[1]]
            os_[fault[1]] = (pn, "application/x-verif-unknown")
        else:
            main = main_part_name(members)
            os_ = [(pn, fault[1] if pn.lower() == main.lower() else t) for pn, t in os_]
            if not any(pn.lower() == main.lower() for pn, _ in os_):
                os_.append((main, fault[1]))
        return _replace(members, CT_NAME, ct_xml(ds, os_))
    if kind == "extra":
        extras = [[("docProps/extra.bin", b"\x00\x01extra")],
                  [("ppt/slides/slide999.xml", b"<p:sld xmlns:p=\"%s\"/>" % NS_P.encode()),
                   ("ppt/slides/_rels/slide999.xml.rels", rels_xml([("rId1", RT_BASE + "slideLayout", "../slideLayouts/slideLayout1.xml", "Internal")]))],
                  [("junk/readme.txt", b"unreferenced"), ("ppt/_rels/ghost.xml.rels", rels_xml([("rId1", RT_BASE + "slide", "slides/slide1.xml", "Internal")]))]]
        # explicit directory entries (zip -r, Archive Utility, java.util.zip write them): empty members whose names end in "/"
        extras.append([(dname + "/", b"") for dname in dir_entries(members)])
        have = {n for n, _ in members}
        return members + [(n, b) for n, b in extras[fault[1]] if n not in have]
    if kind == "case-ext":
        name = fault[1]
        stem, _dot, ext = name.rpartition(".")
        return _retarget(members, {"/" + name: "/" + stem + "." + (ext.upper() if ext != ext.upper() else ext.lower())})
    if kind == "rename-slides":
        slides = sorted((int(_SLIDE_RE.match(n).group(1)), n) for n, _ in members if _SLIDE_RE.match(n))
        nums = [k for k, _ in slides]
        if fault[1] == "gaps":
            new = [3 * k + 2 for k in nums]
        else:
            new = list(reversed(nums)) if len(nums) > 1 else [nums[0] + 7]
        mapping = {"/" + n: "/ppt/slides/slide%d.xml" % k for (_o, n), k in zip(slides, new)}
        return _retarget(members, mapping)
    if kind == "no-core":
        rl = decode_rels(d["_rels/.rels"])
        gone = {resolve_ref("/", r[2]) for r in rl if r[1] == RT_CORE and r[3] != "External"}
        out = _replace(members, "_rels/.rels", rels_xml([r for r in rl if r[1] != RT_CORE]))
        ct = decode_ct(d.get(CT_NAME, b""))
        if ct is not None:
            ds, os_ = ct
            out = _replace(out, CT_NAME, ct_xml(ds, [(pn, t) for pn, t in os_ if pn.lower() not in {g.lower() for g in gone}]))
        return [(n, b) for n, b in out if "/" + n not in gone]
    raise ValueError("unknown fault %r" % (fault,))


REFUSALS = ("notfound", "badzip", "err:Key", "err:Value")


def expected_open(members, zip_fault, form, pres_cts):
    """What the property says Presentation() must do with this input, by an independent
    reading of the package: 'notfound' | 'badzip' | 'err:Key' | 'err:Value' | ('ok', logical graph)."""
    if form == "nopath":
        return "notfound"
    if zip_fault is not None:
        return "notfound" if form == "path" else "badzip"
    d = as_dict(members)
    if CT_NAME not in d:
        return "err:Key"
    lg = logical(members)
    od = [r for r in lg[0] if r[1] == RT_OD]
    if len(od) == 0:
        return "err:Key"
    if len(od) > 1 or od[0][2]:
        return "err:Value"
    main = od[0][3]
    if any(v[0] is None for v in lg[1].values()):
        return "err:Key"
    if lg[1][main][0] not in pres_cts:
        return "err:Value"
    return ("ok", lg)
