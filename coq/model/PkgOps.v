(** C02 -- the operations of python-pptx that create, rename, relate and drop package
    parts, as a state machine over the package graph.  Executable definitions only.

    Sources mirrored (python-pptx, src/pptx):
    - opc/package.py       _RelatableMixin.relate_to / related_part / part_related_by / target_ref,
                           OpcPackage.iter_rels / iter_parts / next_partname / save,
                           XmlPart.drop_rel + _rel_ref_count (counts r:id only),
                           _Relationships.get_or_add / get_or_add_ext_rel / _get_matching / pop / xml,
                           _Relationship.target_ref + target_partname (lazyproperty: evaluated once)
    - opc/serialized.py    PackageWriter._write, _ContentTypesItem  (through model/Opc.v)
    - package.py           Package.core_properties (lazyproperty), _ImageParts, _MediaParts,
                           next_image_partname / next_media_partname (through model/Ids.v)
    - parts/presentation.py add_slide, _next_slide_partname, rename_slide_parts, notes_master_part (lazy)
    - presentation.py      Presentation.slides (lazyproperty: renames the slide parts once)
    - parts/slide.py       SlidePart.new / notes_slide (lazy) / add_chart_part / add_embedded_ole_object_part /
                           get_or_add_image_part / get_or_add_video_media_part, NotesSlidePart.new,
                           NotesMasterPart.create_default
    - parts/chart.py, parts/embeddedpackage.py, parts/image.py, parts/media.py
    - action.py            ActionSetting.target_slide setter, Hyperlink.address getter and setter
    - text/text.py         _Hyperlink.address getter and setter
    - shapes/shapetree.py  add_picture, add_movie (_MoviePicElementCreator), add_chart,
                           add_ole_object (_OleObjectElementCreator); shapes/placeholder.py insert_picture
    - slide.py             Slides.add_slide, SlideLayouts.remove, SlideLayout.used_by_slides

    A part is identified by its position in [st_parts] (object identity); parts are never
    deleted, a part nobody relates to is simply not reached any more.  Part names,
    relationship ids and the id / part-name allocators are those of model/Ids.v, the
    part-name arithmetic is model/PackUri.v, the writer's content-types item, the numeric
    rId order and the meta formats are those of model/Opc.v. *)
From V.lib Require Import Prelude Wire.
From V.model Require Import PackUri.
From V.model Require Ids Opc.
From Coq Require Strings.String Strings.Ascii.
Import Coq.Strings.String.StringSyntax.

Definition asc (s : String.string) : str :=
  map Ascii.N_of_ascii (String.list_ascii_of_string s).
Arguments asc s%string_scope.

(* ------------------------------------------------------------------------------ *)
(** * Constants of opc/constants.py and the fixed part names (checked against the live
      module by the correspondence, case consts) *)

Definition rt_slide : str := Eval vm_compute in asc "http://schemas.openxmlformats.org/officeDocument/2006/relationships/slide".
Definition rt_image : str := Eval vm_compute in asc "http://schemas.openxmlformats.org/officeDocument/2006/relationships/image".
Definition rt_media : str := Eval vm_compute in asc "http://schemas.microsoft.com/office/2007/relationships/media".
Definition rt_video : str := Eval vm_compute in asc "http://schemas.openxmlformats.org/officeDocument/2006/relationships/video".
Definition rt_chart : str := Eval vm_compute in asc "http://schemas.openxmlformats.org/officeDocument/2006/relationships/chart".
Definition rt_package : str := Eval vm_compute in asc "http://schemas.openxmlformats.org/officeDocument/2006/relationships/package".
Definition rt_ole : str := Eval vm_compute in asc "http://schemas.openxmlformats.org/officeDocument/2006/relationships/oleObject".
Definition rt_hyperlink : str := Eval vm_compute in asc "http://schemas.openxmlformats.org/officeDocument/2006/relationships/hyperlink".
Definition rt_notes_slide : str := Eval vm_compute in asc "http://schemas.openxmlformats.org/officeDocument/2006/relationships/notesSlide".
Definition rt_notes_master : str := Eval vm_compute in asc "http://schemas.openxmlformats.org/officeDocument/2006/relationships/notesMaster".
Definition rt_theme : str := Eval vm_compute in asc "http://schemas.openxmlformats.org/officeDocument/2006/relationships/theme".
Definition rt_slide_layout : str := Eval vm_compute in asc "http://schemas.openxmlformats.org/officeDocument/2006/relationships/slideLayout".
Definition rt_slide_master : str := Eval vm_compute in asc "http://schemas.openxmlformats.org/officeDocument/2006/relationships/slideMaster".
Definition rt_core : str := Eval vm_compute in asc "http://schemas.openxmlformats.org/package/2006/relationships/metadata/core-properties".
Definition rt_office_document : str := Eval vm_compute in asc "http://schemas.openxmlformats.org/officeDocument/2006/relationships/officeDocument".

Definition ct_slide : str := Eval vm_compute in asc "application/vnd.openxmlformats-officedocument.presentationml.slide+xml".
Definition ct_notes_slide : str := Eval vm_compute in asc "application/vnd.openxmlformats-officedocument.presentationml.notesSlide+xml".
Definition ct_notes_master : str := Eval vm_compute in asc "application/vnd.openxmlformats-officedocument.presentationml.notesMaster+xml".
Definition ct_theme : str := Eval vm_compute in asc "application/vnd.openxmlformats-officedocument.theme+xml".
Definition ct_chart : str := Eval vm_compute in asc "application/vnd.openxmlformats-officedocument.drawingml.chart+xml".
Definition ct_xlsx : str := Eval vm_compute in asc "application/vnd.openxmlformats-officedocument.spreadsheetml.sheet".
Definition ct_docx : str := Eval vm_compute in asc "application/vnd.openxmlformats-officedocument.wordprocessingml.document".
Definition ct_pptx : str := Eval vm_compute in asc "application/vnd.openxmlformats-officedocument.presentationml.presentation".
Definition ct_ole : str := Eval vm_compute in asc "application/vnd.openxmlformats-officedocument.oleObject".
Definition ct_core : str := Eval vm_compute in asc "application/vnd.openxmlformats-package.core-properties+xml".
Definition ct_slide_master : str := Eval vm_compute in asc "application/vnd.openxmlformats-officedocument.presentationml.slideMaster+xml".
Definition ct_slide_layout : str := Eval vm_compute in asc "application/vnd.openxmlformats-officedocument.presentationml.slideLayout+xml".
Definition ct_png : str := Eval vm_compute in asc "image/png".
Definition ct_emf : str := Eval vm_compute in asc "image/x-emf".

Definition n_notes_master : str := Eval vm_compute in asc "/ppt/notesMasters/notesMaster1.xml".
Definition n_core : str := Eval vm_compute in asc "/docProps/core.xml".

(* printf templates handed to OpcPackage.next_partname, split at the percent-d *)
Definition tp_theme : str * str := Eval vm_compute in (asc "/ppt/theme/theme", asc ".xml").
Definition tp_notes_slide : str * str := Eval vm_compute in (asc "/ppt/notesSlides/notesSlide", asc ".xml").
Definition tp_chart : str * str := Eval vm_compute in (asc "/ppt/charts/chart", asc ".xml").
Definition tp_xlsx : str * str := Eval vm_compute in (asc "/ppt/embeddings/Microsoft_Excel_Sheet", asc ".xlsx").
Definition tp_docx : str * str := Eval vm_compute in (asc "/ppt/embeddings/Microsoft_Word_Document", asc ".docx").
Definition tp_pptx : str * str := Eval vm_compute in (asc "/ppt/embeddings/Microsoft_PowerPoint_Presentation", asc ".pptx").
Definition tp_ole : str * str := Eval vm_compute in (asc "/ppt/embeddings/oleObject", asc ".bin").

(* local names of the r: attributes the operations write *)
Definition k_id : str := Eval vm_compute in asc "id".
Definition k_embed : str := Eval vm_compute in asc "embed".
Definition k_link : str := Eval vm_compute in asc "link".

Definition e_png : str := Eval vm_compute in asc "png".
Definition e_emf : str := Eval vm_compute in asc "emf".

(* ------------------------------------------------------------------------------ *)
(** * State *)

Inductive tgt := TInt (p : nat) | TExt (u : str).

(** One _Relationship object.  target_ref and target_partname are ordinary properties since
    the repair 5eaa1dfb (computed from the current name of the target part on every access).
    [rr_ref] models what they were before: lazyproperties, holding the value of their first
    evaluation for ever (None: not evaluated).  The operations take a flag [lz]: false is the
    code as it is now and never writes [rr_ref]; true is the former code, kept for the
    regression witness of the defect. *)
Record relr := mkR { rr_id : str; rr_type : str; rr_tgt : tgt; rr_ref : option str }.

Definition rr_ext (r : relr) : bool := match rr_tgt r with TExt _ => true | TInt _ => false end.

(** One part object.
    [pt_base]  base URI its relationship collection was created with (never updated);
    [pt_sha]   0 when the part class has no sha1 attribute, else the identity class of its bytes;
    [pt_idl]   the r:id values of its ordered id list: p:sldIdLst of the presentation part,
               p:sldLayoutIdLst of a slide master, c:externalData of a chart part;
    [pt_refs]  every other (attribute local name, value) occurrence of an r: attribute;
    [pt_slots] per text box created by the history: the r:id of its shape-level a:hlinkClick
               and of the a:hlinkClick of its run (None: element absent);
    [pt_phs]   picture placeholders: cloneable ones of a layout, unfilled ones of a slide;
    [pt_notes] the lazyproperty SlidePart.notes_slide has been evaluated. *)
Record part := mkP {
  pt_name : str; pt_base : str; pt_ct : str; pt_sha : N;
  pt_idl : list str; pt_refs : list (str * str);
  pt_slots : list (option str * option str);
  pt_phs : nat; pt_notes : bool; pt_rels : list relr }.

(** [st_pres]   the presentation part the Presentation object proxies;
    [st_mrid]   rId of the first p:sldMasterId;
    [st_slides] lazyproperty Presentation.slides evaluated (slide parts renamed);
    [st_nm]     lazyproperty PresentationPart.notes_master_part;
    [st_core]   lazyproperty Package.core_properties. *)
Record state := mkS {
  st_parts : list part; st_prels : list relr; st_pres : nat; st_mrid : option str;
  st_slides : bool; st_nm : option nat; st_core : option nat }.

(** opc/spec.py default_content_types and the initial defaults of _ContentTypesItem *)
Record tables := mkT { t_def : list (str * str); t_init : list (str * str) }.

Definition with_rels (p : part) (rs : list relr) : part :=
  mkP (pt_name p) (pt_base p) (pt_ct p) (pt_sha p) (pt_idl p) (pt_refs p) (pt_slots p) (pt_phs p) (pt_notes p) rs.
Definition with_name (p : part) (n : str) : part :=
  mkP n (pt_base p) (pt_ct p) (pt_sha p) (pt_idl p) (pt_refs p) (pt_slots p) (pt_phs p) (pt_notes p) (pt_rels p).
Definition with_idl (p : part) (l : list str) : part :=
  mkP (pt_name p) (pt_base p) (pt_ct p) (pt_sha p) l (pt_refs p) (pt_slots p) (pt_phs p) (pt_notes p) (pt_rels p).
Definition with_refs (p : part) (l : list (str * str)) : part :=
  mkP (pt_name p) (pt_base p) (pt_ct p) (pt_sha p) (pt_idl p) l (pt_slots p) (pt_phs p) (pt_notes p) (pt_rels p).
Definition with_slots (p : part) (l : list (option str * option str)) : part :=
  mkP (pt_name p) (pt_base p) (pt_ct p) (pt_sha p) (pt_idl p) (pt_refs p) l (pt_phs p) (pt_notes p) (pt_rels p).
Definition with_phs (p : part) (n : nat) : part :=
  mkP (pt_name p) (pt_base p) (pt_ct p) (pt_sha p) (pt_idl p) (pt_refs p) (pt_slots p) n (pt_notes p) (pt_rels p).
Definition with_notes (p : part) (b : bool) : part :=
  mkP (pt_name p) (pt_base p) (pt_ct p) (pt_sha p) (pt_idl p) (pt_refs p) (pt_slots p) (pt_phs p) b (pt_rels p).

Definition with_parts (s : state) (l : list part) : state :=
  mkS l (st_prels s) (st_pres s) (st_mrid s) (st_slides s) (st_nm s) (st_core s).
Definition with_prels (s : state) (l : list relr) : state :=
  mkS (st_parts s) l (st_pres s) (st_mrid s) (st_slides s) (st_nm s) (st_core s).
Definition with_slides (s : state) (b : bool) : state :=
  mkS (st_parts s) (st_prels s) (st_pres s) (st_mrid s) b (st_nm s) (st_core s).
Definition with_nm (s : state) (o : option nat) : state :=
  mkS (st_parts s) (st_prels s) (st_pres s) (st_mrid s) (st_slides s) o (st_core s).
Definition with_core (s : state) (o : option nat) : state :=
  mkS (st_parts s) (st_prels s) (st_pres s) (st_mrid s) (st_slides s) (st_nm s) o.

(** a part object fresh from its constructor: no relationships, nothing in its XML *)
Definition new_part (name ct : str) (sha : N) : part :=
  mkP name (baseURI name) ct sha [] [] [] 0 false [].

Definition getp (s : state) (p : nat) : option part := nth_error (st_parts s) p.
Definition setp (s : state) (p : nat) (x : part) : state :=
  with_parts s (Ids.set_nth p x (st_parts s)).

(* ------------------------------------------------------------------------------ *)
(** * References from the XML of a part into its relationships *)

Definition opt_ref (o : option str) : list (str * str) :=
  match o with Some r => [(k_id, r)] | None => [] end.
Definition slot_refs (sl : list (option str * option str)) : list (str * str) :=
  flat_map (fun cr => opt_ref (fst cr) ++ opt_ref (snd cr)) sl.

(** every r: attribute occurrence with a non-empty value *)
Definition all_refs (p : part) : list (str * str) :=
  map (fun r => (k_id, r)) (pt_idl p) ++ pt_refs p ++ slot_refs (pt_slots p).

(** XmlPart._rel_ref_count: the xpath selects r:id attributes only *)
Definition is_id_ref (rid : str) (kr : str * str) : bool := str_eqb (fst kr) k_id && str_eqb (snd kr) rid.
Definition ref_count (rid : str) (p : part) : nat := length (filter (is_id_ref rid) (all_refs p)).

(* ------------------------------------------------------------------------------ *)
(** * _Relationships *)

Definition tgt_eqb (a b : tgt) : bool :=
  match a, b with
  | TInt p, TInt q => Nat.eqb p q
  | TExt u, TExt v => str_eqb u v
  | _, _ => false
  end.

Fixpoint find_rel (rid : str) (rs : list relr) : option relr :=
  match rs with
  | [] => None
  | r :: rs' => if str_eqb (rr_id r) rid then Some r else find_rel rid rs'
  end.

(** _get_matching: first relationship of that type, same mode, same target object (or text) *)
Definition get_matching (t : str) (g : tgt) (rs : list relr) : option str :=
  match find (fun r => str_eqb (rr_type r) t && tgt_eqb (rr_tgt r) g) rs with
  | Some r => Some (rr_id r)
  | None => None
  end.

(** _add_relationship: the rId allocator is Ids.next_rId *)
Definition add_rel (t : str) (g : tgt) (rs : list relr) : res (list relr * str) :=
  bind (Ids.next_rId (map rr_id rs)) (fun rid => Ok (rs ++ [mkR rid t g None], rid)).

(** get_or_add / get_or_add_ext_rel *)
Definition get_or_add (t : str) (g : tgt) (rs : list relr) : res (list relr * str) :=
  match get_matching t g rs with
  | Some rid => Ok (rs, rid)
  | None => add_rel t g rs
  end.

(** dict.pop *)
Definition pop_rel (rid : str) (rs : list relr) : res (list relr) :=
  if mem_str rid (map rr_id rs)
  then Ok (filter (fun r => negb (str_eqb (rr_id r) rid)) rs)
  else Err KeyErr.

(** part_with_reltype followed by target_part *)
Definition part_with_reltype (t : str) (rs : list relr) : res nat :=
  match filter (fun r => str_eqb (rr_type r) t) rs with
  | [] => Err KeyErr
  | [r] => match rr_tgt r with TInt p => Ok p | TExt _ => Err ValueErr end
  | _ => Err ValueErr
  end.

(** related_part: lookup by rId, then target_part *)
Definition related_part (rid : str) (rs : list relr) : res nat :=
  match find_rel rid rs with
  | None => Err KeyErr
  | Some r => match rr_tgt r with TInt p => Ok p | TExt _ => Err ValueErr end
  end.

(** XmlPart.drop_rel *)
Definition drop_rel (p : part) (rid : str) : res part :=
  if Nat.ltb (ref_count rid p) 2
  then bind (pop_rel rid (pt_rels p)) (fun rs => Ok (with_rels p rs))
  else Ok p.

(* ------------------------------------------------------------------------------ *)
(** * OpcPackage.iter_rels / iter_parts: the walk of model/Opc.v over object identities *)

Definition key (p : nat) : str := [N.of_nat p].
Definition unkey (k : str) : nat := match k with [n] => N.to_nat n | _ => O end.

Definition int_targets (rs : list relr) : list nat :=
  flat_map (fun r => match rr_tgt r with TInt p => [p] | TExt _ => [] end) rs.

Definition gsucc (parts : list part) (k : str) : list str :=
  match k with
  | [n] => match nth_error parts (N.to_nat n) with
           | Some p => map key (int_targets (pt_rels p))
           | None => []
           end
  | _ => []
  end.

(** part identities in the order iter_parts yields them *)
Definition iter_pids (s : state) : list nat :=
  map unkey (rev (Opc.walk (gsucc (st_parts s)) (S (S (length (st_parts s)))) []
                           (map key (int_targets (st_prels s))))).

Definition name_of (parts : list part) (p : nat) : str :=
  match nth_error parts p with Some x => pt_name x | None => [] end.

Definition iter_names (s : state) : list str := map (name_of (st_parts s)) (iter_pids s).

(** targets of the internal relationships whose type is in [ts], sources taken in the
    order package, then parts as iter_parts yields them (see the assumptions of the check:
    iter_rels interleaves sources depth-first, which matters only when two candidate parts
    carry the same bytes) *)
Definition typed_targets (ts : list str) (rs : list relr) : list nat :=
  flat_map (fun r => if mem_str (rr_type r) ts
                     then match rr_tgt r with TInt p => [p] | TExt _ => [] end
                     else []) rs.

Definition rel_targets (s : state) (ts : list str) : list nat :=
  typed_targets ts (st_prels s)
  ++ flat_map (fun p => match getp s p with Some x => typed_targets ts (pt_rels x) | None => [] end)
              (iter_pids s).

(** _ImageParts._find_by_sha1: parts without a sha1 attribute are skipped *)
Fixpoint find_image (s : state) (sha : N) (cands : list nat) : option nat :=
  match cands with
  | [] => None
  | p :: r =>
      match getp s p with
      | Some x => if negb (N.eqb (pt_sha x) 0) && N.eqb (pt_sha x) sha then Some p else find_image s sha r
      | None => find_image s sha r
      end
  end.

(** _MediaParts._find_by_sha1: no such guard, a part without the attribute raises AttributeError *)
Fixpoint find_media (s : state) (sha : N) (cands : list nat) : res (option nat) :=
  match cands with
  | [] => Ok None
  | p :: r =>
      match getp s p with
      | Some x => if N.eqb (pt_sha x) 0 then Err OtherErr
                  else if N.eqb (pt_sha x) sha then Ok (Some p) else find_media s sha r
      | None => find_media s sha r
      end
  end.

(* ------------------------------------------------------------------------------ *)
(** * Operations *)

(** a file handed to the API: identity class of its bytes, the extension and the content
    type the image / video value object derives from it *)
Record blobd := mkB { b_sha : N; b_ext : str; b_ct : str }.

Inductive poster := PDefault | PImg (b : blobd) | PBad.
Inductive olek := OXlsx | ODocx | OPptx | OGeneric.
Inductive which := WClick | WRun.

(** reserved identity classes: the built-in speaker image and the four OLE icons *)
Definition speaker_blob : blobd := mkB 1 e_png ct_png.
Definition icon_blob (k : olek) : blobd :=
  match k with
  | ODocx => mkB 2 e_emf ct_emf
  | OPptx => mkB 3 e_emf ct_emf
  | OXlsx => mkB 4 e_emf ct_emf
  | OGeneric => mkB 5 e_emf ct_emf
  end.

Inductive op :=
| AccessSlides                                   (* len of prs.slides *)
| AddSlide (l : nat)                             (* prs.slides.add_slide of prs.slide_layouts at l *)
| AddPlainShape (i : nat)                        (* a text box with one run on slide i; stands for every shape kind without parts *)
| AddPicture (i : nat) (b : blobd)
| AddPictureBad (i : nat)                        (* an image of a format Image.ext refuses *)
| InsertPicture (i : nat) (b : blobd)            (* first unfilled picture placeholder of slide i *)
| AddMovie (i : nat) (v : blobd) (p : poster)
| AddChart (i : nat)
| ReplaceData (i j : nat)                        (* j-th chart graphic frame of slide i *)
| AddOle (i : nat) (k : olek)
| AccessNotes (i : nat)
| SetLink (w : which) (i j : nat) (url : str)    (* shape or run hyperlink address; empty text clears *)
| ClearLink (w : which) (i j : nat)              (* address = None *)
| ReadLink (w : which) (i j : nat)               (* read of address *)
| SetJump (i j k : nat)                          (* click_action.target_slide = slide k *)
| ClearJump (i j : nat)                          (* click_action.target_slide = None *)
| SetNotesJump (i k : nat)                       (* from the notes placeholder of the notes slide of slide i *)
| ClearNotesJump (i : nat)
| RemoveLayout (l : nat)
| AccessCoreProps
| Save.

Record pmember := mkMem { pm_name : str; pm_pid : nat; pm_rels : list Opc.rel }.
(** the saved zip: content types item, package rels item, then per part its member and
    (when it has relationships) its rels item *)
Record physpkg := mkPhys { ph_cts : Opc.cts; ph_prels : list Opc.rel; ph_members : list pmember }.

Inductive outcome :=
| Done
| Refused (e : pyerr)      (* the call raised *)
| NA                       (* the harness found nothing to call (no such shape) *)
| Read (o : option str)    (* value of a read access *)
| Saved (ph : physpkg).

(** ** state-and-exception monad: on an exception the effects so far stay *)
Definition M (A : Type) := state -> state * res A.
Definition ret {A} (a : A) : M A := fun s => (s, Ok a).
Definition fail {A} (e : pyerr) : M A := fun s => (s, Err e).
Definition lift {A} (r : res A) : M A := fun s => (s, r).
Definition bindM {A B} (m : M A) (f : A -> M B) : M B :=
  fun s => let '(s1, r) := m s in
           match r with Ok a => f a s1 | Err e => (s1, Err e) end.
Definition getS : M state := fun s => (s, Ok s).
Definition putS (s' : state) : M unit := fun _ => (s', Ok tt).

Notation "'do' x <- m ;; k" := (bindM m (fun x => k)) (at level 200, x name, m at level 100, k at level 200).
Notation "'do' ' p <- m ;; k" := (bindM m (fun p => k)) (at level 200, p pattern, m at level 100, k at level 200).

Definition m_part (p : nat) : M part :=
  do s <- getS ;; match getp s p with Some x => ret x | None => fail OtherErr end.
Definition m_setp (p : nat) (x : part) : M unit :=
  do s <- getS ;; putS (setp s p x).
Definition m_new (x : part) : M nat :=
  do s <- getS ;; do _ <- putS (with_parts s (st_parts s ++ [x])) ;; ret (length (st_parts s)).

(** part.relate_to *)
Definition m_relate (src : nat) (t : str) (g : tgt) : M str :=
  do x <- m_part src ;;
  do ' (rs, rid) <- lift (get_or_add t g (pt_rels x)) ;;
  do _ <- m_setp src (with_rels x rs) ;; ret rid.

Definition m_add_ref (p : nat) (kr : str * str) : M unit :=
  do x <- m_part p ;; m_setp p (with_refs x (pt_refs x ++ [kr])).

(** the python class of a part object is fixed by its content type (PartFactory); reaching for
    an attribute only another part class has raises AttributeError *)
Definition m_class (p : nat) (ct : str) : M unit :=
  do x <- m_part p ;; if str_eqb (pt_ct x) ct then ret tt else fail OtherErr.

(** ** Presentation.slides *)

(** the rIds of the id list that related_part resolves, up to the first one it does not *)
Fixpoint resolvable_prefix (prels : list relr) (rids : list str) : list str * option pyerr :=
  match rids with
  | [] => ([], None)
  | r :: rs =>
      match find_rel r prels with
      | None => ([], Some KeyErr)
      | Some x =>
          match rr_tgt x with
          | TExt _ => ([], Some ValueErr)
          | TInt _ => let '(l, e) := resolvable_prefix prels rs in (r :: l, e)
          end
      end
  end.

Definition prels_idx (rs : list relr) : list (str * nat) :=
  flat_map (fun r => match rr_tgt r with TInt p => [(rr_id r, p)] | TExt _ => [] end) rs.

Fixpoint set_names (parts : list part) (names : list str) : list part :=
  match parts, names with
  | p :: ps, n :: ns => with_name p n :: set_names ps ns
  | _, _ => parts
  end.

(** first evaluation renames the listed slide parts (Ids.rename_slide_parts); an rId that
    does not resolve raises after the earlier ones have been renamed, and the lazyproperty
    stays unevaluated *)
Definition m_access_slides : M unit := fun s =>
  if st_slides s then (s, Ok tt) else
  match getp s (st_pres s) with
  | None => (s, Err OtherErr)
  | Some pp =>
      let '(rids, e) := resolvable_prefix (pt_rels pp) (pt_idl pp) in
      match Ids.rename_slide_parts (prels_idx (pt_rels pp)) rids (map pt_name (st_parts s)) with
      | Ok names' =>
          let s' := with_parts s (set_names (st_parts s) names') in
          match e with
          | None => (with_slides s' true, Ok tt)
          | Some x => (s', Err x)
          end
      | Err x => (s, Err x)
      end
  end.

(** prs.slides then indexing *)
Definition m_slide (i : nat) : M nat :=
  do _ <- m_access_slides ;;
  do s <- getS ;;
  do pp <- m_part (st_pres s) ;;
  match nth_error (pt_idl pp) i with
  | None => fail IndexErr
  | Some rid => do sp <- lift (related_part rid (pt_rels pp)) ;; do _ <- m_class sp ct_slide ;; ret sp
  end.

(** prs.slide_layouts at l: first slide master, its id list, related_part.
    Result: master part, layout part, rId *)
Definition m_layout (l : nat) : M (nat * nat * str) :=
  do s <- getS ;;
  do pp <- m_part (st_pres s) ;;
  match st_mrid s with
  | None => fail IndexErr
  | Some mrid =>
      do m <- lift (related_part mrid (pt_rels pp)) ;;
      do _ <- m_class m ct_slide_master ;;
      do mp <- m_part m ;;
      match nth_error (pt_idl mp) l with
      | None => fail IndexErr
      | Some rid => do lp <- lift (related_part rid (pt_rels mp)) ;;
                    do _ <- m_class lp ct_slide_layout ;; ret (m, lp, rid)
      end
  end.

Definition m_next_partname (tp : str * str) : M str :=
  do s <- getS ;; lift (Ids.next_partname (fst tp) (snd tp) (iter_names s)).

(** Slides.add_slide.  The part name (PresentationPart._next_slide_partname, since repair
    086e8ef1): slide(n+1).xml for n p:sldId entries unless a part iter_parts yields carries that
    name already, then OpcPackage.next_partname over those parts *)
Definition m_add_slide (l : nat) : M unit :=
  do _ <- m_access_slides ;;
  do ' (_, lp, _) <- m_layout l ;;
  do s <- getS ;;
  do pp <- m_part (st_pres s) ;;
  do lpart <- m_part lp ;;
  do name <- lift (Ids.next_slide_partname (length (pt_idl pp)) (iter_names s)) ;;
  do sid <- m_new (with_phs (new_part name ct_slide 0) (pt_phs lpart)) ;;
  do _ <- m_relate sid rt_slide_layout (TInt lp) ;;
  do rid <- m_relate (st_pres s) rt_slide (TInt sid) ;;
  do pp' <- m_part (st_pres s) ;;
  m_setp (st_pres s) (with_idl pp' (pt_idl pp' ++ [rid])).

(** Package.get_or_add_image_part *)
Definition m_image (b : blobd) : M nat :=
  do s <- getS ;;
  match find_image s (b_sha b) (rel_targets s [rt_image]) with
  | Some p => ret p
  | None =>
      do name <- lift (Ids.next_image_partname (b_ext b) (iter_names s)) ;;
      m_new (new_part name (b_ct b) (b_sha b))
  end.

(** BaseSlidePart.get_or_add_image_part *)
Definition m_part_image (src : nat) (b : blobd) : M str :=
  do ip <- m_image b ;; m_relate src rt_image (TInt ip).

Definition m_add_picture (i : nat) (b : blobd) : M unit :=
  do sp <- m_slide i ;;
  do rid <- m_part_image sp b ;;
  m_add_ref sp (k_embed, rid).

Definition m_add_picture_bad (i : nat) : M unit :=
  do _ <- m_slide i ;; fail ValueErr.

Definition m_media (v : blobd) : M nat :=
  do s <- getS ;;
  do found <- lift (find_media s (b_sha v) (rel_targets s [rt_media; rt_video])) ;;
  match found with
  | Some p => ret p
  | None =>
      do name <- lift (Ids.next_media_partname (b_ext v) (iter_names s)) ;;
      m_new (new_part name (b_ct v) (b_sha v))
  end.

(** add_movie: the media part and its two relationships exist before the poster frame
    image is looked at *)
Definition m_add_movie (i : nat) (v : blobd) (po : poster) : M unit :=
  do sp <- m_slide i ;;
  do mp <- m_media v ;;
  do media_rid <- m_relate sp rt_media (TInt mp) ;;
  do video_rid <- m_relate sp rt_video (TInt mp) ;;
  do poster_rid <- match po with
                   | PDefault => m_part_image sp speaker_blob
                   | PImg b => m_part_image sp b
                   | PBad => fail ValueErr
                   end ;;
  do x <- m_part sp ;;
  m_setp sp (with_refs x (pt_refs x ++ [(k_link, video_rid); (k_embed, media_rid); (k_embed, poster_rid)])).

(** ChartWorkbook.update_from_xlsx_blob on chart part [cp] *)
Definition m_update_xlsx (cp : nat) : M unit :=
  do c <- m_part cp ;;
  match pt_idl c with
  | rid :: _ => do _ <- lift (related_part rid (pt_rels c)) ;; ret tt
  | [] =>
      do name <- m_next_partname tp_xlsx ;;
      do xp <- m_new (new_part name ct_xlsx 0) ;;
      do rid <- m_relate cp rt_package (TInt xp) ;;
      do c' <- m_part cp ;;
      m_setp cp (with_idl c' [rid])
  end.

Definition m_add_chart (i : nat) : M unit :=
  do sp <- m_slide i ;;
  do name <- m_next_partname tp_chart ;;
  do cp <- m_new (new_part name ct_chart 0) ;;
  do _ <- m_update_xlsx cp ;;
  do rid <- m_relate sp rt_chart (TInt cp) ;;
  m_add_ref sp (k_id, rid).

(** chart parts of a slide in the order of their graphic frames *)
Definition chart_parts (x : part) : list nat :=
  flat_map (fun kr =>
    if str_eqb (fst kr) k_id then
      match find_rel (snd kr) (pt_rels x) with
      | Some r => if str_eqb (rr_type r) rt_chart
                  then match rr_tgt r with TInt p => [p] | TExt _ => [] end else []
      | None => []
      end
    else []) (pt_refs x).

Definition m_replace_data (i j : nat) : M bool :=
  do sp <- m_slide i ;;
  do x <- m_part sp ;;
  match nth_error (chart_parts x) j with
  | None => ret false
  | Some cp => do _ <- m_class cp ct_chart ;; do _ <- m_update_xlsx cp ;; ret true
  end.

Definition ole_spec (k : olek) : (str * str) * str * str :=
  match k with
  | OXlsx => (tp_xlsx, ct_xlsx, rt_package)
  | ODocx => (tp_docx, ct_docx, rt_package)
  | OPptx => (tp_pptx, ct_pptx, rt_package)
  | OGeneric => (tp_ole, ct_ole, rt_ole)
  end.

Definition m_add_ole (i : nat) (k : olek) : M unit :=
  do sp <- m_slide i ;;
  let '(tp, ct, rt) := ole_spec k in
  do name <- m_next_partname tp ;;
  do ep <- m_new (new_part name ct 0) ;;
  do ole_rid <- m_relate sp rt (TInt ep) ;;
  do icon_rid <- m_part_image sp (icon_blob k) ;;
  do x <- m_part sp ;;
  m_setp sp (with_refs x (pt_refs x ++ [(k_id, ole_rid); (k_embed, icon_rid)])).

(** PresentationPart.notes_master_part *)
Definition m_notes_master : M nat :=
  do s <- getS ;;
  match st_nm s with
  | Some p => ret p
  | None =>
      do pp <- m_part (st_pres s) ;;
      match part_with_reltype rt_notes_master (pt_rels pp) with
      | Ok p => do s1 <- getS ;; do _ <- putS (with_nm s1 (Some p)) ;; ret p
      | Err ValueErr => fail ValueErr
      | Err _ =>
          do nm <- m_new (new_part n_notes_master ct_notes_master 0) ;;
          do tname <- m_next_partname tp_theme ;;
          do th <- m_new (new_part tname ct_theme 0) ;;
          do _ <- m_relate nm rt_theme (TInt th) ;;
          do _ <- m_relate (st_pres s) rt_notes_master (TInt nm) ;;
          do s1 <- getS ;; do _ <- putS (with_nm s1 (Some nm)) ;; ret nm
      end
  end.

(** SlidePart.notes_slide; result: the notes slide part *)
Definition m_notes (sp : nat) : M nat :=
  do x <- m_part sp ;;
  match part_with_reltype rt_notes_slide (pt_rels x) with
  | Ok p => do _ <- m_class p ct_notes_slide ;;
            do _ <- (if pt_notes x then ret tt else m_setp sp (with_notes x true)) ;; ret p
  | Err e =>
      if pt_notes x then fail e     (* evaluated before, relationship gone since: not reachable by the operations *)
      else match e with
      | ValueErr => fail ValueErr
      | _ =>
          do nm <- m_notes_master ;;
          do nname <- m_next_partname tp_notes_slide ;;
          (* the cloned notes placeholder is the one link slot of a notes slide *)
          do np <- m_new (with_slots (new_part nname ct_notes_slide 0) [(None, None)]) ;;
          do _ <- m_relate np rt_notes_master (TInt nm) ;;
          do _ <- m_relate np rt_slide (TInt sp) ;;
          do _ <- m_class nm ct_notes_master ;;     (* clone_master_placeholders reads notes_master_part.notes_master *)
          do _ <- m_relate sp rt_notes_slide (TInt np) ;;
          do x' <- m_part sp ;;
          do _ <- m_setp sp (with_notes x' true) ;; ret np
      end
  end.

(** ** hyperlinks and slide jumps *)

Definition slot_get (w : which) (cr : option str * option str) : option str :=
  match w with WClick => fst cr | WRun => snd cr end.
Definition slot_set (w : which) (cr : option str * option str) (o : option str) : option str * option str :=
  match w with WClick => (o, snd cr) | WRun => (fst cr, o) end.

(** _remove_hlink / _clear_click_action / _remove_hlinkClick: drop_rel, then the element goes *)
Definition m_clear_slot (p : nat) (w : which) (j : nat) : M unit :=
  do x <- m_part p ;;
  match nth_error (pt_slots x) j with
  | None => fail IndexErr
  | Some cr =>
      match slot_get w cr with
      | None => ret tt
      | Some rid =>
          do x1 <- lift (drop_rel x rid) ;;
          m_setp p (with_slots x1 (Ids.set_nth j (slot_set w cr None) (pt_slots x1)))
      end
  end.

Definition m_fill_slot (p : nat) (w : which) (j : nat) (rid : str) : M unit :=
  do x <- m_part p ;;
  match nth_error (pt_slots x) j with
  | None => fail IndexErr
  | Some cr => m_setp p (with_slots x (Ids.set_nth j (slot_set w cr (Some rid)) (pt_slots x)))
  end.

Definition m_has_slot (p j : nat) : M bool :=
  do x <- m_part p ;; ret (match nth_error (pt_slots x) j with Some _ => true | None => false end).

Definition m_set_link (p : nat) (w : which) (j : nat) (url : str) : M unit :=
  do _ <- m_clear_slot p w j ;;
  match url with
  | [] => ret tt
  | _ => do rid <- m_relate p rt_hyperlink (TExt url) ;; m_fill_slot p w j rid
  end.

Definition m_set_jump (p j tp : nat) : M unit :=
  do _ <- m_clear_slot p WClick j ;;
  do rid <- m_relate p rt_slide (TInt tp) ;;
  m_fill_slot p WClick j rid.

(** _Relationship.target_ref (through its cache when [lz]) *)
Definition m_target_ref (lz : bool) (p : nat) (rid : str) : M str :=
  do x <- m_part p ;;
  match find_rel rid (pt_rels x) with
  | None => fail KeyErr
  | Some r =>
      match rr_tgt r, rr_ref r with
      | TExt u, _ => ret u
      | TInt _, Some c => ret c
      | TInt q, None =>
          do s <- getS ;;
          let c := Opc.rel_ref (name_of (st_parts s) q) (pt_base x) in
          if negb lz then ret c else
          do _ <- m_setp p (with_rels x (map (fun r' => if str_eqb (rr_id r') rid
                                                          then mkR (rr_id r') (rr_type r') (rr_tgt r') (Some c)
                                                          else r') (pt_rels x))) ;;
          ret c
      end
  end.

Definition m_read_link (lz : bool) (p : nat) (w : which) (j : nat) : M (option (option str)) :=
  do x <- m_part p ;;
  match nth_error (pt_slots x) j with
  | None => ret None
  | Some cr =>
      match slot_get w cr with
      | None => ret (Some None)
      | Some rid => do u <- m_target_ref lz p rid ;; ret (Some (Some u))
      end
  end.

(** ** SlideLayouts.remove *)

Definition m_layout_of (sp : nat) : M nat :=
  do x <- m_part sp ;; do l <- lift (part_with_reltype rt_slide_layout (pt_rels x)) ;;
  do _ <- m_class l ct_slide_layout ;; ret l.

Fixpoint m_used (lp : nat) (slides : list str) : M bool :=
  match slides with
  | [] => ret false
  | rid :: r =>
      do s <- getS ;;
      do pp <- m_part (st_pres s) ;;
      do sp <- lift (related_part rid (pt_rels pp)) ;;
      do _ <- m_class sp ct_slide ;;
      do l <- m_layout_of sp ;;
      do rest <- m_used lp r ;;        (* the tuple is built before it is tested *)
      ret (Nat.eqb l lp || rest)
  end.

Definition remove_nth_str (i : nat) (l : list str) : list str := Ids.remove_nth i l.

Definition m_remove_layout (l : nat) : M unit :=
  do ' (m, lp, rid) <- m_layout l ;;
  do _ <- m_access_slides ;;
  do s <- getS ;;
  do pp <- m_part (st_pres s) ;;
  do used <- m_used lp (pt_idl pp) ;;
  if used then fail ValueErr else
  do mp <- m_part m ;;
  do _ <- m_setp m (with_idl mp (remove_nth_str l (pt_idl mp))) ;;
  do lpart <- m_part lp ;;
  do m' <- lift (part_with_reltype rt_slide_master (pt_rels lpart)) ;;
  do _ <- m_class m' ct_slide_master ;;
  do mp' <- m_part m' ;;
  do mp'' <- lift (drop_rel mp' rid) ;;
  m_setp m' mp''.

(** ** Package.core_properties *)
Definition m_core : M unit :=
  do s <- getS ;;
  match st_core s with
  | Some _ => ret tt
  | None =>
      match part_with_reltype rt_core (st_prels s) with
      | Ok p => putS (with_core s (Some p))
      | Err ValueErr => fail ValueErr
      | Err _ =>
          do cp <- m_new (new_part n_core ct_core 0) ;;
          do s1 <- getS ;;
          do ' (rs, _) <- lift (get_or_add rt_core (TInt cp) (st_prels s1)) ;;
          putS (with_core (with_prels s1 rs) (Some cp))
      end
  end.

(** ** save *)

Definition fill_ref (parts : list part) (base : str) (r : relr) : relr :=
  match rr_tgt r, rr_ref r with
  | TInt q, None => mkR (rr_id r) (rr_type r) (rr_tgt r) (Some (Opc.rel_ref (name_of parts q) base))
  | _, _ => r
  end.

(** what _Relationships.xml writes for one relationship, through the lazyproperty *)
Definition out_rel (parts : list part) (base : str) (r : relr) : Opc.rel :=
  match rr_tgt r with
  | TExt u => Opc.mkRel (rr_id r) (rr_type r) u Opc.MExt
  | TInt q =>
      Opc.mkRel (rr_id r) (rr_type r)
                (match rr_ref r with Some c => c | None => Opc.rel_ref (name_of parts q) base end)
                Opc.MInt
  end.

Definition out_rels (parts : list part) (base : str) (rs : list relr) : list Opc.rel :=
  map (out_rel parts base) (Opc.sort_by (fun a b => Opc.rid_leb (rr_id a) (rr_id b)) rs).

Definition tenv (T : tables) : Opc.env unit :=
  Opc.mkEnv unit (fun _ => None) (fun _ => tt) (fun _ => None) (fun _ => tt) (fun _ => None)
            (t_def T) [] (t_init T) [] rt_office_document.

Fixpoint mapi_aux {A B} (f : nat -> A -> B) (i : nat) (l : list A) : list B :=
  match l with [] => [] | x :: r => f i x :: mapi_aux f (S i) r end.
Definition mapi {A B} (f : nat -> A -> B) (l : list A) : list B := mapi_aux f O l.

Definition memn (n : nat) (l : list nat) : bool := existsb (Nat.eqb n) l.

(** OpcPackage.save: every relationship of the package and of every part that is written
    has its target_ref evaluated (and, under the former lazyproperty, thereby fixed) *)
Definition save_state (lz : bool) (s : state) : state :=
  if negb lz then s else
  let pids := iter_pids s in
  let parts := st_parts s in
  mkS (mapi (fun i x => if memn i pids
                        then with_rels x (map (fill_ref parts (pt_base x)) (pt_rels x)) else x) parts)
      (map (fill_ref parts s_slash) (st_prels s))
      (st_pres s) (st_mrid s) (st_slides s) (st_nm s) (st_core s).

Definition save_phys (T : tables) (s : state) : physpkg :=
  let pids := filter (fun p => match getp s p with Some _ => true | None => false end) (iter_pids s) in
  let parts := st_parts s in
  let plist := flat_map (fun p => match getp s p with Some x => [Opc.mkPart (pt_name x) (pt_ct x) tt []] | None => [] end) pids in
  mkPhys (Opc.content_types_item (tenv T) plist)
         (out_rels parts s_slash (st_prels s))
         (flat_map (fun p => match getp s p with
                             | Some x => [mkMem (pt_name x) p (out_rels parts (pt_base x) (pt_rels x))]
                             | None => []
                             end) pids).

(** ** one operation *)

Definition fin {A} (f : A -> outcome) (m : M A) (s : state) : state * outcome :=
  let '(s1, r) := m s in
  (s1, match r with Ok a => f a | Err e => Refused e end).
Definition done (_ : unit) : outcome := Done.

Definition step (lz : bool) (T : tables) (s : state) (o : op) : state * outcome :=
  match o with
  | AccessSlides => fin done m_access_slides s
  | AddSlide l => fin done (m_add_slide l) s
  | AddPlainShape i =>
      fin done (do sp <- m_slide i ;; do x <- m_part sp ;;
                m_setp sp (with_slots x (pt_slots x ++ [(None, None)]))) s
  | AddPicture i b => fin done (m_add_picture i b) s
  | AddPictureBad i => fin done (m_add_picture_bad i) s
  | InsertPicture i b =>
      fin (fun ok : bool => if ok then Done else NA)
          (do sp <- m_slide i ;; do x <- m_part sp ;;
           match pt_phs x with
           | O => ret false
           | S n =>
               do rid <- m_part_image sp b ;;
               do x' <- m_part sp ;;
               do _ <- m_setp sp (with_phs (with_refs x' (pt_refs x' ++ [(k_embed, rid)])) n) ;;
               ret true
           end) s
  | AddMovie i v po => fin done (m_add_movie i v po) s
  | AddChart i => fin done (m_add_chart i) s
  | ReplaceData i j => fin (fun ok : bool => if ok then Done else NA) (m_replace_data i j) s
  | AddOle i k => fin done (m_add_ole i k) s
  | AccessNotes i => fin (fun _ : nat => Done) (do sp <- m_slide i ;; m_notes sp) s
  | SetLink w i j url =>
      fin (fun ok : bool => if ok then Done else NA)
          (do sp <- m_slide i ;; do h <- m_has_slot sp j ;;
           if h then do _ <- m_set_link sp w j url ;; ret true else ret false) s
  | ClearLink w i j =>
      fin (fun ok : bool => if ok then Done else NA)
          (do sp <- m_slide i ;; do h <- m_has_slot sp j ;;
           if h then do _ <- m_clear_slot sp w j ;; ret true else ret false) s
  | ReadLink w i j =>
      fin (fun r : option (option str) => match r with Some v => Read v | None => NA end)
          (do sp <- m_slide i ;; m_read_link lz sp w j) s
  | SetJump i j k =>
      fin (fun ok : bool => if ok then Done else NA)
          (do sp <- m_slide i ;; do h <- m_has_slot sp j ;;
           if h then do tp <- m_slide k ;; do _ <- m_set_jump sp j tp ;; ret true else ret false) s
  | ClearJump i j =>
      fin (fun ok : bool => if ok then Done else NA)
          (do sp <- m_slide i ;; do h <- m_has_slot sp j ;;
           if h then do _ <- m_clear_slot sp WClick j ;; ret true else ret false) s
  | SetNotesJump i k =>
      fin (fun ok : bool => if ok then Done else NA)
          (do sp <- m_slide i ;; do np <- m_notes sp ;; do h <- m_has_slot np 0 ;;
           if h then do tp <- m_slide k ;; do _ <- m_set_jump np 0 tp ;; ret true else ret false) s
  | ClearNotesJump i =>
      fin (fun ok : bool => if ok then Done else NA)
          (do sp <- m_slide i ;; do np <- m_notes sp ;; do h <- m_has_slot np 0 ;;
           if h then do _ <- m_clear_slot np WClick 0 ;; ret true else ret false) s
  | RemoveLayout l => fin done (m_remove_layout l) s
  | AccessCoreProps => fin done m_core s
  | Save => let s1 := save_state lz s in (s1, Saved (save_phys T s1))
  end.

Definition run (lz : bool) (T : tables) (s : state) (ops : list op) : state :=
  fold_left (fun st o => fst (step lz T st o)) ops s.

(* ------------------------------------------------------------------------------ *)
(** * Closed: the property's statement about a saved package, decidable form *)

Definition rels_member (name : str) (rels : list Opc.rel) : list str :=
  match rels with [] => [] | _ => [Opc.rels_item_name name] end.

(** zip member names in write order *)
Definition member_names (ph : physpkg) : list str :=
  Opc.ct_uri :: Opc.rels_item_name Opc.root
  :: flat_map (fun m => pm_name m :: rels_member (pm_name m) (pm_rels m)) (ph_members ph).

Definition find_member (ph : physpkg) (name : str) : option pmember :=
  find (fun m => str_eqb (pm_name m) name) (ph_members ph).

(** an internal Target of source [src] names a member, and that member holds the part the
    in-memory relationship [rid] of [rels] points to *)
Definition target_ok (ph : physpkg) (src : str) (mem_rels : list relr) (r : Opc.rel) : bool :=
  match Opc.r_mode r with
  | Opc.MExt => true
  | _ =>
      match from_rel_ref (baseURI src) (Opc.r_target r) with
      | Err _ => false
      | Ok n =>
          match find_member ph n, find_rel (Opc.r_id r) mem_rels with
          | Some m, Some x => match rr_tgt x with TInt q => Nat.eqb q (pm_pid m) | TExt _ => false end
          | _, _ => false
          end
      end
  end.

Definition c_names (ph : physpkg) : bool := Opc.nodupb (member_names ph).

(** content type the item offers for a part name: the Override carrying exactly that name,
    else the Default of its (lower-cased) extension.  Override names are compared exactly:
    part names that differ only in letter case are outside this model (the independent
    oracle of the check compares them the OPC way). *)
Definition ct_resolve (c : Opc.cts) (name : str) : res str :=
  match Opc.lookup name (snd c) with
  | Some t => Ok t
  | None => match Opc.lookup (Opc.lower (ext name)) (fst c) with
            | Some t => Ok t
            | None => Err KeyErr
            end
  end.

Definition c_types (s : state) (ph : physpkg) : bool :=
  Opc.nodupb (map fst (fst (ph_cts ph))) && Opc.nodupb (map fst (snd (ph_cts ph)))
  && forallb (fun m => match getp s (pm_pid m), ct_resolve (ph_cts ph) (pm_name m) with
                       | Some x, Ok ct => str_eqb ct (pt_ct x)
                       | _, _ => false
                       end) (ph_members ph).

Definition c_targets (s : state) (ph : physpkg) : bool :=
  forallb (target_ok ph Opc.root (st_prels s)) (ph_prels ph)
  && forallb (fun m => match getp s (pm_pid m) with
                       | Some x => forallb (target_ok ph (pm_name m) (pt_rels x)) (pm_rels m)
                       | None => false
                       end) (ph_members ph).

Definition c_refs (s : state) (ph : physpkg) : bool :=
  forallb (fun m => match getp s (pm_pid m) with
                    | Some x => forallb (fun kr => mem_str (snd kr) (map Opc.r_id (pm_rels m))) (all_refs x)
                    | None => false
                    end) (ph_members ph).

Definition c_main (s : state) (ph : physpkg) : bool :=
  match filter (fun r => str_eqb (Opc.r_type r) rt_office_document) (ph_prels ph) with
  | [r] =>
      match Opc.r_mode r with
      | Opc.MExt => false
      | _ => match from_rel_ref (baseURI Opc.root) (Opc.r_target r) with
             | Ok n => match find_member ph n with
                       | Some m => Nat.eqb (pm_pid m) (st_pres s)
                       | None => false
                       end
             | Err _ => false
             end
      end
  | _ => false
  end.

Definition closedb (s : state) (ph : physpkg) : bool :=
  c_names ph && c_types s ph && c_targets s ph && c_refs s ph && c_main s ph.

Definition Closed (s : state) (ph : physpkg) : Prop := closedb s ph = true.

(* ------------------------------------------------------------------------------ *)
(** * Vocabulary of the theorems (props/C02.v) *)

(** relationship types whose rIds the hyperlink / slide-jump setters hand out and drop *)
Definition link_types : list str := [rt_hyperlink; rt_slide].

Definition s_slides_dir : str := Eval vm_compute in asc "/ppt/slides".
Definition s_bin : str := Eval vm_compute in asc "bin".

(** content types of the parts the operations create *)
Definition new_part_cts : list str :=
  [ct_slide; ct_notes_slide; ct_notes_master; ct_theme; ct_chart; ct_xlsx; ct_docx; ct_pptx; ct_ole; ct_core;
   ct_png; ct_emf].   (* the built-in poster frame and the OLE icons *)

(** content types PartFactory maps to a part class with behaviour of its own *)
Definition class_cts : list str :=
  [ct_slide; ct_notes_slide; ct_notes_master; ct_chart; ct_slide_master; ct_slide_layout].

Definition slot_rids (x : part) : list str := map snd (slot_refs (pt_slots x)).

(** what holds of every part object, reached or not; [n] is the number of part objects *)
Record good_part (n : nat) (x : part) : Prop := mkGood {
  gp_name : Opc.part_name (pt_name x);
  gp_base : pt_base x = baseURI (pt_name x);
  gp_tgts : forall q, In q (int_targets (pt_rels x)) -> q < n;
  gp_keys : NoDup (map rr_id (pt_rels x));
  gp_nocache : forall r, In r (pt_rels x) -> rr_ref r = None;
  (* every r: attribute names a relationship of the part *)
  gp_refs : forall kr, In kr (all_refs x) -> In (snd kr) (map rr_id (pt_rels x));
  (* attributes other than r:id never name a hyperlink or slide-jump relationship ... *)
  gp_embed : forall k r x', In (k, r) (all_refs x) -> k <> k_id ->
             find_rel r (pt_rels x) = Some x' -> ~ In (rr_type x') link_types;
  (* ... and the link slots name nothing else *)
  gp_slots : forall r, In r (slot_rids x) ->
             exists x', find_rel r (pt_rels x) = Some x' /\ In (rr_type x') link_types;
  gp_slide_idl : (pt_ct x = ct_slide \/ pt_ct x = ct_notes_slide) -> pt_idl x = [];
  gp_master : pt_ct x = ct_slide_master ->
              NoDup (pt_idl x) /\
              (forall kr, In kr (pt_refs x ++ slot_refs (pt_slots x)) -> ~ In (snd kr) (pt_idl x)) /\
              (forall r x', In r (pt_idl x) -> find_rel r (pt_rels x) = Some x' -> rr_type x' <> rt_slide_master)
}.

Definition reach_part (s : state) (p : nat) (x : part) : Prop := In p (iter_pids s) /\ getp s p = Some x.

(** no two reached parts share an extension while carrying different content types that
    the default table both lists for it (the side condition of C01_payload_type) *)
Definition clash_free (T : tables) (s : state) : Prop :=
  forall p q x y, reach_part s p x -> reach_part s q y ->
    Opc.lower (ext (pt_name x)) = Opc.lower (ext (pt_name y)) ->
    Opc.in_table (t_def T) (Opc.lower (ext (pt_name x))) (pt_ct x) = true ->
    Opc.in_table (t_def T) (Opc.lower (ext (pt_name y))) (pt_ct y) = true -> pt_ct x = pt_ct y.

(** the slide id list resolves to distinct parts; they are exactly the reached parts in the
    slides directory; once prs.slides has been evaluated they are called slide1..n in order *)
Definition slides_ok (s : state) : Prop :=
  exists pp tg, getp s (st_pres s) = Some pp /\
    Forall2 (fun rid q => related_part rid (pt_rels pp) = Ok q) (pt_idl pp) tg /\
    NoDup tg /\
    (forall q, In q tg -> baseURI (name_of (st_parts s) q) = s_slides_dir) /\
    (forall p x, reach_part s p x -> baseURI (pt_name x) = s_slides_dir -> In p tg) /\
    (st_slides s = true -> forall j q, nth_error tg j = Some q ->
                                       name_of (st_parts s) q = Ids.slide_name (N.of_nat j + 1)%N).

(** a layout listed by a slide master names that master as its own *)
Definition master_ok (s : state) : Prop :=
  forall m mx rid lp lx m', getp s m = Some mx -> pt_ct mx = ct_slide_master ->
    In rid (pt_idl mx) -> related_part rid (pt_rels mx) = Ok lp -> getp s lp = Some lx ->
    part_with_reltype rt_slide_master (pt_rels lx) = Ok m' -> m' = m.

(** the two fixed part names are taken only by the parts the lazy creators look for *)
Definition fixed_ok (s : state) : Prop :=
  (forall pp, getp s (st_pres s) = Some pp -> In n_notes_master (iter_names s) ->
              filter (fun r => str_eqb (rr_type r) rt_notes_master) (pt_rels pp) <> []) /\
  (In n_core (iter_names s) -> filter (fun r => str_eqb (rr_type r) rt_core) (st_prels s) <> []) /\
  (forall pp p, getp s (st_pres s) = Some pp -> st_nm s = Some p ->
                part_with_reltype rt_notes_master (pt_rels pp) = Ok p).

Record Inv (T : tables) (s : state) : Prop := mkInv {
  iv_parts : forall p x, getp s p = Some x -> good_part (length (st_parts s)) x;
  iv_ptgts : forall q, In q (int_targets (st_prels s)) -> q < length (st_parts s);
  iv_pkeys : NoDup (map rr_id (st_prels s));
  iv_pnocache : forall r, In r (st_prels s) -> rr_ref r = None;
  iv_names : NoDup (iter_names s);
  iv_main : exists r, filter (fun r => str_eqb (rr_type r) rt_office_document) (st_prels s) = [r]
                      /\ rr_tgt r = TInt (st_pres s);
  iv_pres : exists pp, getp s (st_pres s) = Some pp /\ ~ In (pt_ct pp) class_cts;
  iv_clash : clash_free T s;
  iv_slides : slides_ok s;
  iv_master : master_ok s;
  iv_fixed : fixed_ok s
}.

(** the tables of the writer: lower-case initial defaults, each once; two content types that
    both earn a Default for one extension are equal (since repair d5752757 a Default stands
    only for an extension the table maps to a single type, so this holds of every table);
    no part the operations create is typed like a bin default *)
Record tables_ok (T : tables) : Prop := mkTok {
  tk_env : Opc.env_ok (tenv T);
  tk_fun : forall e c1 c2, Opc.in_table (t_def T) e c1 = true -> Opc.in_table (t_def T) e c2 = true ->
                           c1 <> c2 -> e = s_bin;
  tk_bin : forall c, In c new_part_cts -> Opc.in_table (t_def T) s_bin c = false
}.

(** a file handed to the API: its extension has no dot and no slash, its content type is not
    one the default table lists for bin *)
Definition ext_ok (e : str) : bool := forallb (fun c => negb (is_dot c) && not_slash c) e.
Definition blob_ok (T : tables) (b : blobd) : Prop :=
  ext_ok (b_ext b) = true /\ Opc.in_table (t_def T) s_bin (b_ct b) = false /\ ~ In (b_ct b) class_cts.

Definition op_ok (T : tables) (o : op) : Prop :=
  match o with
  | AddPicture _ b | InsertPicture _ b => blob_ok T b
  | AddMovie _ v po => blob_ok T v /\ match po with PImg b => blob_ok T b | _ => True end
  | _ => True
  end.

(** ---- decidable form of Inv (sound, see proofs/PkgOps_proofs.v): printed by the runner for
    every input deck so that the check can confirm its decks meet the hypothesis of the
    theorems; used for the non-vacuity examples ---- *)

Definition good_partb (n : nat) (x : part) : bool :=
  Opc.part_nameb (pt_name x) && str_eqb (pt_base x) (baseURI (pt_name x))
  && forallb (fun q => Nat.ltb q n) (int_targets (pt_rels x))
  && Opc.nodupb (map rr_id (pt_rels x))
  && forallb (fun r => match rr_ref r with None => true | Some _ => false end) (pt_rels x)
  && forallb (fun kr => mem_str (snd kr) (map rr_id (pt_rels x))) (all_refs x)
  && forallb (fun kr => str_eqb (fst kr) k_id
                        || match find_rel (snd kr) (pt_rels x) with
                           | Some x' => negb (mem_str (rr_type x') link_types)
                           | None => true
                           end) (all_refs x)
  && forallb (fun r => match find_rel r (pt_rels x) with
                       | Some x' => mem_str (rr_type x') link_types
                       | None => false
                       end) (slot_rids x)
  && (negb (str_eqb (pt_ct x) ct_slide || str_eqb (pt_ct x) ct_notes_slide)
      || match pt_idl x with [] => true | _ => false end)
  && (negb (str_eqb (pt_ct x) ct_slide_master)
      || (Opc.nodupb (pt_idl x)
          && forallb (fun kr => negb (mem_str (snd kr) (pt_idl x))) (pt_refs x ++ slot_refs (pt_slots x))
          && forallb (fun r => match find_rel r (pt_rels x) with
                               | Some x' => negb (str_eqb (rr_type x') rt_slide_master)
                               | None => true
                               end) (pt_idl x))).

Fixpoint nodupn (l : list nat) : bool :=
  match l with [] => true | x :: r => negb (memn x r) && nodupn r end.

Fixpoint resolve_all (rs : list relr) (rids : list str) : option (list nat) :=
  match rids with
  | [] => Some []
  | r :: l => match related_part r rs, resolve_all rs l with
              | Ok q, Some t => Some (q :: t)
              | _, _ => None
              end
  end.

Fixpoint names_from (parts : list part) (i : N) (tg : list nat) : bool :=
  match tg with
  | [] => true
  | q :: t => str_eqb (name_of parts q) (Ids.slide_name i) && names_from parts (i + 1)%N t
  end.

Definition intabb (T : tables) (x : part) : bool :=
  Opc.in_table (t_def T) (Opc.lower (ext (pt_name x))) (pt_ct x).

Definition iter_parts (s : state) : list part :=
  flat_map (fun p => match getp s p with Some x => [x] | None => [] end) (iter_pids s).

Definition clashb (T : tables) (s : state) : bool :=
  forallb (fun x => forallb (fun y =>
    negb (str_eqb (Opc.lower (ext (pt_name x))) (Opc.lower (ext (pt_name y))) && intabb T x && intabb T y)
    || str_eqb (pt_ct x) (pt_ct y)) (iter_parts s)) (iter_parts s).

Definition slidesb (s : state) : bool :=
  match getp s (st_pres s) with
  | None => false
  | Some pp =>
      match resolve_all (pt_rels pp) (pt_idl pp) with
      | None => false
      | Some tg =>
          nodupn tg
          && forallb (fun q => str_eqb (baseURI (name_of (st_parts s) q)) s_slides_dir) tg
          && forallb (fun p => negb (str_eqb (baseURI (name_of (st_parts s) p)) s_slides_dir) || memn p tg) (iter_pids s)
          && (negb (st_slides s) || names_from (st_parts s) 1%N tg)
      end
  end.

Definition masterb (s : state) : bool :=
  forallb (fun m =>
    match getp s m with
    | None => true
    | Some mx =>
        negb (str_eqb (pt_ct mx) ct_slide_master)
        || forallb (fun rid =>
             match related_part rid (pt_rels mx) with
             | Ok lp => match getp s lp with
                        | Some lx => match part_with_reltype rt_slide_master (pt_rels lx) with
                                     | Ok m' => Nat.eqb m' m
                                     | Err _ => true
                                     end
                        | None => true
                        end
             | Err _ => true
             end) (pt_idl mx)
    end) (seq 0 (length (st_parts s))).

Definition has_type (t : str) (rs : list relr) : bool :=
  match filter (fun r => str_eqb (rr_type r) t) rs with [] => false | _ => true end.

Definition fixedb (s : state) : bool :=
  match getp s (st_pres s) with
  | None => false
  | Some pp =>
      (negb (mem_str n_notes_master (iter_names s)) || has_type rt_notes_master (pt_rels pp))
      && (negb (mem_str n_core (iter_names s)) || has_type rt_core (st_prels s))
      && match st_nm s with
         | None => true
         | Some p => match part_with_reltype rt_notes_master (pt_rels pp) with
                     | Ok q => Nat.eqb q p
                     | Err _ => false
                     end
         end
  end.

Definition invb (T : tables) (s : state) : bool :=
  forallb (good_partb (length (st_parts s))) (st_parts s)
  && forallb (fun q => Nat.ltb q (length (st_parts s))) (int_targets (st_prels s))
  && Opc.nodupb (map rr_id (st_prels s))
  && forallb (fun r => match rr_ref r with None => true | Some _ => false end) (st_prels s)
  && Opc.nodupb (iter_names s)
  && match filter (fun r => str_eqb (rr_type r) rt_office_document) (st_prels s) with
     | [r] => match rr_tgt r with TInt q => Nat.eqb q (st_pres s) | TExt _ => false end
     | _ => false
     end
  && match getp s (st_pres s) with Some pp => negb (mem_str (pt_ct pp) class_cts) | None => false end
  && clashb T s && slidesb s && masterb s && fixedb s.

(** decidable form of tables_ok *)
Definition tables_okb (T : tables) : bool :=
  Opc.nodupb (map fst (t_init T))
  && forallb (fun kv => str_eqb (Opc.lower (fst kv)) (fst kv)) (t_init T)
  && forallb (fun c => negb (Opc.in_table (t_def T) s_bin c)) new_part_cts.

(** ---- re-opening, structurally: what a loader that resolves each internal Target against
    the base URI of its source and looks the name up among the members (the loader of C01
    does: PackURI.from_rel_ref, then the parts dict) makes of one written relationship ---- *)
Definition reload_rel (ph : physpkg) (src : str) (r : Opc.rel) : option (str * str * tgt) :=
  match Opc.r_mode r with
  | Opc.MExt => Some (Opc.r_id r, Opc.r_type r, TExt (Opc.r_target r))
  | _ => match from_rel_ref (baseURI src) (Opc.r_target r) with
         | Ok n => match find_member ph n with
                   | Some m => Some (Opc.r_id r, Opc.r_type r, TInt (pm_pid m))
                   | None => None                       (* dangling: the loader drops it *)
                   end
         | Err _ => None
         end
  end.

Definition mem_graph (r : relr) : option (str * str * tgt) := Some (rr_id r, rr_type r, rr_tgt r).
