(** Runner entry point for the C18 correspondence.

    [run_c18 (op :: header :: ops)] with op = seq.  Every field is a list of code points;
    small numbers travel as single code points, big integers as decimal text.

    header   k y m d H M S      k = 0: package whose core-properties part is an empty
                                cp:coreProperties; k = 1: package without the part;
                                then the clock reading used by CorePropertiesPart.default
    ops      1 p vk payload..   assign property p (index in declaration order):
                                vk 0 str (code points), 1 int (decimal text), 2 bool (0/1),
                                3 None, 4 datetime (y m d H M S us aware sign abs-offset),
                                5 date (y m d), 6 other object (its str as code points),
                                7 int 10^k - delta (k delta)
             2 p x text..       write the text of the child element of p directly
                                (get_or_add), x = 1: with xsi:type dcterms:W3CDTF, else without
             3                  save and re-open (identity on the model state)
             4                  access core_properties only
    Every op first accesses Package.core_properties.  Output: one record per op, joined
    by semicolons: result, the 15 readings, the children, validity.

    The codec of model/CorePropsCodec.v (docProps/core.xml as text):
    [run_c18 (enc :: r :: children)]   r = 0 template root, 1 root of the default part; one field
                                per child: tag index (15 + n: an undeclared child), xsi flag,
                                no-text-node mark, then the text.  Output: the document as
                                space-separated code points.
    [run_c18 [dec; text]]       none when dec_core_r refuses the text, else the root kind, the
                                15 readings, the children, validity. *)
From V.lib Require Import Prelude Wire Calendar.
From V.model Require Import CoreProps CorePropsCodec.

Definition op_seq : str := [115; 101; 113]%N.
Definition c_semi : N := 59%N.
Definition c_comma : N := 44%N.

Definition zN (n : N) : Z := Z.of_N n.

Definition parse_dt6 (l : list N) : option (datetime * list N) :=
  match l with
  | y :: m :: d :: h :: mi :: s :: r => Some (mkDT (zN y) (zN m) (zN d) (zN h) (zN mi) (zN s), r)
  | _ => None
  end.

Definition parse_pyv (l : list N) : option pyv :=
  match l with
  | 0%N :: s => Some (VStr s)
  | 1%N :: s => match parse_Z s with Some z => Some (VInt z) | None => None end
  | 2%N :: b :: _ => Some (VBool (negb (N.eqb b 0)))
  | 3%N :: _ => Some VNone
  | 4%N :: r =>
      match parse_dt6 r with
      | Some (t, us :: aware :: sg :: ab :: _) =>
          Some (VDt (mkPydt t (zN us)
                       (if N.eqb aware 0 then None
                        else Some (if N.eqb sg 0 then zN ab else (- zN ab)%Z))))
      | _ => None
      end
  | 5%N :: y :: m :: d :: _ => Some (VDate (zN y) (zN m) (zN d))
  | 6%N :: s => Some (VOther s)
  | 7%N :: k :: delta :: _ => Some (VInt (10 ^ zN k - zN delta)%Z)
  | _ => None
  end.

Definition prop_of_idx (i : N) : option prop := nth_error all_props (N.to_nat i).

Definition show_dt (t : datetime) : str :=
  join_with [32%N] (map show_Z [dt_year t; dt_month t; dt_day t; dt_hour t; dt_minute t; dt_second t]).

Definition show_out (r : res outv) : str :=
  match r with
  | Ok (OStr s) => [115; 58]%N ++ show_str s
  | Ok (ODt None) => w_none
  | Ok (ODt (Some t)) => [100; 58]%N ++ show_dt t
  | Ok (OInt z) => [105; 58]%N ++ show_Z z
  | Err e => w_err ++ show_err e
  end.

Definition show_child (c : child) : str :=
  match c_tag c with
  | TProp p => show_N (prop_idx p)
  | TOther n => 111%N :: show_N n
  end ++ 32%N :: (if c_xsi c then 120%N else 45%N) :: 58%N :: show_str (c_text c).

Definition show_obs (st : cpstate) : list str :=
  map (fun p => show_out (get_prop st p)) all_props ++
  [join_with [c_comma] (map show_child st); show_bool (valid_cp st)].

Definition show_unit_res (r : res unit) : str := show_res (fun _ => []) r.

Definition step (now : pydt) (acc : option cpstate * list str) (tok : str)
  : option cpstate * list str :=
  let '(pk, outs) := acc in
  let '(pk1, st) := core_properties pk now in
  let emit (st' : cpstate) (r : str) := (Some st', outs ++ [fields (r :: show_obs st')]) in
  match tok with
  | 1%N :: pi :: v =>
      match prop_of_idx pi, parse_pyv v with
      | Some p, Some pv => let '(st', r) := set_prop p pv st in emit st' (show_unit_res r)
      | _, _ => (pk1, outs ++ [w_badcase])
      end
  | 2%N :: pi :: x :: txt =>
      match prop_of_idx pi with
      | Some p => emit (upd p (fun c => mkChild (c_tag c) txt (negb (N.eqb x 0))) st) (show_unit_res (Ok tt))
      | None => (pk1, outs ++ [w_badcase])
      end
  | 3%N :: _ => emit st (show_unit_res (Ok tt))
  | 4%N :: _ => emit st (show_unit_res (Ok tt))
  | _ => (pk1, outs ++ [w_badcase])
  end.

(** cal lo cnt: for each ordinal n in lo .. lo+cnt-1 the civil date and its ordinal again. *)
Definition op_cal : str := [99; 97; 108]%N.
Fixpoint cal_range (n : Z) (cnt : nat) : list str :=
  match cnt with
  | O => []
  | S k =>
      let '(y, m, d) := civil_of_ordinal n in
      join_with [32%N] (map show_Z [y; m; d; ordinal (y, m, d)]) :: cal_range (n + 1)%Z k
  end.

Definition run_seq (hdr : str) (toks : list str) : str :=
  match hdr with
  | k :: h =>
      match parse_dt6 h with
      | Some (t, _) =>
          let now := mkPydt t 0%Z None in
          let init : option cpstate := if N.eqb k 0 then Some [] else None in
          join_with [c_semi] (snd (fold_left (step now) toks (init, [])))
      | None => w_badcase
      end
  | [] => w_badcase
  end.

(** ---- the codec ---- *)
Definition op_enc : str := [101; 110; 99]%N.
Definition op_dec : str := [100; 101; 99]%N.
Definition w_none_lc : str := [110; 111; 110; 101]%N.

Definition parse_wchild (f : str) : option (child * bool) :=
  match f with
  | ti :: x :: nt :: txt =>
      let tag := match prop_of_idx ti with Some p => TProp p | None => TOther (ti - 15)%N end in
      Some (mkChild tag txt (negb (N.eqb x 0)), negb (N.eqb nt 0))
  | _ => None
  end.

Fixpoint parse_wchildren (fs : list str) : option (list (child * bool)) :=
  match fs with
  | [] => Some []
  | f :: r =>
      match parse_wchild f, parse_wchildren r with
      | Some c, Some l => Some (c :: l)
      | _, _ => None
      end
  end.

Definition rootk_of (a : str) : option rootk :=
  match a with
  | [0%N] => Some RTemplate
  | [1%N] => Some RDefault
  | _ => None
  end.

Definition run_enc (a : str) (rest : list str) : str :=
  match rootk_of a, parse_wchildren rest with
  | Some r, Some w => show_str (enc_core_m r w)
  | _, _ => w_badcase
  end.

Definition run_dec (text : str) : str :=
  match dec_core_r text with
  | Some (r, st) => fields ((match r with RTemplate => [48%N] | RDefault => [49%N] end) :: show_obs st)
  | None => w_none_lc
  end.

Definition run_c18 (args : list str) : str :=
  match args with
  | op :: a :: rest =>
      if str_eqb op op_cal then
        match rest with
        | [cnt] =>
            match parse_Z a, parse_nat cnt with
            | Some l, Some c => join_with [c_comma] (cal_range l c)
            | _, _ => w_badcase
            end
        | _ => w_badcase
        end
      else if str_eqb op op_seq then run_seq a rest
      else if str_eqb op op_enc then run_enc a rest
      else if str_eqb op op_dec then (match rest with [] => run_dec a | _ => w_badcase end)
      else w_badcase
  | _ => w_badcase
  end.
