(** Runner for the C10 correspondence: tag lists travel as fields (one number per tag). *)
From V.lib Require Import Prelude Wire.
From V.model Require Import Schema Xmlchemy.

Definition op_ins : str := [105; 110; 115]%N.   (* ins *)
Definition op_goa : str := [103; 111; 97]%N.    (* goa *)
Definition op_rem : str := [114; 101; 109]%N.   (* rem *)
Definition op_chg : str := [99; 104; 103]%N.    (* chg *)

Definition op_fst : str := [102; 115; 116]%N.   (* fst: insert at index 0 *)
Definition op_gof : str := [103; 111; 102]%N.   (* gof: get_or_add through an index-0 inserter *)

Definition run_c10 (args : list str) : str :=
  match args with
  | [op; [x]; Sx; l] =>
      if str_eqb op op_ins then show_str (insert_before x Sx l)
      else if str_eqb op op_goa then show_str (get_or_add x Sx l)
      else w_badcase
  | [op; ts; l] =>
      if str_eqb op op_rem then show_str (remove_all ts l)
      else match ts with
           | [x] => if str_eqb op op_fst then show_str (x :: l)
                    else if str_eqb op op_gof then show_str (if memt x l then l else x :: l)
                    else w_badcase
           | _ => w_badcase
           end
  | [op; [x]; members; Sx; l] =>
      if str_eqb op op_chg then show_str (get_or_change_to x members Sx l) else w_badcase
  | _ => w_badcase
  end.
