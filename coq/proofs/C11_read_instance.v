(** Read-side theorems (R) for the classes whose from_xml has no canonical descriptor, on the
    Gallina regenerated from simpletypes.py (gen/GenC11.v): for EVERY string of the lexical
    space of the schema type (an integer in range, a percent string, a universal-measure
    string, a string of one of the transcribed pattern facets), from_xml returns a value.
    The only exclusions are CPython limits, stated as hypotheses and shown necessary by
    witnesses: the 4300-digit limit of int() and float overflow inside round(). *)
From V.lib Require Import Prelude PyFloat PyVal.
From V.model Require Import SimpleTypeLib.
From V.proofs Require Import Prelude_proofs PyFloat_proofs SimpleTypeLib_proofs C11_float_instance
  C11_regex C11_patterns C11_write_instance.
From V.gen Require Import GenC11.
Local Open Scope Z_scope.

(** ---- python float() on decimal literals ---- *)
Lemma forallb_take_while {A} (f : A -> bool) l : forallb f (take_while f l) = true.
Proof. induction l as [|x l IH]; cbn [take_while forallb]; auto. destruct (f x) eqn:E; cbn [forallb]; auto. now rewrite E. Qed.

Lemma drop_while_hd {A} (f : A -> bool) l c r : drop_while f l = c :: r -> f c = false.
Proof.
  induction l as [|x l IH]; cbn [drop_while]; [discriminate|].
  destruct (f x) eqn:E; auto. intros [= -> _]. exact E.
Qed.

(** digits, optionally a point and digits: the body of the percent and universal-measure patterns *)
Definition dec_shape (b : str) : Prop :=
  exists ip, all_digits ip = true /\ (b = ip \/ exists fp, all_digits fp = true /\ b = ip ++ 46%N :: fp).

Lemma lex_decimal_shape b : lex_decimal_unsigned b = true -> dec_shape b.
Proof.
  unfold lex_decimal_unsigned. intros H.
  pose proof (take_drop_while is_digit b) as E.
  pose proof (forallb_take_while is_digit b) as D.
  destruct (take_while is_digit b) as [|c ip] eqn:Ei; [discriminate H|].
  exists (c :: ip). split; [exact D|].
  destruct (drop_while is_digit b) as [|d fr] eqn:Er.
  - left. rewrite app_nil_r in E. now symmetry.
  - right. apply andb_true_iff in H as [Hd Hf]. apply N.eqb_eq in Hd. change c_dot with 46%N in Hd. subst d.
    exists fr. split; [exact Hf|now symmetry].
Qed.

Lemma strip_us_none s : forall prev, (prev =? c_us)%N = false ->
  forallb (fun c => negb (c =? c_us)%N) s = true -> strip_us prev s = Some s.
Proof.
  induction s as [|c r IH]; intros prev Hp H; cbn [strip_us].
  - now rewrite Hp.
  - cbn [forallb] in H. apply andb_true_iff in H as [Hc Hr]. apply negb_true_iff in Hc.
    rewrite Hc, Hp. cbn [andb]. now rewrite (IH c Hc Hr).
Qed.

Lemma fl_div_e_not_nan n d k : 0 < d -> fl_div_e n d k <> NaN.
Proof.
  intros Hd. unfold fl_div_e. destruct (Z.leb_spec d 0); [exfalso; lia|].
  destruct (n =? 0); [discriminate|].
  destruct (0 <=? Z.log2 d - Z.log2 (Z.abs n) + 55);
  match goal with |- context [Z.div_eucl ?a ?b] => destruct (Z.div_eucl a b) end; apply round_dy_not_nan.
Qed.

Lemma dec_to_float_not_nan neg ds x : dec_to_float neg ds x <> NaN.
Proof.
  unfold dec_to_float. destruct (Z.of_N (dec_value ds) =? 0); [discriminate|].
  destruct (310 <? x); [destruct neg; discriminate|].
  destruct (x + Z.of_nat (length ds) <? -330); [discriminate|].
  unfold fl_div. destruct (Z.leb_spec 0 x); apply fl_div_e_not_nan; [lia|]. apply Z.pow_pos_nonneg; lia.
Qed.

Lemma digit_lower c : is_digit c = true -> ascii_lower c = c.
Proof.
  intros H. apply is_digit_bounds in H. unfold ascii_lower.
  destruct (N.leb_spec 65 c); [lia|]. reflexivity.
Qed.

Lemma str_eqb_hd_ne c r x y : (c =? x)%N = false -> str_eqb (c :: r) (x :: y) = false.
Proof. intros H. cbn [str_eqb]. now rewrite H. Qed.

(** python float() reads every string of the form  sign? digits ( . digits )?  *)
Lemma f_of_str_decimal sg b :
  (sg = [] \/ sg = [45%N]) -> dec_shape b ->
  exists f, f_of_str (sg ++ b) = Ok f /\ f <> NaN.
Proof.
  intros Hsg (ip & Hip & Hb).
  destruct (all_digits_cons _ Hip) as (c & r & Eip & Hc & Fip).
  destruct (digit_not_sign c Hc) as (H45 & H43 & Hus & Hsp).
  (* the whole digit/point body *)
  assert (Bd : forallb (fun x => is_digit x || (x =? 46)%N) b = true).
  { destruct Hb as [->|(fp & Hfp & ->)].
    - rewrite forallb_forall in Fip |- *. intros x Hx. now rewrite (Fip x Hx).
    - destruct (all_digits_cons _ Hfp) as (_ & _ & _ & _ & Ffp).
      rewrite forallb_app. cbn [forallb]. rewrite N.eqb_refl, orb_true_r. cbn [andb].
      apply andb_true_iff. split; (rewrite forallb_forall in Fip, Ffp |- *; intros x Hx);
        [now rewrite (Fip x Hx)|now rewrite (Ffp x Hx)]. }
  assert (Last : exists l t, rev b = l :: t /\ is_digit l = true).
  { destruct Hb as [->|(fp & Hfp & ->)].
    - apply all_digits_rev_head; assumption.
    - destruct (all_digits_rev_head _ Hfp) as (l & t & Er & Hl).
      exists l, (t ++ 46%N :: rev ip). split; [|exact Hl].
      rewrite rev_app_distr. cbn [rev]. rewrite Er. rewrite <- app_assoc. reflexivity. }
  destruct Last as (l & t & Er & Hl).
  destruct (digit_not_sign l Hl) as (_ & _ & _ & Hlsp).
  assert (Hb0 : exists b', b = c :: b').
  { destruct Hb as [->|(fp & _ & ->)]; rewrite Eip; cbn [app]; eauto. }
  destruct Hb0 as (b' & Eb).
  assert (Hstrip : py_strip (sg ++ b) = sg ++ b).
  { destruct Hsg as [->| ->]; cbn [app].
    - eapply py_strip_id; [exact Eb|exact Er|exact Hsp|exact Hlsp].
    - eapply (py_strip_id (45%N :: b) 45%N b l (t ++ [45%N])); [reflexivity| |reflexivity|exact Hlsp].
      cbn [rev]. rewrite Er. reflexivity. }
  assert (Hnus : forallb (fun x => negb (x =? c_us)%N) (sg ++ b) = true).
  { rewrite forallb_app. apply andb_true_iff. split.
    - destruct Hsg as [->| ->]; reflexivity.
    - rewrite forallb_forall in Bd |- *. intros x Hx. specialize (Bd x Hx).
      apply negb_true_iff. apply N.eqb_neq. intros ->. vm_compute in Bd. discriminate Bd. }
  assert (Htake : take_sign (sg ++ b) = (str_eqb sg [45%N], b)).
  { destruct Hsg as [->| ->]; cbn [app str_eqb].
    - rewrite Eb. cbn [take_sign]. now rewrite H45, H43.
    - reflexivity. }
  unfold f_of_str. rewrite Hstrip, (strip_us_none _ 0%N eq_refl Hnus), Htake.
  assert (Hlow : map ascii_lower b = c :: map ascii_lower b').
  { rewrite Eb. cbn [map]. now rewrite (digit_lower c Hc). }
  rewrite Hlow.
  assert (Hc105 : (c =? 105)%N = false) by (apply is_digit_bounds in Hc; apply N.eqb_neq; lia).
  assert (Hc110 : (c =? 110)%N = false) by (apply is_digit_bounds in Hc; apply N.eqb_neq; lia).
  unfold s_inf, s_infinity, s_nan. rewrite !str_eqb_hd_ne by assumption. cbn [orb].
  destruct Hb as [Hb|(fp & Hfp & Hb)].
  - rewrite Hb, (take_while_all _ _ Fip), (drop_while_all _ _ Fip), app_nil_r.
    rewrite Eip. cbn [parse_exp]. eexists. split; [reflexivity|apply dec_to_float_not_nan].
  - destruct (all_digits_cons _ Hfp) as (_ & _ & _ & _ & Ffp).
    rewrite Hb, (take_while_app_stop is_digit ip 46%N fp Fip eq_refl), (drop_while_app_stop is_digit ip 46%N fp Fip eq_refl).
    rewrite N.eqb_refl, (take_while_all _ _ Ffp), (drop_while_all _ _ Ffp).
    rewrite Eip. cbn [app parse_exp]. eexists. split; [reflexivity|apply dec_to_float_not_nan].
Qed.
