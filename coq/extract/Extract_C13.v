From Coq Require Import Extraction ExtrOcamlBasic.
From V.model Require Import PlaceholderRun.
Extraction Language OCaml.
Cd "extract".
Extraction "c13.ml" run_c13.
Cd "..".
