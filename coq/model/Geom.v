(** Model of the geometry code of python-pptx that property C17 talks about:
    - src/pptx/shapes/connector.py: begin_x/begin_y/end_x/end_y getters and the four
      case-analysed setters, including the attribute validation performed by every
      single write (ST_Coordinate / ST_PositiveCoordinate) and therefore the partial
      state a setter leaves behind when a later write is refused;
    - src/pptx/shapes/shapetree.py: _add_cxnSp (no validation: values go through a
      string template);
    - src/pptx/oxml/shapes/groupshape.py: _child_extents and recalculate_extents
      (recursive upward from the group that received the new member; a nested group
      counts with its own a:off / a:ext);
    - src/pptx/shapes/base.py left / top / width / height setters over
      oxml/shapes/shared.py BaseShapeElement.x / y / cx / cy (validated, one attribute
      written, nothing recalculated) on an existing member, shape or group, and group
      frames written by other producers (a:off / a:ext different from a:chOff / a:chExt);
    - src/pptx/shapes/freeform.py: FreeformBuilder (rounded vertices, shape_offset,
      _dx/_dy, _left/_top/_width/_height, _local_to_shape) with the int-times-float
      product modelled as an IEEE-754 binary64 operation.
    Definitions only; proofs live in proofs/Geom_proofs.v. *)
From V.lib Require Import Prelude.
Open Scope Z_scope.

(* ------------------------------------------------------------------ validation *)

(** ST_CoordinateUnqualified.validate and ST_PositiveCoordinate.validate. *)
Definition COORD_LO : Z := -27273042329600.
Definition COORD_HI : Z := 27273042316900.
Definition coord_ok (v : Z) : bool := (COORD_LO <=? v) && (v <=? COORD_HI).
Definition pos_ok (v : Z) : bool := (0 <=? v) && (v <=? COORD_HI).

(* ------------------------------------------------------------------ connector *)

(** The a:xfrm of a p:cxnSp: off/@x, off/@y, ext/@cx, ext/@cy, @flipH, @flipV. *)
Record conn := mkConn {
  c_x : Z; c_y : Z; c_cx : Z; c_cy : Z; c_fh : bool; c_fv : bool }.

Definition begin_x (c : conn) : Z := if c_fh c then c_x c + c_cx c else c_x c.
Definition begin_y (c : conn) : Z := if c_fv c then c_y c + c_cy c else c_y c.
Definition end_x (c : conn) : Z := if c_fh c then c_x c else c_x c + c_cx c.
Definition end_y (c : conn) : Z := if c_fv c then c_y c else c_y c + c_cy c.

(** _BaseGroupShapes._add_cxnSp *)
Definition add_cxn (bx by_ ex ey : Z) : conn :=
  mkConn (Z.min bx ex) (Z.min by_ ey) (Z.abs (ex - bx)) (Z.abs (ey - by_))
         (ex <? bx) (ey <? by_).

(** One attribute assignment on the xfrm. *)
Inductive wr := WX (v : Z) | WY (v : Z) | WCX (v : Z) | WCY (v : Z)
              | WFH (b : bool) | WFV (b : bool).

Definition wr_ok (w : wr) : bool :=
  match w with
  | WX v | WY v => coord_ok v
  | WCX v | WCY v => pos_ok v
  | WFH _ | WFV _ => true
  end.

Definition wr_apply (c : conn) (w : wr) : conn :=
  match w with
  | WX v => mkConn v (c_y c) (c_cx c) (c_cy c) (c_fh c) (c_fv c)
  | WY v => mkConn (c_x c) v (c_cx c) (c_cy c) (c_fh c) (c_fv c)
  | WCX v => mkConn (c_x c) (c_y c) v (c_cy c) (c_fh c) (c_fv c)
  | WCY v => mkConn (c_x c) (c_y c) (c_cx c) v (c_fh c) (c_fv c)
  | WFH b => mkConn (c_x c) (c_y c) (c_cx c) (c_cy c) b (c_fv c)
  | WFV b => mkConn (c_x c) (c_y c) (c_cx c) (c_cy c) (c_fh c) b
  end.

(** The assignments of a setter body are executed in order; the first refused one
    raises ValueError and the earlier ones stay applied. *)
Fixpoint do_writes (c : conn) (ws : list wr) : conn * option pyerr :=
  match ws with
  | [] => (c, None)
  | w :: r => if wr_ok w then do_writes (wr_apply c w) r else (c, Some ValueErr)
  end.

(** The writes the begin-side setter performs on one axis: [p] position, [e] extent,
    [f] flip, [v] new value; [wp we wf] build the writes of that axis. *)
Definition begin_writes (wp we : Z -> wr) (wf : bool -> wr) (p e : Z) (f : bool) (v : Z)
  : list wr :=
  if f then
    let old := p + e in
    let d := Z.abs (v - old) in
    if old <=? v then [we (e + d)]
    else if d <=? e then [we (e - d)]
    else [wf false; wp v; we (d - e)]
  else
    let d := Z.abs (v - p) in
    if v <=? p then [wp v; we (e + d)]
    else if d <=? e then [wp v; we (e - d)]
    else [wf true; wp (p + e); we (d - e)].

Definition end_writes (wp we : Z -> wr) (wf : bool -> wr) (p e : Z) (f : bool) (v : Z)
  : list wr :=
  if f then
    let d := Z.abs (v - p) in
    if v <=? p then [wp v; we (e + d)]
    else if d <=? e then [wp v; we (e - d)]
    else [wf false; wp (p + e); we (d - e)]
  else
    let old := p + e in
    let d := Z.abs (v - old) in
    if old <=? v then [we (e + d)]
    else if d <=? e then [we (e - d)]
    else [wf true; wp v; we (d - e)].

Inductive cop := SetBX (v : Z) | SetBY (v : Z) | SetEX (v : Z) | SetEY (v : Z).

Definition cop_writes (c : conn) (op : cop) : list wr :=
  match op with
  | SetBX v => begin_writes WX WCX WFH (c_x c) (c_cx c) (c_fh c) v
  | SetBY v => begin_writes WY WCY WFV (c_y c) (c_cy c) (c_fv c) v
  | SetEX v => end_writes WX WCX WFH (c_x c) (c_cx c) (c_fh c) v
  | SetEY v => end_writes WY WCY WFV (c_y c) (c_cy c) (c_fv c) v
  end.

(** One property assignment: new state and the exception raised, if any. *)
Definition cstep (c : conn) (op : cop) : conn * option pyerr := do_writes c (cop_writes c op).

Definition set_begin_x c v := cstep c (SetBX v).
Definition set_begin_y c v := cstep c (SetBY v).
Definition set_end_x c v := cstep c (SetEX v).
Definition set_end_y c v := cstep c (SetEY v).

(** A history of assignments on one connector object; a raising assignment leaves
    its partial state and the history continues (the caller caught the exception). *)
Definition cstep_st (c : conn) (op : cop) : conn := fst (cstep c op).
Definition conn_run (c : conn) (ops : list cop) : conn := fold_left cstep_st ops c.

(** The same history, giving up at the first exception. *)
Fixpoint conn_run_ok (c : conn) (ops : list cop) : option conn :=
  match ops with
  | [] => Some c
  | op :: r => match cstep c op with
               | (c', None) => conn_run_ok c' r
               | (_, Some _) => None
               end
  end.

(** Trace: outcome and state after every assignment. *)
Fixpoint conn_trace (c : conn) (ops : list cop) : list (conn * option pyerr) :=
  match ops with
  | [] => []
  | op :: r => let s := cstep c op in s :: conn_trace (fst s) r
  end.

(** The abstract connector: the two end points. *)
Record seg := mkSeg { s_bx : Z; s_by : Z; s_ex : Z; s_ey : Z }.
Definition abs_conn (c : conn) : seg := mkSeg (begin_x c) (begin_y c) (end_x c) (end_y c).
Definition seg_step (s : seg) (op : cop) : seg :=
  match op with
  | SetBX v => mkSeg v (s_by s) (s_ex s) (s_ey s)
  | SetBY v => mkSeg (s_bx s) v (s_ex s) (s_ey s)
  | SetEX v => mkSeg (s_bx s) (s_by s) v (s_ey s)
  | SetEY v => mkSeg (s_bx s) (s_by s) (s_ex s) v
  end.

(* ------------------------------------------------------------------ groups *)

(** grpSpPr/a:xfrm of a p:grpSp: off, ext, chOff, chExt. *)
Record gxf := mkG {
  g_x : Z; g_y : Z; g_cx : Z; g_cy : Z;
  g_chx : Z; g_chy : Z; g_chcx : Z; g_chcy : Z }.

Definition gxf0 : gxf := mkG 0 0 0 0 0 0 0 0.     (* CT_GroupShape.new_grpSp *)

(** A shape element: anything with an xfrm (p:sp, p:pic, p:cxnSp, ...) or a group. *)
Inductive shape :=
| Leaf (x y cx cy : Z)
| Grp (g : gxf) (kids : list shape).

Definition sh_x (s : shape) : Z := match s with Leaf x _ _ _ => x | Grp g _ => g_x g end.
Definition sh_y (s : shape) : Z := match s with Leaf _ y _ _ => y | Grp g _ => g_y g end.
Definition sh_cx (s : shape) : Z := match s with Leaf _ _ cx _ => cx | Grp g _ => g_cx g end.
Definition sh_cy (s : shape) : Z := match s with Leaf _ _ _ cy => cy | Grp g _ => g_cy g end.

(** Python min / max over a non-empty list given as head and tail. *)
Definition min_list (h : Z) (t : list Z) : Z := fold_left Z.min t h.
Definition max_list (h : Z) (t : list Z) : Z := fold_left Z.max t h.

(** CT_GroupShape._child_extents *)
Definition child_extents (kids : list shape) : Z * Z * Z * Z :=
  match kids with
  | [] => (0, 0, 0, 0)
  | k :: r =>
      let min_x := min_list (sh_x k) (map sh_x r) in
      let min_y := min_list (sh_y k) (map sh_y r) in
      let max_x := max_list (sh_x k + sh_cx k) (map (fun s => sh_x s + sh_cx s) r) in
      let max_y := max_list (sh_y k + sh_cy k) (map (fun s => sh_y s + sh_cy s) r) in
      (min_x, min_y, max_x - min_x, max_y - min_y)
  end.

(** The eight assignments of recalculate_extents; each is validated, every refusal
    is a ValueError. *)
Definition recalc_g (kids : list shape) : res gxf :=
  match child_extents kids with
  | (x, y, cx, cy) =>
      if coord_ok x && coord_ok y && pos_ok cx && pos_ok cy
      then Ok (mkG x y cx cy x y cx cy)
      else Err ValueErr
  end.

Definition set_nth {A} (i : nat) (a : A) (l : list A) : list A :=
  firstn i l ++ a :: skipn (S i) l.

(** Append [new] to the group reached from [s] by the child indices [p]; the receiving
    group and then each of its ancestors up to [s] get recalculate_extents (innermost
    first).  Every add_* method of GroupShapes ends this way: add_shape, add_textbox,
    add_picture, add_connector call _recalculate_extents, add_group_shape calls
    recalculate_extents on the new (empty, hence all-zero) group which recurses upward,
    FreeformBuilder.convert_to_shape calls _recalculate_extents of its shape collection.
    A path that does not lead to a group is an IndexErr of the test driver. *)
Fixpoint add_in (p : list nat) (new : shape) (s : shape) {struct p} : res shape :=
  match s with
  | Leaf _ _ _ _ => Err IndexErr
  | Grp g kids =>
      match p with
      | [] =>
          let kids' := kids ++ [new] in
          bind (recalc_g kids') (fun g' => Ok (Grp g' kids'))
      | i :: p' =>
          match nth_error kids i with
          | None => Err IndexErr
          | Some k =>
              bind (add_in p' new k) (fun k' =>
                let kids' := set_nth i k' kids in
                bind (recalc_g kids') (fun g' => Ok (Grp g' kids')))
          end
      end
  end.

(** A slide (p:spTree): its recalculate_extents does nothing. *)
Definition slide := list shape.

Definition slide_add (p : list nat) (new : shape) (sl : slide) : res slide :=
  match p with
  | [] => Ok (sl ++ [new])
  | i :: p' =>
      match nth_error sl i with
      | None => Err IndexErr
      | Some k => bind (add_in p' new k) (fun k' => Ok (set_nth i k' sl))
      end
  end.

(** The kinds of member the add_* methods create: something with an xfrm, or a new
    empty group (CT_GroupShape.new_grpSp: all zeros). *)
Inductive member := MLeaf (x y cx cy : Z) | MGroup.
Definition member_shape (m : member) : shape :=
  match m with MLeaf x y cx cy => Leaf x y cx cy | MGroup => Grp gxf0 [] end.

Record gop := mkGop { go_path : list nat; go_new : member }.

Definition gstep (sl : slide) (op : gop) : res slide :=
  slide_add (go_path op) (member_shape (go_new op)) sl.

(** A history of additions, giving up at the first error. *)
Fixpoint slide_run (sl : slide) (ops : list gop) : res slide :=
  match ops with
  | [] => Ok sl
  | op :: r => bind (gstep sl op) (fun sl' => slide_run sl' r)
  end.

(** Trace: the slide after every addition, ending at the first error. *)
Fixpoint slide_trace (sl : slide) (ops : list gop) : list (res slide) :=
  match ops with
  | [] => []
  | op :: r => match gstep sl op with
               | Ok sl' => Ok sl' :: slide_trace sl' r
               | Err e => [Err e]
               end
  end.

(** The group's xfrm is the bounding box of its members (zeros when it has none). *)
Definition box_okb (g : gxf) (kids : list shape) : bool :=
  match child_extents kids with
  | (x, y, cx, cy) =>
      (g_x g =? x) && (g_y g =? y) && (g_cx g =? cx) && (g_cy g =? cy) &&
      (g_chx g =? x) && (g_chy g =? y) && (g_chcx g =? cx) && (g_chcy g =? cy)
  end.

Fixpoint consistentb (s : shape) : bool :=
  match s with
  | Leaf _ _ _ _ => true
  | Grp g kids => box_okb g kids && forallb consistentb kids
  end.

(* ---- moving or resizing an existing member; frames written by another producer ---- *)

(** BaseShape.left / top / width / height of an existing member (p:sp, p:pic, p:cxnSp
    or p:grpSp): the setter of BaseShapeElement validates the value (ST_Coordinate for
    x / y, ST_PositiveCoordinate for cx / cy, refusal is a ValueError raised before
    anything is written) and then writes that one attribute of a:off or a:ext.  On a
    group this is a:off / a:ext of grpSpPr/a:xfrm only: a:chOff / a:chExt keep their
    values, the members are not touched and NO group is recalculated, neither the
    group itself nor the one that contains the member. *)
Inductive fld := FLeft | FTop | FWidth | FHeight.

Definition fld_ok (f : fld) (v : Z) : bool :=
  match f with FLeft | FTop => coord_ok v | FWidth | FHeight => pos_ok v end.

Definition set_fld (f : fld) (v : Z) (s : shape) : shape :=
  match s with
  | Leaf x y cx cy =>
      match f with
      | FLeft => Leaf v y cx cy | FTop => Leaf x v cx cy
      | FWidth => Leaf x y v cy | FHeight => Leaf x y cx v
      end
  | Grp g kids =>
      Grp (match f with
           | FLeft => mkG v (g_y g) (g_cx g) (g_cy g) (g_chx g) (g_chy g) (g_chcx g) (g_chcy g)
           | FTop => mkG (g_x g) v (g_cx g) (g_cy g) (g_chx g) (g_chy g) (g_chcx g) (g_chcy g)
           | FWidth => mkG (g_x g) (g_y g) v (g_cy g) (g_chx g) (g_chy g) (g_chcx g) (g_chcy g)
           | FHeight => mkG (g_x g) (g_y g) (g_cx g) v (g_chx g) (g_chy g) (g_chcx g) (g_chcy g)
           end) kids
  end.

Definition assign_node (f : fld) (v : Z) (s : shape) : res shape :=
  if fld_ok f v then Ok (set_fld f v s) else Err ValueErr.

(** The a:xfrm of a group as another producer wrote it (a group that was moved or
    scaled as a whole has a:off / a:ext different from a:chOff / a:chExt): all eight
    numbers are replaced, the members stay.  A path that leads to something that is
    not a group is an IndexErr of the test driver. *)
Definition reframe_node (g0 : gxf) (s : shape) : res shape :=
  match s with
  | Leaf _ _ _ _ => Err IndexErr
  | Grp _ kids => Ok (Grp g0 kids)
  end.

(** Apply [u] to the member reached from [s] by the child indices [p].  The groups
    walked through keep their xfrm: nothing above the member is recalculated. *)
Fixpoint upd_in (p : list nat) (u : shape -> res shape) (s : shape) {struct p} : res shape :=
  match p with
  | [] => u s
  | i :: p' =>
      match s with
      | Leaf _ _ _ _ => Err IndexErr
      | Grp g kids =>
          match nth_error kids i with
          | None => Err IndexErr
          | Some k => bind (upd_in p' u k) (fun k' => Ok (Grp g (set_nth i k' kids)))
          end
      end
  end.

(** On a slide; the empty path is the slide itself, which has no frame. *)
Definition slide_upd (p : list nat) (u : shape -> res shape) (sl : slide) : res slide :=
  match p with
  | [] => Err IndexErr
  | i :: p' =>
      match nth_error sl i with
      | None => Err IndexErr
      | Some k => bind (upd_in p' u k) (fun k' => Ok (set_nth i k' sl))
      end
  end.

(** Histories of additions, assignments to existing members, frames rewritten by
    another producer, and save + re-open (which keeps every number). *)
Inductive hop :=
| HAdd (p : list nat) (new : shape)
| HSet (p : list nat) (f : fld) (v : Z)
| HFrame (p : list nat) (g : gxf)
| HReopen.

Definition hstep (sl : slide) (op : hop) : res slide :=
  match op with
  | HAdd p new => slide_add p new sl
  | HSet p f v => slide_upd p (assign_node f v) sl
  | HFrame p g => slide_upd p (reframe_node g) sl
  | HReopen => Ok sl
  end.

Fixpoint hist_run (sl : slide) (ops : list hop) : res slide :=
  match ops with
  | [] => Ok sl
  | op :: r => bind (hstep sl op) (fun sl' => hist_run sl' r)
  end.

Definition hop_of_gop (op : gop) : hop := HAdd (go_path op) (member_shape (go_new op)).

(** The member at a path below a shape / on a slide. *)
Definition kids_of (s : shape) : list shape :=
  match s with Leaf _ _ _ _ => [] | Grp _ kids => kids end.

Fixpoint sub_at (q : list nat) (s : shape) {struct q} : option shape :=
  match q with
  | [] => Some s
  | i :: q' => match nth_error (kids_of s) i with Some k => sub_at q' k | None => None end
  end.

Definition slide_at (q : list nat) (sl : slide) : option shape :=
  match q with
  | [] => None
  | i :: q' => match nth_error sl i with Some k => sub_at q' k | None => None end
  end.

(** This one shape, if a group, has the bounding box of its members' own frames. *)
Definition shape_okb (s : shape) : bool :=
  match s with Leaf _ _ _ _ => true | Grp g kids => box_okb g kids end.

(* ------------------------------------------------------------------ freeform *)

(** Round-half-even of n/d for d > 0: Python round() on an exact value. *)
Definition rhe (n d : Z) : Z :=
  let q := n / d in
  let r := n mod d in
  if 2 * r <? d then q
  else if d <? 2 * r then q + 1
  else if Z.even q then q else q + 1.

(** A finite binary64 value or an exact integer is a dyadic number m * 2^e. *)
Definition dyad := (Z * Z)%type.

(** Round a dyadic number to 53 significant bits, ties to even (unbounded exponent). *)
Definition fl53 (x : dyad) : dyad :=
  let (m, e) := x in
  let n := Z.log2 (Z.abs m) + 1 in
  if n <=? 53 then (m, e)
  else let k := n - 53 in (rhe m (2 ^ k), e + k).

(** The rounded value does not fit binary64: magnitude at least 2^1024. *)
Definition dy_ovf (x : dyad) : bool :=
  let (m, e) := x in
  negb (m =? 0) && (1024 <=? Z.log2 (Z.abs m) + e).

(** int(round(x)) for a finite float x. *)
Definition dy_to_int (x : dyad) : Z :=
  let (m, e) := x in
  if 0 <=? e then m * 2 ^ e else rhe m (2 ^ (- e)).

(** The scale argument: a Python int, or a finite float m * 2^e. *)
Inductive scale := SInt (z : Z) | SFlt (m e : Z).

(** int(round(v * s)) for an int v: exact for an int scale; for a float scale v is
    converted to binary64 (OverflowError when too large), multiplied (rounded to
    nearest even, infinity on overflow), and round() of an infinity is OverflowError.
    A product in the subnormal range is below one half in magnitude under either
    precision, so rounding it to 53 bits gives the same integer, zero. *)
Definition mul_scale (v : Z) (s : scale) : res Z :=
  match s with
  | SInt z => Ok (v * z)
  | SFlt m e =>
      let a := fl53 (v, 0) in
      if dy_ovf a then Err OverflowErr
      else
        let p := fl53 (fst a * m, snd a + e) in
        if dy_ovf p then Err OverflowErr else Ok (dy_to_int p)
  end.

(** Drawing operations, coordinates already rounded to int. *)
Inductive fop := FLine (x y : Z) | FMove (x y : Z) | FClose.

Record fbuilder := mkFb {
  fb_sx : Z; fb_sy : Z; fb_xs : scale; fb_ys : scale; fb_ops : list fop }.

Definition fmin_x (m : Z) (op : fop) : Z :=
  match op with FLine x _ | FMove x _ => Z.min m x | FClose => m end.
Definition fmax_x (m : Z) (op : fop) : Z :=
  match op with FLine x _ | FMove x _ => Z.max m x | FClose => m end.
Definition fmin_y (m : Z) (op : fop) : Z :=
  match op with FLine _ y | FMove _ y => Z.min m y | FClose => m end.
Definition fmax_y (m : Z) (op : fop) : Z :=
  match op with FLine _ y | FMove _ y => Z.max m y | FClose => m end.

Definition off_x (b : fbuilder) : Z := fold_left fmin_x (fb_ops b) (fb_sx b).  (* shape_offset_x *)
Definition off_y (b : fbuilder) : Z := fold_left fmin_y (fb_ops b) (fb_sy b).
Definition hi_x (b : fbuilder) : Z := fold_left fmax_x (fb_ops b) (fb_sx b).
Definition hi_y (b : fbuilder) : Z := fold_left fmax_y (fb_ops b) (fb_sy b).
Definition fdx (b : fbuilder) : Z := hi_x b - off_x b.                        (* _dx *)
Definition fdy (b : fbuilder) : Z := hi_y b - off_y b.                        (* _dy *)

(** The operation in shape coordinates (_local_to_shape / apply_operation_to). *)
Definition shift_op (ox oy : Z) (op : fop) : fop :=
  match op with
  | FLine x y => FLine (x - ox) (y - oy)
  | FMove x y => FMove (x - ox) (y - oy)
  | FClose => FClose
  end.

(** What convert_to_shape writes: xfrm of the p:sp, a:path w/h and the path children. *)
Record fshape := mkFs {
  f_left : Z; f_top : Z; f_width : Z; f_height : Z; f_w : Z; f_h : Z; f_path : list fop }.

Definition convert (b : fbuilder) (ox oy : Z) : res fshape :=
  bind (mul_scale (off_x b) (fb_xs b)) (fun l =>
  bind (mul_scale (off_y b) (fb_ys b)) (fun t =>
  bind (mul_scale (fdx b) (fb_xs b)) (fun w =>
  bind (mul_scale (fdy b) (fb_ys b)) (fun h =>
    if pos_ok (fdx b) && pos_ok (fdy b)     (* a:path w / h are ST_PositiveCoordinate *)
    then Ok (mkFs (ox + l) (oy + t) w h (fdx b) (fdy b)
                  (FMove (fb_sx b - off_x b) (fb_sy b - off_y b)
                   :: map (shift_op (off_x b) (off_y b)) (fb_ops b)))
    else Err ValueErr)))).

(** The pen positions of a builder: start point then the target of every operation
    that has one. *)
Definition op_pt (op : fop) : option (Z * Z) :=
  match op with FLine x y | FMove x y => Some (x, y) | FClose => None end.
Fixpoint op_pts (ops : list fop) : list (Z * Z) :=
  match ops with
  | [] => []
  | op :: r => match op_pt op with Some p => p :: op_pts r | None => op_pts r end
  end.
Definition pen_pts (b : fbuilder) : list (Z * Z) := (fb_sx b, fb_sy b) :: op_pts (fb_ops b).
