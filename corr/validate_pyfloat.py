"""Bit-exact validation of coq/lib/PyFloat.v (extracted runner extract/run_pyfloat)
against the CPython this script runs under.

    cd /verif && PYTHONPATH=/repo/src:/verif PYTHONHASHSEED=0 \
        /venv/bin/python corr/validate_pyfloat.py [N] [seed]

N random cases (default 200000) from ONE random.Random(seed) (default 0), plus a fixed
list of hand-picked cases.  Every model answer is compared as text with the CPython
answer: floats as the canonical pair (m, e) with m odd (0 0 for zero), or inf/-inf/nan;
exceptions as Type/Value/Overflow/Other (ZeroDivisionError -> Other).

Documented deviations encoded here (and nowhere else):
  * a numeric string containing a non-ASCII Unicode decimal digit is expected to give
    err:Value from the model although python accepts it;
  * signed zero is not modelled: -0.0 and 0.0 both canonicalise to 0 0;
  * fl_div with d <= 0 is specified to return nan.
Exit status 1 on any mismatch (first 20 listed)."""
import math
import random
import struct
import sys
from fractions import Fraction

from corr.harness import run_model

INF = float("inf")
NAN = float("nan")
DMAX = sys.float_info.max


# ------------------------------------------------------------------ canonical forms
def canon(x):
    if x != x:
        return "nan"
    if x == INF:
        return "inf"
    if x == -INF:
        return "-inf"
    if x == 0:
        return "0 0"
    n, d = x.as_integer_ratio()
    if d > 1:
        e = -(d.bit_length() - 1)
        assert d == 1 << -e and n & 1
    else:
        tz = (n & -n).bit_length() - 1
        n >>= tz
        e = tz
    # cross-check with frexp
    fm, fe = math.frexp(x)
    assert Fraction(fm) * Fraction(2) ** fe == Fraction(n) * Fraction(2) ** e
    return "%d %d" % (n, e)


def operand(x):
    c = canon(x)
    if " " in c:
        m, e = c.split(" ")
        return [m, e]
    return [c, "0"]


def exc(e):
    if isinstance(e, ZeroDivisionError):
        return "err:Other"
    if isinstance(e, OverflowError):
        return "err:Overflow"
    if isinstance(e, ValueError):
        return "err:Value"
    if isinstance(e, TypeError):
        return "err:Type"
    return "err:Other"


def fmt_int(v):
    """Decimal text of an int, also beyond the interpreter digit limit (the limit is a
    property of str(int), not of the value the parser returned)."""
    try:
        return "%d" % v
    except ValueError:
        lim = sys.get_int_max_str_digits()
        sys.set_int_max_str_digits(0)
        try:
            return "%d" % v
        finally:
            sys.set_int_max_str_digits(lim)


def ref_round_ratio(n, d):
    """Independent reference: nearest binary64 to n/d (d > 0), ties to even, by exact
    integer arithmetic; returns canonical text."""
    if n == 0:
        return "0 0"
    neg = n < 0
    a = abs(n)
    # k = floor(log2(a/d))
    k = a.bit_length() - d.bit_length()
    if (a << max(-k, 0)) < (d << max(k, 0)):
        k -= 1
    e = max(k - 52, -1074)
    num, den = (a, d << e) if e >= 0 else (a << -e, d)
    q, r = divmod(num, den)
    if 2 * r > den or (2 * r == den and q & 1):
        q += 1
    if q == 0:
        return "0 0"
    if q.bit_length() + e > 1024:
        return "-inf" if neg else "inf"
    tz = (q & -q).bit_length() - 1
    q >>= tz
    e += tz
    return "%d %d" % (-q if neg else q, e)


# ------------------------------------------------------------------ expected answers
def has_foreign_digit(s):
    return any(ord(c) > 127 and c.isdecimal() for c in s)


def expected(case):
    op = case[0]
    try:
        if op == "fldiv":
            n, d = int(case[1]), int(case[2])
            if d <= 0:
                return "nan"
            try:
                r = canon(n / d)
            except OverflowError:
                r = "-inf" if n < 0 else "inf"
            assert r == ref_round_ratio(n, d), ("reference disagrees with CPython", n, d)
            return r
        if op == "ofz":
            return "ok:" + canon(float(int(case[1])))
        if op == "strz":
            return str(int(case[1]))
        if op in ("ofstr", "intstr", "hexstr"):
            s = case[1]
            if has_foreign_digit(s):
                return "err:Value"
            if op == "ofstr":
                return "ok:" + canon(float(s))
            return "ok:" + fmt_int(int(s) if op == "intstr" else int(s, 16))
        if op in ("round", "trunc", "neg", "abs"):
            x = case[-1]
            if op == "round":
                return "ok:%d" % round(x)
            if op == "trunc":
                return "ok:%d" % int(x)
            return canon(-x if op == "neg" else abs(x))
        x, y = case[-2], case[-1]
        if op == "add":
            return canon(x + y)
        if op == "sub":
            return canon(x - y)
        if op == "mul":
            return canon(x * y)
        if op == "div":
            return "ok:" + canon(x / y)
        if op == "mod":
            return "ok:" + canon(x % y)
        if op == "cmp":
            if x != x or y != y:
                c = "None"
            else:
                c = "Lt" if x < y else ("Gt" if x > y else "Eq")
            return "|".join([c, str(x < y), str(x <= y), str(x == y)])
    except Exception as e:  # noqa
        return exc(e)
    raise AssertionError(case)


def wire(case):
    """Fields sent to the runner (floats replaced by their m e operands)."""
    op = case[0]
    if op in ("round", "trunc", "neg", "abs"):
        return [op] + operand(case[-1])
    if op in ("add", "sub", "mul", "div", "mod", "cmp"):
        return [op] + operand(case[-2]) + operand(case[-1])
    return list(case)


# ------------------------------------------------------------------ generators
SPECIAL = [0.0, -0.0, 1.0, -1.0, 0.5, 1.5, 2.5, -2.5, 3.5, 0.1, 0.2, 0.3, 1 / 3, 359.99999999,
           21474.83647, 1e-320, 1.7e308, DMAX, -DMAX, 5e-324, -5e-324, 2.2250738585072014e-308,
           2.225073858507201e-308, 4.4501477170144023e-308, 360.0, 60000.0, 100000.0, 12700.0,
           914400.0, 2.0 ** 53, 2.0 ** 53 + 2, 2.0 ** 52 + 0.5, 2.0 ** 63, -2.0 ** 63, 2.0 ** 1023,
           1e22, 1e23, 9007199254740993.0, 0.49999999999999994, 4503599627370497.5,
           INF, -INF, NAN, 1e308, 1e-308, 1e16, 4.35, 2.675, 1e-5, 21600000.0, 5400000.0]


def rand_double(rng):
    k = rng.randrange(12)
    if k == 0:
        return struct.unpack("<d", struct.pack("<Q", rng.getrandbits(64)))[0]
    if k == 1:
        return float(rng.randint(-1000, 1000))
    if k == 2:
        x = math.ldexp(1.0, rng.randint(-1074, 1023))
        for _ in range(rng.randint(0, 3)):
            x = math.nextafter(x, rng.choice((0.0, INF)))
        return x if rng.random() < 0.5 else -x
    if k == 3:
        return rng.choice(SPECIAL)
    if k == 4:
        return (rng.random() - 0.5) * 10.0 ** rng.randint(-30, 30)
    if k == 5:
        return rng.randint(-10 ** rng.randint(1, 16), 10 ** rng.randint(1, 16)) + 0.5
    if k == 6:
        return float(rng.randint(-2 ** 55, 2 ** 55))
    if k == 7:
        # decimal-looking values with a few fractional digits
        return rng.randint(-10 ** 9, 10 ** 9) / 10 ** rng.randint(0, 9)
    if k == 8:
        # subnormals and neighbours
        return math.ldexp(rng.getrandbits(rng.randint(1, 54)), -1074) * rng.choice((1, -1))
    if k == 9:
        # huge
        return math.ldexp(rng.random() + 0.5, rng.randint(1000, 1023)) * rng.choice((1, -1)) \
            if rng.random() < 0.9 else DMAX
    if k == 10:
        # random sign/exponent/mantissa with moderate exponent
        return math.ldexp(rng.getrandbits(53) | (1 << 52), rng.randint(-120, 60)) * rng.choice((1, -1))
    x = rng.choice(SPECIAL)
    if x == x and abs(x) != INF:
        for _ in range(rng.randint(1, 2)):
            x = math.nextafter(x, rng.choice((-INF, INF)))
    return x


def rand_big(rng, maxbits):
    b = rng.randint(0, maxbits)
    return rng.getrandbits(b) if b else 0


def gen_fldiv(rng):
    k = rng.randrange(12)
    sgn = rng.choice((1, -1))
    if k == 0:
        return sgn * rand_big(rng, 1200), max(1, rand_big(rng, 1200))
    if k == 1:
        return sgn * rand_big(rng, 70), max(1, rand_big(rng, 70))
    if k == 2:
        # exact ties at 54 bits, scaled by a common factor, any magnitude
        m = rng.getrandbits(53) | (1 << 52)
        c = max(1, rand_big(rng, 80))
        sh = rng.randint(-1100, 1100)
        n, d = (2 * m + 1) * c, c
        if sh >= 0:
            n <<= sh
        else:
            d <<= -sh
        return sgn * n, d
    if k == 3:
        # near ties: perturb the tie by a tiny amount
        m = rng.getrandbits(53) | (1 << 52)
        c = max(1, rand_big(rng, 200)) << 64
        sh = rng.randint(-1100, 1000)
        n, d = (2 * m + 1) * c + rng.choice((-1, 1, 0, 2, -2)), c
        if sh >= 0:
            n <<= sh
        else:
            d <<= -sh
        return sgn * n, d
    if k == 4:
        # subnormal range: (j + 1/2 +- tiny) * 2^-1074
        j = rng.getrandbits(rng.randint(0, 53)) if rng.random() < 0.8 else rng.randint(0, 4)
        c = max(1, rand_big(rng, 100))
        n = (2 * j + 1) * c * 4 + rng.choice((-1, 0, 0, 1))
        return sgn * n, (c * 4) << 1075
    if k == 5:
        # around the least subnormal and the underflow-to-zero boundary
        return sgn * max(1, rand_big(rng, 60)), max(1, rand_big(rng, 60)) << rng.randint(1000, 1140)
    if k == 6:
        # overflow threshold 2^1024 - 2^970
        c = max(1, rand_big(rng, 100))
        t = (1 << 1024) - (1 << 970)
        return sgn * (t * c + rng.choice((-1, 0, 1, -c, c))), c
    if k == 7:
        return sgn * (rand_big(rng, 60) << rng.randint(960, 1030)), max(1, rand_big(rng, 60))
    if k == 8:
        # powers of two and neighbours
        return sgn * ((1 << rng.randint(0, 1100)) + rng.choice((-1, 0, 1))), (1 << rng.randint(0, 1100)) + rng.choice((0, 0, 1, 3))
    if k == 9:
        # decimal fractions as used by unit conversions
        return sgn * rng.randint(0, 10 ** rng.randint(1, 25)), rng.choice((10, 100, 1000, 60000, 100000, 12700, 914400, 360000, 3, 7, 21600000))
    if k == 10:
        # around the normal/subnormal boundary 2^-1022
        m = (1 << 53) + rng.randint(-3, 3)
        c = max(1, rand_big(rng, 40))
        return sgn * (m * c + rng.choice((-1, 0, 1))), c << (1075 + rng.randint(-2, 2))
    # d <= 0 and n = 0
    return rng.choice((0, 0, 5, -5, rand_big(rng, 64))), rng.choice((0, -1, -rand_big(rng, 64), 1, 7))


WS = [" ", "\t", "\n", "\r", "\f", "\v", "  ", " \t", "\xa0", " ", "　", "\x85"]


def us_digits(rng, digits):
    """Insert single underscores between digits with small probability."""
    if len(digits) < 2 or rng.random() < 0.75:
        return digits
    out = digits[0]
    for ch in digits[1:]:
        if rng.random() < 0.25:
            out += "_"
        out += ch
    return out


def rand_digits(rng, maxlen, minlen=1):
    n = rng.randint(minlen, maxlen)
    if n == 0:
        return ""
    r = rng.random()
    if r < 0.1:
        return "0" * n
    if r < 0.2:
        return "0" * rng.randint(0, n - 1) + "".join(rng.choice("0123456789") for _ in range(n))
    return "".join(rng.choice("0123456789") for _ in range(n))


def tie_decimal(rng):
    """Exact decimal expansion of the midpoint of two adjacent doubles (or a double
    itself), optionally perturbed in the last place."""
    k = rng.random()
    if k < 0.3:
        m, e = rng.getrandbits(rng.randint(1, 53)), -1074      # subnormal neighbourhood
    elif k < 0.6:
        m, e = rng.getrandbits(53) | (1 << 52), rng.randint(-1074, -900)
    elif k < 0.9:
        m, e = rng.getrandbits(53) | (1 << 52), rng.randint(-120, 20)
    else:
        m, e = (1 << 53) - rng.randint(0, 2), 971               # top of the range
    mm, ee = (2 * m + 1, e - 1) if rng.random() < 0.8 else (m, e)
    if ee >= 0:
        digits, x10 = str(mm << ee), 0
    else:
        digits, x10 = str(mm * 5 ** (-ee)), ee
    p = rng.random()
    if p < 0.3:
        # digits below the last place: value = tie + tiny
        extra = rng.choice(("1", "0", "00000000000000000001", "9"))
        digits += extra
        x10 -= len(extra)
    elif p < 0.5:
        digits = str(int(digits) - 1)
    elif p < 0.6:
        digits = str(int(digits) + 1)
    return digits, x10


def gen_float_str(rng):
    k = rng.randrange(11)
    sign = rng.choice(("", "", "", "-", "+"))
    lead = rng.choice(WS) if rng.random() < 0.15 else ""
    trail = rng.choice(WS) if rng.random() < 0.15 else ""
    if k == 0:
        # value = digits * 10^x10, written with the point at a random place
        digits, x10 = tie_decimal(rng)
        point = rng.randint(0, len(digits))
        ip, fp = digits[:point], digits[point:]
        body = ip + ("." + fp if fp or rng.random() < 0.3 else "")
        return lead + sign + body + "e%d" % (x10 + len(fp)) + trail
    if k == 1:
        s = sign + us_digits(rng, rand_digits(rng, 25))
        return lead + s + trail
    if k == 2:
        s = sign + us_digits(rng, rand_digits(rng, 20, 0))
        fp = us_digits(rng, rand_digits(rng, 25, 0))
        s += "." + fp
        return lead + s + trail
    if k == 3 or k == 4:
        ip = us_digits(rng, rand_digits(rng, 22, 0))
        fp = us_digits(rng, rand_digits(rng, 22, 0))
        body = ip + ("." + fp if (fp or rng.random() < 0.3) else "")
        r = rng.random()
        if r < 0.5:
            x = rng.randint(-40, 40)
        elif r < 0.8:
            x = rng.choice((rng.randint(-360, -290), rng.randint(280, 330)))
        elif r < 0.9:
            x = rng.choice((-1, 1)) * rng.randint(300, 10 ** rng.randint(3, 30))
        else:
            x = rng.randint(-5, 5)
        xsign = "-" if x < 0 else rng.choice(("", "", "+"))
        xs = rng.choice(("e", "E")) + xsign + us_digits(rng, str(abs(x)))
        return lead + sign + body + xs + trail
    if k == 5:
        w = rng.choice(("inf", "Inf", "INF", "infinity", "Infinity", "iNfInItY", "nan", "NaN", "NAN",
                        "infinit", "in", "na", "nann", "inff", "infinityy", "i", "nan0", "1nan"))
        return lead + sign + w + trail
    if k == 6:
        return rng.choice(MALFORMED)
    if k == 7:
        # long digit strings
        n = rng.randint(30, 900)
        digits = "".join(rng.choice("0123456789") for _ in range(n))
        point = rng.randint(0, n)
        x = rng.randint(-700, 400)
        return lead + sign + digits[:point] + "." + digits[point:] + ("e%d" % x if rng.random() < 0.8 else "") + trail
    if k == 8:
        # zero padding compensated by the exponent, around the cut-offs of dec_to_float
        core = str(rng.randint(1, 10 ** rng.randint(1, 20)))
        zl, zr = rng.randint(0, 420), rng.randint(0, 420)
        if rng.random() < 0.5:
            body, shift = "0." + "0" * zl + core, -(zl + len(core))      # value = core * 10^shift
        else:
            body, shift = core + "0" * zr + rng.choice(("", ".", ".000")), zr
        target = rng.choice((rng.randint(-345, -300), rng.randint(290, 312), rng.randint(-30, 30)))
        return lead + sign + body + "e%d" % (target - shift) + trail
    # mutation of a valid literal
    base = rng.choice(("1_000.5e-3", "12.5", "-3.25e+10", "+.5", "7.", "1e5", " 12 ", "0x10", "1__0", "inf",
                       "6.02e23", "1_0e1_0", "-0.0", "00.100", "5e-324", "1.7976931348623157e308"))
    s = list(base)
    for _ in range(rng.randint(1, 2)):
        r = rng.random()
        pos = rng.randint(0, len(s))
        if r < 0.5:
            s.insert(pos, rng.choice("0123456789_.eE+- xXinfaty\t\n٣١１,"))
        elif r < 0.8 and s:
            del s[min(pos, len(s) - 1)]
        elif s:
            s[min(pos, len(s) - 1)] = rng.choice("0123456789_.eE+- ")
    return "".join(s)


MALFORMED = ["", " ", "\t\n", "+", "-", "+-1", "--1", "1__0", "_1", "1_", "_", "1_.5", "1._5", "1_e5", "1e_5",
             "1e5_", "0x10", "0X1F", "0x", "1e", "1e+", "1e-", ".", "-.", ".e1", "e1", "1_000.5e-3", " 12 ",
             "+inf", "-inf", "nan", "-nan", "+nan", "١٢", "1.5e٣", "１２.5", "12 3",
             "1 .5", "1. 5", "+ 1", "1,5", "1.2.3", "1e1e1", "1e1.5", "0b1", "0o7", "1L", "1f", "1d5",
             "infinity", "-Infinity", "in_f", "na_n", "1\x00", "\x1c1", "1\x1f", "\x851\xa0", "1.e5", ".5e",
             "1_0.0_1e0_1", "1_0._1", "0_0", "00", "0_", "1e0_", "1e+_1", "1e+1_1", "  7 　",
             "0x_1f", "0x__1", "0_x1", "x1", "-0x1f", "+0X_f", "0x1_f", "0xg", "ff", "FF", "Ab_c", "f_", "_f",
             "1e400", "-1e400", "1e-400", "0e999999999999999999", "1e999999999999999999",
             "1e-999999999999999999", "0.0e-999999999999999999", "-0", "-0.0", "0", "1" * 400,
             "2.4703282292062327e-324", "2.4703282292062328e-324", "2.47032822920623272088e-324",
             "2.470328229206232720882843964341106861825299013071623822127928412503377536351043e-324",
             "1.7976931348623158e308", "1.7976931348623159e308", "179769313486231580793728971405303415079934132710037826936173778980444968292764750946649017977587207096330286416692887910946555547851940402630657488671505820681908902000708383676273854845817711531764475730270069855571366959622842914819860834936475292719074168444365510704342711559699508093042880177904174497791.999999999999999999",
             "179769313486231580793728971405303415079934132710037826936173778980444968292764750946649017977587207096330286416692887910946555547851940402630657488671505820681908902000708383676273854845817711531764475730270069855571366959622842914819860834936475292719074168444365510704342711559699508093042880177904174497792",
             "0." + "0" * 400 + "1e400", "1" + "0" * 400 + "e-400", "0.00001e315", "0.0000000001e320",
             "0.0000000001e321", "1" + "0" * 330 + "e-654", "1" + "0" * 330 + "e-655", "0." + "0" * 330 + "1e8",
             "0." + "0" * 330 + "1e7", "4.9406564584124654e-324", "4.9406564584124655e-324",
             "9007199254740993", "9007199254740992.5", "9007199254740993.0000000001", "0.1", "0.30000000000000004"]


def gen_int_str(rng, hexa):
    k = rng.randrange(8)
    sign = rng.choice(("", "", "", "-", "+"))
    lead = rng.choice(WS) if rng.random() < 0.15 else ""
    trail = rng.choice(WS) if rng.random() < 0.15 else ""
    alphabet = "0123456789abcdefABCDEF" if hexa else "0123456789"
    if k <= 3:
        n = rng.randint(1, 40)
        digits = "".join(rng.choice(alphabet) for _ in range(n))
        if rng.random() < 0.1:
            digits = "0" * rng.randint(1, 5) + digits
        body = digits
        if rng.random() < 0.3:
            body = digits[0] + "".join(("_" if rng.random() < 0.25 else "") + c for c in digits[1:])
        pre = ""
        if rng.random() < (0.5 if hexa else 0.1):
            pre = rng.choice(("0x", "0X", "0x_", "0X_", "0x", "0x"))
        return lead + sign + pre + body + trail
    if k == 4:
        return rng.choice(MALFORMED)
    if k == 5:
        n = rng.randint(1, 12)
        return "".join(rng.choice(alphabet + "_xX+- ") for _ in range(n))
    # mutation
    base = rng.choice(("1_000", "-42", "+7", " 12 ", "0x1f", "0X_Ab", "00012", "1__0", "dead_beef", "9" * 30))
    s = list(base)
    for _ in range(rng.randint(1, 2)):
        r = rng.random()
        pos = rng.randint(0, len(s))
        if r < 0.5:
            s.insert(pos, rng.choice("0123456789_abcfxX+- gG.\t\n٣１"))
        elif r < 0.8 and s:
            del s[min(pos, len(s) - 1)]
        elif s:
            s[min(pos, len(s) - 1)] = rng.choice("0123456789_xa+- ")
    return "".join(s)


def gen_round_arg(rng):
    k = rng.randrange(6)
    if k == 0:
        return rng.randint(-10 ** rng.randint(1, 15), 10 ** rng.randint(1, 15)) + 0.5
    if k == 1:
        x = rng.randint(-10 ** 6, 10 ** 6) + 0.5
        return math.nextafter(x, rng.choice((-INF, INF)))
    if k == 2:
        return rng.choice((0.5, -0.5, 1.5, -1.5, 2.5, 0.49999999999999994, -0.49999999999999994,
                           4503599627370495.5, 4503599627370496.5, 4503599627370497.5, 9007199254740991.0,
                           2.0 ** 52 - 0.5, -(2.0 ** 52) + 0.5, DMAX, -DMAX, INF, -INF, NAN, 5e-324, 0.0, -0.0))
    return rand_double(rng)


def gen_case(rng):
    k = rng.randrange(100)
    if k < 22:
        n, d = gen_fldiv(rng)
        return ("fldiv", str(n), str(d))
    if k < 26:
        r = rng.random()
        if r < 0.4:
            z = rng.choice((1, -1)) * rand_big(rng, 1100)
        elif r < 0.6:
            z = rng.choice((1, -1)) * ((1 << rng.randint(0, 1030)) + rng.randint(-3, 3))
        elif r < 0.8:
            m = rng.getrandbits(53) | (1 << 52)
            z = rng.choice((1, -1)) * (((2 * m + 1) << rng.randint(0, 980)) + rng.choice((-1, 0, 0, 1)))
        elif r < 0.9:
            z = rng.choice((1, -1)) * ((1 << 1024) - (1 << 970) + rng.randint(-2, 2))
        else:
            z = rng.randint(-2 ** 54, 2 ** 54)
        return ("ofz", str(z))
    if k < 66:
        op = ("add", "sub", "mul", "div", "mod", "add", "mul", "div", "mod", "cmp")[rng.randrange(10)]
        x = rand_double(rng)
        r = rng.random()
        if r < 0.08:
            y = x
        elif r < 0.12:
            y = -x
        elif r < 0.2 and x == x and abs(x) != INF:
            y = math.nextafter(x, rng.choice((-INF, INF)))
        elif r < 0.3 and op == "mod":
            y = rng.choice((1.0, 360.0, 2.0, 0.1, -360.0, 1e-320, 1e300, 3.0, -1.0, 60000.0, 21600000.0))
        else:
            y = rand_double(rng)
        return (op, x, y)
    if k < 74:
        return (rng.choice(("round", "round", "trunc")), gen_round_arg(rng))
    if k < 75:
        return (rng.choice(("neg", "abs")), rand_double(rng))
    if k < 76:
        return ("strz", str(rng.choice((1, -1)) * rand_big(rng, rng.choice((8, 64, 700)))))
    if k < 90:
        return ("ofstr", gen_float_str(rng))
    if k < 95:
        return ("intstr", gen_int_str(rng, False))
    return ("hexstr", gen_int_str(rng, True))


def fixed_cases():
    cs = []
    for s in MALFORMED:
        cs += [("ofstr", s), ("intstr", s), ("hexstr", s)]
    for w in WS + ["\x1c", "\x1d", "\x1e", "\x1f", "​", " ", " ", " ", " ", " ", "﻿"]:
        for body in ("12", "1.5", "ff"):
            cs += [(op, w + body + w) for op in ("ofstr", "intstr", "hexstr")]
            cs += [(op, body + w) for op in ("ofstr", "intstr", "hexstr")]
            cs += [(op, body[0] + w + body[1:]) for op in ("ofstr", "intstr", "hexstr")]
    for n in (4299, 4300, 4301, 5000):
        cs += [("intstr", "1" * n), ("intstr", "-" + "0" * n), ("hexstr", "f" * n), ("intstr", "1_" * (n - 1) + "1")]
    for x in SPECIAL:
        for y in SPECIAL:
            for op in ("add", "sub", "mul", "div", "mod", "cmp"):
                cs.append((op, x, y))
        cs += [("round", x), ("trunc", x), ("neg", x), ("abs", x)]
    t = (1 << 1024) - (1 << 970)
    for z in (0, 1, -1, 2 ** 53, 2 ** 53 + 1, 2 ** 53 + 2, 2 ** 53 + 3, -(2 ** 53 + 1), t, t - 1, t + 1, -t, -(t - 1),
              2 ** 1024, 2 ** 1024 - 1, 2 ** 1023, 10 ** 308, 10 ** 309, -10 ** 400):
        cs.append(("ofz", str(z)))
        cs.append(("fldiv", str(z), "1"))
        cs.append(("fldiv", str(z * 7), "7"))
        cs.append(("strz", str(z)))
    for n, d in ((1, 3), (2, 3), (1, 10), (-1, 10), (1, 2 ** 1074), (1, 2 ** 1075), (3, 2 ** 1076), (1, 2 ** 1076),
                 (3, 2 ** 1075), (5, 2 ** 1075), (0, 5), (5, 0), (5, -1), (0, 0), (2 ** 2000, 2 ** 990), (10 ** 400, 1),
                 (1, 10 ** 400), (2 ** 1024, 1), (36000000, 60000), (35999999999, 100000000)):
        cs.append(("fldiv", str(n), str(d)))
    return cs


# ------------------------------------------------------------------ main
def main(argv):
    n = int(argv[1]) if len(argv) > 1 else 200000
    seed = int(argv[2]) if len(argv) > 2 else 0
    rng = random.Random(seed)
    cases = fixed_cases()
    nfixed = len(cases)
    for _ in range(n):
        cases.append(gen_case(rng))
    exp = [expected(c) for c in cases]
    got = run_model("PYFLOAT", [wire(c) for c in cases])
    per_op = {}
    bad = []
    deviations = 0
    for c, e, g in zip(cases, exp, got):
        per_op[c[0]] = per_op.get(c[0], 0) + 1
        if c[0] in ("ofstr", "intstr", "hexstr") and has_foreign_digit(c[1]):
            deviations += 1
        if e != g:
            bad.append((c, e, g))
    outcomes = {}
    for e in exp:
        key = e.split(":")[0] + (":" + e.split(":")[1] if e.startswith("err:") else "")
        key = key if key in ("ok", "err:Value", "err:Overflow", "err:Other", "nan", "inf", "-inf") else "value"
        outcomes[key] = outcomes.get(key, 0) + 1
    print("cases: %d (fixed %d + random %d, seed %d)" % (len(cases), nfixed, n, seed))
    print("per op: " + ", ".join("%s=%d" % kv for kv in sorted(per_op.items())))
    print("expected outcomes: " + ", ".join("%s=%d" % kv for kv in sorted(outcomes.items())))
    print("documented-deviation cases (non-ASCII digits, expected err:Value): %d" % deviations)
    print("mismatches: %d" % len(bad))
    for c, e, g in bad[:20]:
        print("  MISMATCH %s\n    wire   %s\n    python %s\n    model  %s" % (repr(c)[:300], repr(wire(c))[:300], e[:300], g[:300]))
    return 1 if bad else 0


if __name__ == "__main__":
    sys.exit(main(sys.argv))
