From Coq Require Import Extraction ExtrOcamlBasic.
From V.model Require Import SimpleTypeRun.
Extraction Language OCaml.
Cd "extract".
Extraction "c11.ml" run_c11.
Cd "..".
