(** Lemmas about lib/PyFloat.v.  The model itself is tied to CPython by the bit-exact
    validation corr/validate_pyfloat.py; the lemmas below are the facts that the
    properties using floats need (exactness of integer-valued floats, comparison by
    exact value, round is the nearest integer, ties to even, and is monotone). *)
From V.lib Require Import Prelude PyFloat.
Local Open Scope Z_scope.

(** * Denominators are positive powers of two *)

Lemma f_den_pos x : 0 < f_den x.
Proof. destruct x; cbn [f_den]; [apply Z.pow_pos_nonneg; lia | lia ..]. Qed.

(** * [round_dy] is the identity on dyadics that already fit *)

Lemma round_dy_fits m e :
  m <> 0 ->
  -1075 <= Z.log2 (Z.abs m) + e ->
  Z.max (Z.log2 (Z.abs m) + e - 52) (-1074) <= e ->
  Z.log2 (Z.abs m) + e < 1024 ->
  round_dy m e = Fin m e.
Proof.
  intros Hm Hlo Hfit Hhi. unfold round_dy.
  destruct (Z.eqb_spec m 0) as [->|_]; [contradiction|].
  destruct (Z.ltb_spec (Z.log2 (Z.abs m) + e) (-1075)); [lia|].
  destruct (Z.leb_spec (Z.max (Z.log2 (Z.abs m) + e - 52) (-1074)) e); [|lia].
  destruct (Z.leb_spec 1024 (Z.log2 (Z.abs m) + e)); [lia|reflexivity].
Qed.

(** * python float(z) is exact up to 2^53 in magnitude *)

Lemma f_of_Z_small z :
  Z.abs z < 2 ^ 53 -> f_of_Z z = Ok (if z =? 0 then Fin 0 0 else Fin z 0).
Proof.
  intros Hz. destruct (Z.eqb_spec z 0) as [->|Hnz]; [reflexivity|].
  unfold f_of_Z.
  assert (Hl : Z.log2 (Z.abs z) < 53) by (apply Z.log2_lt_pow2; lia).
  assert (Hl0 : 0 <= Z.log2 (Z.abs z)) by apply Z.log2_nonneg.
  rewrite round_dy_fits by lia. reflexivity.
Qed.

(** full statement: by value, including the two end points *)
Lemma f_of_Z_exact z :
  Z.abs z <= 2 ^ 53 ->
  exists x, f_of_Z z = Ok x /\ f_is_finite x = true /\ f_num x = z /\ f_den x = 1.
Proof.
  intros Hz.
  destruct (Z.eq_dec (Z.abs z) (2 ^ 53)) as [He|Hne].
  - assert (Hc : z = 2 ^ 53 \/ z = - 2 ^ 53) by lia.
    destruct Hc as [-> | ->]; eexists; (split; [vm_compute; reflexivity|]);
      vm_compute; auto.
  - rewrite f_of_Z_small by lia.
    destruct (Z.eqb_spec z 0) as [->|Hnz]; eexists; (split; [reflexivity|]).
    + vm_compute; auto.
    + cbn [f_is_finite f_num f_den]. rewrite Z.max_id. cbn [Z.opp].
      rewrite Z.max_id. cbn [Z.pow Z.pow_pos]. repeat split; lia.
Qed.

Example f_of_Z_exact_nonvacuous :
  f_of_Z 9007199254740991 = Ok (Fin 9007199254740991 0)
  /\ f_of_Z 9007199254740993 = Ok (Fin 4503599627370496 1).
Proof. vm_compute. split; reflexivity. Qed.

(** * round of an integer-valued float *)

Lemma f_round_int m e : 0 <= e -> f_round (Fin m e) = Ok (m * 2 ^ e).
Proof.
  intros He. unfold f_round.
  destruct (Z.leb_spec 0 e); [|lia]. now rewrite Z.shiftl_mul_pow2.
Qed.

Lemma f_trunc_int m e : 0 <= e -> f_trunc (Fin m e) = Ok (m * 2 ^ e).
Proof.
  intros He. unfold f_trunc.
  destruct (Z.leb_spec 0 e); [|lia]. now rewrite Z.shiftl_mul_pow2.
Qed.

Example f_round_int_nonvacuous : f_round (Fin 45 3) = Ok 360.
Proof. reflexivity. Qed.

(** * Comparison is comparison of the exact values *)

Lemma f_cmp_fin m1 e1 m2 e2 :
  f_cmp (Fin m1 e1) (Fin m2 e2) =
  Some (f_num (Fin m1 e1) * f_den (Fin m2 e2) ?= f_num (Fin m2 e2) * f_den (Fin m1 e1)).
Proof.
  unfold f_cmp, f_num, f_den. f_equal.
  remember (Z.min e1 e2) as e eqn:He.
  rewrite !Z.shiftl_mul_pow2 by lia.
  remember (Z.max (- e1) 0 + Z.max (- e2) 0 + e) as P eqn:HP.
  assert (HP0 : 0 <= P) by lia.
  replace (m1 * 2 ^ Z.max e1 0 * 2 ^ Z.max (- e2) 0) with (m1 * 2 ^ (e1 - e) * 2 ^ P).
  2:{ rewrite <- !Z.mul_assoc, <- !Z.pow_add_r by lia. do 2 f_equal. lia. }
  replace (m2 * 2 ^ Z.max e2 0 * 2 ^ Z.max (- e1) 0) with (m2 * 2 ^ (e2 - e) * 2 ^ P).
  2:{ rewrite <- !Z.mul_assoc, <- !Z.pow_add_r by lia. do 2 f_equal. lia. }
  apply Zmult_compare_compat_r. apply Z.lt_gt. apply Z.pow_pos_nonneg; lia.
Qed.

Lemma f_cmp_finite a b :
  f_is_finite a = true -> f_is_finite b = true ->
  f_cmp a b = Some (f_num a * f_den b ?= f_num b * f_den a).
Proof.
  destruct a, b; cbn [f_is_finite]; try discriminate. intros _ _. apply f_cmp_fin.
Qed.

Lemma f_ltb_exact a b :
  f_is_finite a = true -> f_is_finite b = true ->
  f_ltb a b = (f_num a * f_den b <? f_num b * f_den a).
Proof.
  intros Ha Hb. unfold f_ltb. rewrite (f_cmp_finite a b Ha Hb). unfold Z.ltb.
  destruct (f_num a * f_den b ?= f_num b * f_den a); reflexivity.
Qed.

Lemma f_leb_exact a b :
  f_is_finite a = true -> f_is_finite b = true ->
  f_leb a b = (f_num a * f_den b <=? f_num b * f_den a).
Proof.
  intros Ha Hb. unfold f_leb. rewrite (f_cmp_finite a b Ha Hb). unfold Z.leb.
  destruct (f_num a * f_den b ?= f_num b * f_den a); reflexivity.
Qed.

Lemma f_eqb_exact a b :
  f_is_finite a = true -> f_is_finite b = true ->
  f_eqb a b = (f_num a * f_den b =? f_num b * f_den a).
Proof.
  intros Ha Hb. unfold f_eqb. rewrite (f_cmp_finite a b Ha Hb), Z.eqb_compare.
  destruct (f_num a * f_den b ?= f_num b * f_den a); reflexivity.
Qed.

(** comparisons involving a NaN are all false *)
Lemma f_cmp_nan_l b : f_ltb NaN b = false /\ f_leb NaN b = false /\ f_eqb NaN b = false.
Proof. destruct b; repeat split; reflexivity. Qed.
Lemma f_cmp_nan_r a : f_ltb a NaN = false /\ f_leb a NaN = false /\ f_eqb a NaN = false.
Proof. destruct a; repeat split; reflexivity. Qed.

Example f_ltb_exact_nonvacuous :
  f_ltb (Fin 3 (-1)) (Fin 1 1) = true /\ f_leb (Fin 4 (-1)) (Fin 1 1) = true
  /\ f_ltb (Fin 4 (-1)) (Fin 1 1) = false.
Proof. vm_compute. auto. Qed.

(** * round(x): nearest integer, ties to even *)

(** With n/d the exact value: |n/d - r| <= 1/2, and r is even when the distance is
    exactly 1/2. *)
Lemma f_round_spec x r :
  f_round x = Ok r ->
  (2 * r - 1) * f_den x <= 2 * f_num x <= (2 * r + 1) * f_den x
  /\ (2 * f_num x = (2 * r - 1) * f_den x \/ 2 * f_num x = (2 * r + 1) * f_den x ->
      Z.even r = true).
Proof.
  destruct x as [m e| | |]; cbn [f_round]; try discriminate.
  destruct (Z.leb_spec 0 e) as [He|He].
  - intros [= <-]. cbn [f_num f_den].
    rewrite Z.shiftl_mul_pow2 by lia.
    replace (Z.max e 0) with e by lia. replace (Z.max (- e) 0) with 0 by lia.
    change (2 ^ 0) with 1. split; [lia|]. intros [H|H]; exfalso; lia.
  - cbn [f_num f_den].
    replace (Z.max e 0) with 0 by lia. replace (Z.max (- e) 0) with (- e) by lia.
    change (2 ^ 0) with 1. rewrite Z.mul_1_r.
    remember (- e) as sh eqn:Hsh.
    assert (Hsh0 : 0 < sh) by lia.
    rewrite Z.shiftr_div_pow2 by lia.
    rewrite !Z.shiftl_mul_pow2 by lia. rewrite Z.mul_1_l.
    assert (Hd : 2 ^ sh = 2 * 2 ^ (sh - 1)).
    { replace sh with (Z.succ (sh - 1)) at 1 by lia. rewrite Z.pow_succ_r by lia. reflexivity. }
    assert (Hh : 0 < 2 ^ (sh - 1)) by (apply Z.pow_pos_nonneg; lia).
    remember (2 ^ (sh - 1)) as half eqn:Hhalf.
    remember (2 ^ sh) as d eqn:Hdd.
    assert (Hdm := Z.div_mod m d ltac:(lia)).
    assert (Hmb := Z.mod_pos_bound m d ltac:(lia)).
    remember (m / d) as q eqn:Hq.
    remember (m mod d) as rm eqn:Hrm.
    assert (Hrem : m - q * d = rm) by lia.
    rewrite Hrem.
    assert (Hqd : d * q = q * d) by apply Z.mul_comm.
    destruct (Z.ltb_spec half rm) as [Hlt|Hge]; cbn [orb].
    + intros [= <-]. split; [lia|]. intros [H|H]; exfalso; lia.
    + destruct (Z.eqb_spec half rm) as [Heq|Hne]; cbn [andb].
      * destruct (Z.odd q) eqn:Hodd.
        -- intros [= <-]. split; [lia|]. intros _.
           rewrite Z.add_1_r, Z.even_succ. exact Hodd.
        -- intros [= <-]. split; [lia|]. intros _.
           rewrite <- Z.negb_odd, Hodd. reflexivity.
      * intros [= <-]. split; [lia|]. intros [H|H]; exfalso; lia.
Qed.

Lemma f_round_half x r :
  f_round x = Ok r ->
  Z.abs (2 * f_num x - 2 * r * f_den x) <= f_den x.
Proof.
  intros H. destruct (f_round_spec x r H) as [[H1 H2] _]. lia.
Qed.

Lemma f_round_finite x r : f_round x = Ok r -> f_is_finite x = true.
Proof. destruct x; cbn [f_round]; try discriminate; reflexivity. Qed.

(** monotone with respect to the exact values *)
Lemma f_round_mono a b ra rb :
  f_round a = Ok ra -> f_round b = Ok rb ->
  f_num a * f_den b <= f_num b * f_den a ->
  ra <= rb.
Proof.
  intros Ha Hb Hle.
  destruct (f_round_spec a ra Ha) as [[A1 _] TA].
  destruct (f_round_spec b rb Hb) as [[_ B2] TB].
  assert (Da := f_den_pos a). assert (Db := f_den_pos b).
  remember (f_num a) as Na. remember (f_den a) as DA.
  remember (f_num b) as Nb. remember (f_den b) as DB.
  destruct (Z_le_gt_dec ra rb) as [|Hgt]; [assumption|exfalso].
  assert (S1 : (2 * ra - 1) * DA * DB <= 2 * Na * DB)
    by (apply Z.mul_le_mono_nonneg_r; lia).
  assert (S2 : 2 * Nb * DA <= (2 * rb + 1) * DB * DA)
    by (apply Z.mul_le_mono_nonneg_r; lia).
  assert (K : 0 < DA * DB) by (apply Z.mul_pos_pos; lia).
  assert (S3 : (2 * ra - 1) * (DA * DB) <= (2 * rb + 1) * (DA * DB)).
  { replace ((2 * ra - 1) * (DA * DB)) with ((2 * ra - 1) * DA * DB) by ring.
    replace ((2 * rb + 1) * (DA * DB)) with ((2 * rb + 1) * DB * DA) by ring.
    replace (2 * Na * DB) with (2 * (Na * DB)) in S1 by ring.
    replace (2 * Nb * DA) with (2 * (Nb * DA)) in S2 by ring. lia. }
  apply Z.mul_le_mono_pos_r in S3; [|assumption].
  assert (Hra : ra = rb + 1) by lia. subst ra.
  (* all inequalities are equalities: both values sit exactly on the tie rb + 1/2 *)
  assert (E1 : 2 * Na * DB = (2 * rb + 1) * DA * DB).
  { replace (2 * (rb + 1) - 1) with (2 * rb + 1) in S1 by ring.
    replace ((2 * rb + 1) * DB * DA) with ((2 * rb + 1) * DA * DB) in S2 by ring.
    replace (2 * Na * DB) with (2 * (Na * DB)) in * by ring.
    replace (2 * Nb * DA) with (2 * (Nb * DA)) in S2 by ring. lia. }
  assert (E2 : 2 * Nb * DA = (2 * rb + 1) * DB * DA).
  { replace (2 * (rb + 1) - 1) with (2 * rb + 1) in S1 by ring.
    replace ((2 * rb + 1) * DA * DB) with ((2 * rb + 1) * DB * DA) in S1 by ring.
    replace (2 * Na * DB) with (2 * (Na * DB)) in S1 by ring.
    replace (2 * Nb * DA) with (2 * (Nb * DA)) in * by ring. lia. }
  apply Z.mul_cancel_r in E1; [|lia]. apply Z.mul_cancel_r in E2; [|lia].
  assert (Ea : Z.even (rb + 1) = true).
  { apply TA. left. rewrite E1. ring. }
  assert (Eb : Z.even rb = true) by (apply TB; right; exact E2).
  rewrite Z.add_1_r, Z.even_succ, <- Z.negb_even, Eb in Ea. discriminate.
Qed.

Example f_round_mono_nonvacuous :
  f_round (Fin 5 (-1)) = Ok 2 /\ f_round (Fin 7 (-1)) = Ok 4
  /\ f_num (Fin 5 (-1)) * f_den (Fin 7 (-1)) <= f_num (Fin 7 (-1)) * f_den (Fin 5 (-1)).
Proof. vm_compute. repeat split; discriminate. Qed.

Example f_round_ties_even :
  f_round (Fin 1 (-1)) = Ok 0 /\ f_round (Fin 3 (-1)) = Ok 2 /\ f_round (Fin (-5) (-1)) = Ok (-2)
  /\ f_round (Fin (-7) (-1)) = Ok (-4) /\ f_round (Fin 5 (-2)) = Ok 1.
Proof. vm_compute. repeat split. Qed.

(** * int(x) is truncation of the exact value toward zero *)

Lemma f_trunc_exact x :
  f_is_finite x = true -> f_trunc x = Ok (Z.quot (f_num x) (f_den x)).
Proof.
  destruct x as [m e| | |]; cbn [f_is_finite]; try discriminate. intros _.
  unfold f_trunc. cbn [f_num f_den]. destruct (Z.leb_spec 0 e) as [He|He].
  - rewrite Z.shiftl_mul_pow2 by lia.
    replace (Z.max e 0) with e by lia. replace (Z.max (- e) 0) with 0 by lia.
    change (2 ^ 0) with 1. now rewrite Z.quot_1_r.
  - rewrite Z.shiftl_mul_pow2 by lia.
    replace (Z.max e 0) with 0 by lia. replace (Z.max (- e) 0) with (- e) by lia.
    change (2 ^ 0) with 1. now rewrite Z.mul_1_r, Z.mul_1_l.
Qed.

Example f_trunc_toward_zero :
  f_trunc (Fin 7 (-1)) = Ok 3 /\ f_trunc (Fin (-7) (-1)) = Ok (-3).
Proof. vm_compute. split; reflexivity. Qed.

(** * negation and absolute value are exact *)

Lemma f_neg_value x : f_num (f_neg x) = - f_num x /\ f_den (f_neg x) = f_den x.
Proof. destruct x; cbn [f_neg f_num f_den]; split; try reflexivity. ring. Qed.

Lemma f_abs_value x : f_num (f_abs x) = Z.abs (f_num x) /\ f_den (f_abs x) = f_den x.
Proof.
  destruct x as [m e| | |]; cbn [f_abs f_num f_den]; split; try reflexivity.
  rewrite Z.abs_mul. f_equal. symmetry. apply Z.abs_eq. apply Z.pow_nonneg. lia.
Qed.

(** * canonical form keeps the value *)

Lemma pos_ctz_spec p : forall q k, pos_ctz p = (q, k) -> 0 <= k /\ Zpos p = Zpos q * 2 ^ k.
Proof.
  induction p as [p IH|p IH|]; cbn [pos_ctz]; intros q k.
  - intros [= <- <-]. split; [lia|]. change (2 ^ 0) with 1. lia.
  - destruct (pos_ctz p) as [q' k'] eqn:E. intros [= <- <-].
    destruct (IH q' k' eq_refl) as [Hk Hv]. split; [lia|].
    rewrite Z.pow_add_r by lia. change (2 ^ 1) with 2.
    change (Z.pos p~0) with (2 * Z.pos p). rewrite Hv. ring.
  - intros [= <- <-]. split; [lia|]. reflexivity.
Qed.

Lemma f_canon_value x :
  f_num (f_canon x) * f_den x = f_num x * f_den (f_canon x)
  /\ f_is_finite (f_canon x) = f_is_finite x.
Proof.
  destruct x as [m e| | |]; try (split; reflexivity).
  assert (G : forall m' k, 0 <= k ->
            (m' * 2 ^ Z.max (e + k) 0) * 2 ^ Z.max (- e) 0
            = (m' * 2 ^ k * 2 ^ Z.max e 0) * 2 ^ Z.max (- (e + k)) 0).
  { intros m' k Hk. rewrite <- !Z.mul_assoc, <- !Z.pow_add_r by lia. do 2 f_equal. lia. }
  destruct m as [|p|p]; cbn [f_canon].
  - split; reflexivity.
  - destruct (pos_ctz p) as [q k] eqn:E. destruct (pos_ctz_spec p q k E) as [Hk Hv].
    split; [|reflexivity]. cbn [f_num f_den]. rewrite Hv. apply G; assumption.
  - destruct (pos_ctz p) as [q k] eqn:E. destruct (pos_ctz_spec p q k E) as [Hk Hv].
    split; [|reflexivity]. cbn [f_num f_den].
    change (Z.neg p) with (- Z.pos p). change (Z.neg q) with (- Z.pos q). rewrite Hv.
    replace (- (Z.pos q * 2 ^ k)) with (- Z.pos q * 2 ^ k) by ring. apply G; assumption.
Qed.

Print Assumptions f_of_Z_exact.
Print Assumptions f_round_int.
Print Assumptions f_ltb_exact.
Print Assumptions f_leb_exact.
Print Assumptions f_eqb_exact.
Print Assumptions f_round_spec.
Print Assumptions f_round_half.
Print Assumptions f_round_mono.
Print Assumptions f_canon_value.
Print Assumptions f_trunc_exact.
Print Assumptions f_neg_value.
Print Assumptions f_abs_value.
