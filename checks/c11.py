"""C11 — accepted attribute values are exactly those the schema can represent.

translate (tx/tx_c11.py: shallow Gallina of every simple-type class through its MRO,
attribute declarations of the live element classes, XSD facets) -> prove (props/C11.v:
generic W/Rej/R/RT + instance; per-class descriptor lemmas are proved FOR ALL values inside
gen/GenC11.v) -> diagnose (diag/Diag_C11.v) -> replay failing rows on the implementation ->
correspondence of the generated Gallina with the real classmethods on boundary grids
(bit-exact for floats) -> oracle = the property's statement on the implementation.
"""
import json
import math
import os
import random as random_mod
import re

from corr.harness import COQ, VERIF, coq_build, run_model, _run, exc_name

TB = [
    "tx/tx_c11.py + tx/pyshallow.py (Python-subset -> Gallina translator, fail-closed) and tx/xsdlib.py (XSD facets)",
    "coq/lib/PyVal.v + coq/lib/PyFloat.v: model of the Python semantics used (bool is an int, ==, %, round half-even, int()/float() parsers, binary64 arithmetic on exact integers); validated bit-exactly against CPython by corr/validate_pyfloat.py and by this correspondence",
    "exception message formatting inside raise statements is not modelled",
    "str(float) (repr) is not modelled digit by digit: compared through float(text); finite reprs are assumed to be valid xsd:double lexicals",
]
ASSUME = [
    "whitespace-padded lexical forms (collapsed by the schema's whiteSpace facet) are outside the R statement",
    "CPython refuses int() of more than 4300 digits (C11_R_digit_limit); R is stated up to that length",
    "attributes whose schema type carries a pattern the model does not express (content types, extensions, chart percent patterns) are 'not judged' for the side that would need it (listed in the evidence)",
    "float-valued classes have no canonical descriptor; their WRITE side (what is written lies in the schema range, for all python values) is proved directly on the regenerated Gallina for the two angle classes and the four percentage classes (C11_W_Angle .. C11_W_TextFontScalePercent, using the monotonicity lemmas of proofs/PyFloat_proofs.v); their read side, round trip and rejection class, and XsdDouble/ST_AxisUnit/ST_TextSpacingPoint/ST_UniversalMeasure entirely, are decided by bit-exact correspondence + oracle on threshold grids (partial)",
]


# ------------------------------------------------------------------ wire
def enc_val(v):
    if v is None:
        return "n"
    if isinstance(v, bool):
        return "b:1" if v else "b:0"
    if isinstance(v, int):
        return "i:%d" % v
    if isinstance(v, float):
        return "f:" + enc_float(v)
    if isinstance(v, str):
        return "s:" + v
    return "o"


def enc_float(v):
    if v != v:
        return "nan"
    if v == math.inf:
        return "inf"
    if v == -math.inf:
        return "-inf"
    if v == 0:
        return "0 0"
    n, d = v.as_integer_ratio()
    e = -(d.bit_length() - 1)
    while n % 2 == 0:
        n //= 2
        e += 1
    return "%d %d" % (n, e)


def show_val(v):
    """What the model prints for a python value (show_pyval)."""
    if isinstance(v, str):
        return "s:" + " ".join(str(ord(c)) for c in v)
    return enc_val(v)


MARK = chr(0x10FFFF)


def canon_written(s):
    """Canonical form of a written attribute text for comparison with the model."""
    return "s:" + " ".join(str(ord(c)) for c in s)


def model_written_to_py(tok):
    """Model output 'ok:s:<codepoints>' -> ('str', text) | ('float', canonical m e)."""
    body = tok[len("ok:s:"):].strip()
    text = "".join(chr(int(t)) for t in body.split(" ")) if body else ""
    if text.startswith(MARK):
        return ("float", text[1:])
    return ("str", text)


def impl_to_xml(st, v):
    try:
        return ("ok", st.to_xml(v))
    except Exception as e:  # noqa
        return ("err", exc_name(e), type(e).__name__)


def impl_from_xml(st, s):
    try:
        return ("ok", st.from_xml(s))
    except Exception as e:  # noqa
        return ("err", exc_name(e), type(e).__name__)


# ------------------------------------------------------------------ lexical oracle (independent of Coq)
XSD_DOUBLE = re.compile(r"[+-]?(\d+(\.\d*)?|\.\d+)([eE][+-]?\d+)?$|^(INF|-INF|NaN)$")


def lex_ok_py(lex, s):
    """True / False / None (= cannot judge)."""
    k = lex[0]
    if k == "int":
        if not re.fullmatch(r"[+-]?[0-9]+", s):
            return False
        return lex[1] <= int(s) <= lex[2]
    if k == "enum":
        return s in lex[1]
    if k == "string":
        return True
    if k == "bool":
        return s in ("true", "false", "1", "0")
    if k == "double":
        return bool(XSD_DOUBLE.match(s))
    if k == "hex":
        return bool(re.fullmatch(r"[0-9a-fA-F]{%d}" % (2 * lex[1]), s))
    if k == "pct":
        return bool(re.fullmatch((r"-?" if lex[1] else "") + r"[0-9]+(\.[0-9]+)?%", s))
    if k == "um":
        return bool(re.fullmatch((r"-?" if lex[1] else "") + r"[0-9]+(\.[0-9]+)?(mm|cm|in|pt|pc|pi)", s))
    if k == "union":
        rs = [lex_ok_py(m, s) for m in lex[1]]
        if any(r is True for r in rs):
            return True
        if any(r is None for r in rs):
            return None
        return False
    return None


def lex_examples(lex, rng):
    """Schema-valid lexical forms of a lexical space (for the R oracle)."""
    k = lex[0]
    if k == "int":
        lo, hi = lex[1], lex[2]
        vals = {lo, hi, min(max(0, lo), hi), min(max(1, lo), hi), (lo + hi) // 2}
        out = [str(v) for v in vals]
        out += ["+%d" % v for v in vals if v >= 0] + ["00%d" % v for v in vals if v >= 0]
        return out
    if k == "enum":
        return list(lex[1])
    if k == "string":
        return ["x", "adj1", "en-150"]
    if k == "bool":
        return ["true", "false", "1", "0"]
    if k == "double":
        return ["0", "1.5", "-2.25", "1e3", "1E-2", ".5", "5."]
    if k == "hex":
        return ["0" * (2 * lex[1]), "aB" * lex[1], "FF" * lex[1]]
    if k == "pct":
        return ["50%", "0%", "12.5%"] + (["-3%"] if lex[1] else [])
    if k == "um":
        return ["1pt", "2.5in", "10mm", "3cm", "1pc", "2pi"] + (["-1.5pt"] if lex[1] else [])
    if k == "union":
        return [x for m in lex[1] for x in lex_examples(m, rng)]
    return []


# ------------------------------------------------------------------ value grids
def neighbours(x):
    return [math.nextafter(x, -math.inf), x, math.nextafter(x, math.inf)]


GENERIC = [None, True, False, 0, 1, -1, 2, 255, 256, 65535, 65536, 2**31 - 1, 2**31, -2**31, -2**31 - 1, 2**32 - 1, 2**32,
           2**63 - 1, 2**63, -2**63, 2**70, -2**70, 0.0, 0.5, 1.0, 1.5, 2.5, -0.5, -1.5, 100.0, 1e308, -1e308, math.inf,
           -math.inf, math.nan, "", "abc", "12", "+12345", "0x1234", "1_2345", "ABCDEF", "abcdef", "12345G", "1234567",
           " 12345", "External", "Internal", "internal", b"x", [1], (1,), {"a": 1}, 3 + 0j]


TIER = "quick"


def grid_for(name, meta, rng):
    vals = list(GENERIC)
    if TIER == "thorough":
        # random values of every kind, seeded: ints of all magnitudes, floats (uniform, exponent-
        # uniform and neighbours of half-integers at the class's scale), structured strings
        import struct
        r2 = random_mod.Random(hash(name) % 100003 + rng.randint(0, 10**6))
        for _ in range(300):
            k = r2.choice([8, 16, 31, 32, 33, 53, 63, 64, 70])
            vals.append(r2.randint(-2**k, 2**k))
        for _ in range(600):
            vals.append(r2.uniform(-1000, 1000))
            vals.append(struct.unpack("<d", struct.pack("<Q", r2.getrandbits(64)))[0])
            vals.append((r2.randint(-22 * 10**8, 22 * 10**8) + 0.5) / r2.choice([1000.0, 60000, 100000.0]))
        alpha = "0123456789abcdefABCDEFxX+-_ .%ptincm"
        for _ in range(300):
            vals.append("".join(r2.choice(alpha) for _ in range(r2.randint(0, 8))))
    d = meta["simple_types"][name]["desc"]
    m = re.match(r"\((DIntRangeB?) \((-?\d+)\) \((-?\d+)\)\)", d)
    if m:
        lo, hi = int(m.group(2)), int(m.group(3))
        vals += [lo - 1, lo, lo + 1, hi - 1, hi, hi + 1, (lo + hi) // 2, float(lo), float(hi)]
    # float classes: rounding thresholds of the unit conversion
    scale = {"ST_Angle": 60000, "ST_PositiveFixedAngle": 60000, "ST_Percentage": 100000.0,
             "ST_PositiveFixedPercentage": 100000.0, "ST_TextSpacingPercentOrPercentString": 100000.0,
             "ST_TextFontScalePercentOrPercentString": 1000.0}.get(name)
    if scale:
        for base in [0.0, 1.0, 100.0, 359.0, 360.0, 720.0, -360.0, -0.25, 0.999995, 132.0, 21474.83647, -21474.83648,
                     359.99999999, 359.9999916, 1e-9, -1e-9, 90.5, 45.000008333, 1.0000049, 0.0000050, 99.9995]:
            vals += neighbours(base)
            k = round(base * scale)
            for h in (k - 0.5, k + 0.5, k + 1.5):
                vals += neighbours(h / scale)
        for _ in range(40):
            vals.append(rng.uniform(-800, 800))
            vals.append(rng.uniform(0, 1))
    if name in ("XsdDouble", "ST_AxisUnit", "BaseFloatType"):
        vals += [1e-320, 5e-324, 2.5e-5, 123456789.125, -7.0, 1e22, 1e21, 0.1]
        vals += [rng.uniform(-1e6, 1e6) for _ in range(20)]
    if name == "ST_HexColorRGB":
        vals += ["00FF7f", "+1234a", "-12345", "0x12ab", "0X12AB", "12 345", "１２３４５６", "1__234", "_12345",
                 "12345_", "GGGGGG", "ffffff", "FFFFFFF", "12345", "１２３４５６"]
    if name in ("ST_TextSpacingPoint", "ST_LineWidth", "ST_TextFontSize"):
        vals += [126, 127, 128, 253, 254, 12700, 12699, 12701, 20116800, 20116801]
        # exactly representable lengths (whole centipoints) all over the range, and their neighbours: a conversion that goes
        # through a float product instead of the integer division loses one unit on some of them only
        for k in [29, 230, 410, 820, 1020, 1640] + [rng.randrange(0, 158401) for _ in range(150)]:
            vals += [127 * k, 127 * k + 1, 127 * k - 1]
    out, seen = [], set()
    for v in vals:
        key = (type(v).__name__, repr(v))
        if key not in seen:
            seen.add(key)
            out.append(v)
    return out


READ_FORMS = ["", "0", "1", "12", "+12", "-3", "007", " 5 ", "5 ", "1_0", "0x10", "1e3", "1.0", "1.5", ".5", "50%", "50.5%", "-3%",
              "100000", "-100000", "21600000", "-21600000", "43200001", "1.5pt", "2in", "10mm", "3cm", "1pc", "2pi", "-1.5pt",
              "1.5 pt", "pt", "1pp", "true", "false", "TRUE", "True", "abc", "%", "5%%", "1e400", "inf", "nan", "١٢",
              "99999999999999999999999", "914400", "12700", "00FF00", "external", "External"]


# ------------------------------------------------------------------ main
def parse_diag(out):
    res = {}
    for m in re.finditer(r"\[([^\[\]]*)\]", out):
        nums = [int(x) for x in re.findall(r"(\d+)%N", m.group(1))]
        if nums and 7001 <= nums[0] <= 7012:
            res[nums[0]] = nums[1:]
    return res


def make_element(tag):
    from pptx.oxml.xmlchemy import OxmlElement
    return OxmlElement(tag)


def run(ck, tier, rng):
    global TIER
    TIER = tier
    rc, out = _run(["/venv/bin/python", os.path.join(VERIF, "tx", "tx_c11.py")], cwd=VERIF)
    if rc != 0:
        ck.violation("translator", "tx_c11 failed on the current tree: " + out[-600:],
                     {"theorem_or_correspondence": "translator tx_c11 (model regeneration)"}, concrete=False)
        return ck.finish("translator failed", TB, ASSUME)
    ck.notes.append(out.strip().split("\n")[-1])
    meta = json.load(open(os.path.join(COQ, "gen", "c11_meta.json")))
    rows = meta["rows"]
    ck.build = coq_build("C11", extra_targets=["gen/GenC11.vo", "model/SimpleTypeRun.vo"])
    import pptx.oxml.simpletypes as stmod
    import importlib

    def st_class(name):
        if hasattr(stmod, name):
            return getattr(stmod, name)
        for modname in ("shapes", "text", "dml", "chart", "lang", "action"):
            m = importlib.import_module("pptx.enum." + modname)
            if hasattr(m, name):
                return getattr(m, name)
        raise KeyError(name)

    # ---- diagnostics: rows whose obligation fails
    rc, dout = _run(["timeout", "600", "coqc", "-Q", ".", "V", "diag/Diag_C11.v"], cwd=COQ)
    diag = parse_diag(dout) if rc == 0 else {}
    if rc != 0:
        ck.notes.append("diagnostics did not compile: " + dout[-300:])
    for rid in diag.get(7002, []):
        r = rows[rid]
        st = st_class(r["st"])
        # replay: every schema token / lexical form the type allows must be readable
        bad = []
        for s in lex_examples(r["lex"], rng):
            if lex_ok_py(r["lex"], s) is True:
                try:
                    el = make_element(r["tag"])
                    el.set(_clark(r["attr"]), s)
                    getattr(el, r["prop"])
                except ValueError as e:
                    bad.append((s, "ValueError"))
                except Exception as e:  # noqa
                    bad.append((s, type(e).__name__))
        if bad:
            ck.violation(read_sig(r, [b[0] for b in bad]),
                         "%s/@%s (%s): schema-valid values %s cannot be read: e.g. <%s %s=\"%s\"> raises %s" % (
                             r["cls"], r["attr"], r["st"], [b[0] for b in bad][:12], r["tag"], r["attr"], bad[0][0], bad[0][1]),
                         {"entry_point": "%s.%s (getter)" % (r["cls"], r["prop"]), "input": {"tag": r["tag"], "attr": r["attr"], "value": bad[0][0]},
                          "xsd_type": r["type"], "impl_outcome": bad[0][1], "all_unreadable": [b[0] for b in bad]})
        else:
            ck.violation("attr-read-unreplayed:" + r["sig"], "read obligation of %s fails in Coq but no unreadable value was found" % r["sig"],
                         {"theorem_or_correspondence": "C11_no_read_failures", "row": r["sig"]}, concrete=False)
    # custom (float / unit valued) classes lifted to rows by proofs/C11_rows_custom.v
    rc2, dout2 = _run(["timeout", "600", "coqc", "-Q", ".", "V", "diag/Diag_C11b.v"], cwd=COQ)
    if rc2 == 0:
        diag.update(parse_diag(dout2))
    else:
        ck.notes.append("diagnostics (custom rows) did not compile: " + dout2[-300:])
    custom_ok = set(diag.get(7006, []))
    # read side of the custom classes lifted to rows by proofs/C11_rows_custom_read.v
    rc3, dout3 = _run(["timeout", "600", "coqc", "-Q", ".", "V", "diag/Diag_C11c.v"], cwd=COQ)
    if rc3 == 0:
        diag.update(parse_diag(dout3))
    else:
        ck.notes.append("diagnostics (custom read rows) did not compile: " + dout3[-300:])
    custom_read_ok = set(diag.get(7008, []))
    # round trip of the custom classes lifted to rows by proofs/C11_rows_custom_rt.v (7010 covered, 7011 xsd:double: partial)
    rc4, dout4 = _run(["timeout", "600", "coqc", "-Q", ".", "V", "diag/Diag_C11d.v"], cwd=COQ)
    if rc4 == 0:
        diag.update(parse_diag(dout4))
    else:
        ck.notes.append("diagnostics (custom round-trip rows) did not compile: " + dout4[-300:])
    custom_rt_ok = set(diag.get(7010, []))
    # a custom row whose lexical space the class theorem does not cover (7009) is replayed like a generic read failure
    diag[7002] = list(diag.get(7002, [])) + [i for i in diag.get(7009, []) if i not in diag.get(7002, [])]
    for rid in diag.get(7001, []) + diag.get(7007, []):
        r = rows[rid]
        st = st_class(r["st"])
        bad = None
        for v in grid_for(r["st"], meta, rng) if not r["is_enum"] else list(st):
            res = impl_to_xml(st, v)
            if res[0] == "ok" and lex_ok_py(r["lex"], res[1]) is False:
                bad = (v, res[1])
                break
        if bad:
            ck.violation("attr-write:" + r["sig"], "%s/@%s (%s): accepted value %r is written as %r, outside the schema type %s" % (
                r["cls"], r["attr"], r["st"], bad[0], bad[1], r["type"]),
                {"entry_point": r["st"] + ".to_xml", "input": repr(bad[0]), "impl_outcome": bad[1], "xsd_type": r["type"]})
        else:
            ck.violation("attr-write-unreplayed:" + r["sig"], "write obligation of %s fails in Coq but no ill-written value was found" % r["sig"],
                         {"theorem_or_correspondence": "C11_no_write_failures / C11_no_custom_write_failures", "row": r["sig"]}, concrete=False)
    for u in meta["unmodelled"]:
        ck.violation("unmodelled:" + u[:100], "translator met a construct outside the model: " + u,
                     {"theorem_or_correspondence": "C11_no_unmodelled", "construct": u}, concrete=False)

    # ---- correspondence of the generated Gallina with the real classmethods
    used = sorted({r["st"] for r in rows if not r["is_enum"]} | set(meta["simple_types"]))
    cases, expect = [], []
    for name in used:
        if name not in meta["simple_types"]:
            continue
        st = st_class(name)
        info = meta["simple_types"][name]
        if info.get("w"):
            for v in grid_for(name, meta, rng):
                if enc_val(v) == "o" and not isinstance(v, (bytes, list, tuple, dict, complex)):
                    continue
                cases.append(["w", name, enc_val(v)])
                expect.append(("w", name, v, impl_to_xml(st, v)))
        if info.get("r"):
            forms = list(READ_FORMS)
            if tier == "thorough":
                alpha = "0123456789+-_ .%eEptincmtruefals"
                forms += ["".join(rng.choice(alpha) for _ in range(rng.randint(0, 9))) for _ in range(400)]
                forms += ["%d%s" % (rng.randint(-10**7, 10**7), rng.choice(["", "%", "pt", "in", "mm", ".5%", ".25pt"])) for _ in range(200)]
            for s in forms:
                cases.append(["r", name, s])
                expect.append(("r", name, s, impl_from_xml(st, s)))
    diffs, first = 0, None
    model_out = None
    if os.path.exists(os.path.join(COQ, "extract", "run_c11")):
        try:
            model_out = run_model("C11", cases)
        except Exception as e:  # noqa
            ck.notes.append("model runner unavailable: %r" % e)
    for idx, (op, name, v, res) in enumerate(expect):
        nontriv = not (op == "w" and enc_val(v) == "o")
        ck.count((op, name, repr(v)), nontriv, op + ":" + res[0])
        if model_out is None:
            continue
        mo = model_out[idx]
        same = False
        if res[0] == "err":
            same = mo == "err:" + res[1]
        elif op == "w":
            if mo.startswith("ok:s:"):
                kind, text = model_written_to_py(mo)
                if kind == "float":
                    try:
                        same = enc_float(float(res[1])) == text
                    except ValueError:
                        same = False
                else:
                    same = text == res[1]
        else:
            got = res[1]
            same = mo == "ok:" + show_val(got if not isinstance(got, int) or isinstance(got, bool) else int(got))
        if not same:
            # inputs the model deliberately does not cover
            if op == "w" and isinstance(v, str) and any(ord(c) > 127 for c in v):
                ck.dist["non-ascii-skipped"] = ck.dist.get("non-ascii-skipped", 0) + 1
                continue
            if op == "r" and any(ord(c) > 127 for c in v):
                ck.dist["non-ascii-skipped"] = ck.dist.get("non-ascii-skipped", 0) + 1
                continue
            diffs += 1
            if diffs <= 12:
                ck.notes.append("diff %s %s %r impl=%r model=%s" % (op, name, v, res, mo))
            if first is None:
                first = (op, name, v, res, mo)
    if first is not None:
        ck.notes.append("first diff: %r" % (first,))

    # ---- attribute descriptors (xmlchemy Optional/RequiredAttribute): assignment histories on real
    #      elements vs model/SimpleTypeLib.attr_step; a refused value must leave the attribute as it was
    adiffs = attr_histories(ck, rows, meta, st_class, rng)
    diffs += adiffs
    # ---- generated adders  parent._add_<child>(attr=value): refused => parent untouched
    bdiffs = adder_histories(ck, rows, meta, st_class, rng)
    diffs += bdiffs

    # ---- oracle: the property's statement on the implementation, per attribute row
    oracle_rows(ck, rows, meta, st_class, rng)
    for e in expect[:3] + expect[len(expect) // 2: len(expect) // 2 + 3]:
        ck.sample({"op": e[0], "class": e[1], "value": repr(e[2]), "impl": list(e[3])}, limit=8)
    if diffs and not any(v["concrete"] for v in ck.violations):
        op, name, v, res, mo = first if first is not None else ("a", "attribute / adder histories (see notes)", None, None, None)
        ck.violation("correspondence",
                     "generated Gallina (gen/GenC11.v over lib/PyVal.v) and pptx.oxml.simpletypes disagree on %d cases, e.g. %s.%s(%r): model=%s impl=%r" % (
                         diffs, name, "to_xml" if op == "w" else "from_xml", v, mo, res),
                     {"theorem_or_correspondence": "correspondence GenC11.v ~ oxml/simpletypes.py", "input": [op, name, repr(v)],
                      "model_outcome": mo, "impl_outcome": repr(res)}, concrete=False)
    any_concrete = any(v["concrete"] for v in ck.violations)
    ck.broken_build(oracle_found_concrete=any_concrete)
    return ck.finish(
        rule="every simple-type class x (generic python values of every type + its boundary values +-1 + floats adjacent to each rounding threshold of its unit conversion) for to_xml, and x %d lexical forms for from_xml; per attribute row the oracle checks W/Rej/RT on the grid and R on schema-valid examples; non-trivial = value is not an arbitrary foreign object" % len(READ_FORMS),
        trusted_base=TB, assumptions=ASSUME,
        extra={"attribute_rows": len(rows), "write_judged_by_theorem": len(rows) - len([i for i in diag.get(7003, []) if i not in custom_ok]) - len(diag.get(7001, [])),
               "write_judged_by_class_range_theorem": [rows[i]["sig"] for i in sorted(custom_ok)],
               "read_judged_by_theorem": len(rows) - len([i for i in diag.get(7004, []) if i not in custom_read_ok]) - len([i for i in diag.get(7002, []) if i not in diag.get(7009, [])]),
               "read_judged_by_class_theorem": [rows[i]["sig"] for i in sorted(custom_read_ok)],
               "read_refuted_by_theorem": [rows[i]["sig"] for i in sorted(set(diag.get(7002, [])))],
               "write_not_judged": [rows[i]["sig"] for i in diag.get(7003, []) if i not in custom_ok],
               "read_not_judged": [rows[i]["sig"] for i in diag.get(7004, []) if i not in custom_read_ok and i not in diag.get(7009, [])],
               "roundtrip_not_covered_by_theorem": [rows[i]["sig"] for i in diag.get(7005, []) if i not in custom_rt_ok],
               "roundtrip_covered_by_class_theorem": [rows[i]["sig"] for i in sorted(custom_rt_ok)],
               "roundtrip_partial_xsd_double": [rows[i]["sig"] for i in diag.get(7011, [])],
               "simple_types": len(meta["simple_types"]), "gallina_defs": meta["n_defs"],
               "correspondence_diffs": diffs, "exhaustive": False})


def attr_histories(ck, rows, meta, st_class, rng):
    cases, expect = [], []
    for r in rows:
        st = st_class(r["st"])
        grid = list(st) if r["is_enum"] else grid_for(r["st"], meta, rng)
        valid = [v for v in grid if impl_to_xml(st, v)[0] == "ok"]
        if not valid:
            continue
        pick = [valid[0]] + rng.sample(grid, min(len(grid), 24)) + [valid[-1], None, valid[len(valid) // 2]]
        pick = [v for v in pick if enc_val(v) != "o" or isinstance(v, (bytes, list, tuple, dict, complex))]
        try:
            el = make_element(r["tag"])
        except Exception:  # noqa
            continue
        clark = _clark(r["attr"])
        steps, vals = [], []
        for v in pick:
            before = el.get(clark)
            try:
                setattr(el, r["prop"], v)
                out = "ok:"
            except Exception as e:  # noqa
                out = "err:" + exc_name(e)
                if el.get(clark) != before or dict(el.attrib).get(clark) != before:
                    ck.violation("attr-set-rejected-but-changed:" + ("optional" if r["kind"] == "OptionalAttribute" else "required"),
                                 "%s.%s = %r is refused (%s) but the attribute %s changed from %r to %r" % (
                                     r["cls"], r["prop"], v, type(e).__name__, r["attr"], before, el.get(clark)),
                                 {"entry_point": "%s.%s (setter)" % (r["cls"], r["prop"]), "input": {"tag": r["tag"], "before": before, "value": repr(v)},
                                  "impl_outcome": el.get(clark)})
            cur = el.get(clark)
            steps.append((out, cur))
            vals.append(v)
        ck.count(("attr-history", r["sig"]), True, "attr-history")
        if r["is_enum"] or r.get("default") is None or not meta["simple_types"].get(r["st"], {}).get("w"):
            continue
        if any(isinstance(v, str) and any(ord(c) > 127 for c in v) for v in vals):
            keep = [i for i, v in enumerate(vals) if not (isinstance(v, str) and any(ord(c) > 127 for c in v))]
            # a non-ascii value would desynchronise the history: cut the history before the first one
            cut = min(i for i, v in enumerate(vals) if isinstance(v, str) and any(ord(c) > 127 for c in v))
            steps, vals = steps[:cut], vals[:cut]
        cases.append(["a", r["st"], "r" if r["kind"] == "RequiredAttribute" else "o", r["default"], "-"] + [enc_val(v) for v in vals])
        expect.append((r, vals, steps))
    if not cases or not os.path.exists(os.path.join(COQ, "extract", "run_c11")):
        return 0
    try:
        model_out = run_model("C11", cases)
    except Exception as e:  # noqa
        ck.notes.append("attribute-history model run failed: %r" % e)
        return 0
    diffs = 0
    for (r, vals, steps), mo in zip(expect, model_out):
        msteps = mo.split("|")
        ok = len(msteps) == len(steps)
        if ok:
            for (out, cur), ms in zip(steps, msteps):
                mout, _, mstate = ms.partition(" ")
                if mout != out:
                    ok = False
                    break
                if cur is None:
                    ok = mstate == "-"
                else:
                    text = "".join(chr(int(t)) for t in mstate[1:].split(" ")) if len(mstate) > 1 else ""
                    if mstate[:1] != "=":
                        ok = False
                    elif text.startswith(MARK):
                        try:
                            ok = enc_float(float(cur)) == text[1:]
                        except ValueError:
                            ok = False
                    else:
                        ok = text == cur
                if not ok:
                    break
        if not ok:
            diffs += 1
            if diffs <= 5:
                ck.notes.append("attr-history diff %s: values=%r impl=%r model=%s" % (r["sig"], [repr(v) for v in vals][:8], steps[:8], mo[:300]))
    return diffs


def adder_histories(ck, rows, meta, st_class, rng):
    """The generated xmlchemy adder  parent._add_<child>(attr=value)  builds the child, assigns the attributes
    and only then inserts it: a value the simple type refuses must leave the PARENT exactly as it was
    ("rejected ... before anything is written"), an accepted one adds exactly one child carrying the text
    the class writes.  Every (registered parent class with such an adder, attribute row of the child class)
    x values of the row's grid; the model side is attr_step on an absent attribute (runner op a)."""
    import sys as _sys
    _sys.path.insert(0, os.path.join(VERIF, "tx"))
    try:
        import tx_c11
        regs = tx_c11.registered_classes()
    finally:
        _sys.path.pop(0)
    from lxml import etree
    by_child = {}
    for r in rows:
        by_child.setdefault(r["tag"], []).append(r)
    cases, expect = [], []
    n_adders = 0
    for ptag, pcls in sorted(regs.items()):
        for ctag, crs in sorted(by_child.items()):
            local = ctag.split(":")[1]
            if not hasattr(pcls, "_add_" + local) or not hasattr(pcls, "_insert_" + local):
                continue
            if "_BaseChildElement._add_adder" not in getattr(getattr(pcls, "_add_" + local), "__qualname__", ""):
                continue            # a hand-written adder with its own signature; only the generated one takes **attrs
            try:
                probe = getattr(make_element(ptag), "_new_" + local)()
            except Exception:  # noqa
                continue
            if probe.tag != _clark(ctag):
                continue            # same local name in another namespace (a:pt vs c:pt)
            n_adders += 1
            for r in crs:
                if type(probe).__name__ != r["cls"]:
                    continue
                st = st_class(r["st"])
                grid = list(st) if r["is_enum"] else grid_for(r["st"], meta, rng)
                valid = [v for v in grid if impl_to_xml(st, v)[0] == "ok"]
                if not valid:
                    continue
                pick = [valid[0], valid[-1]] + rng.sample(grid, min(len(grid), 6))
                pick = [v for v in pick if enc_val(v) != "o" or isinstance(v, (bytes, list, tuple, dict, complex))]
                pick = [v for v in pick if not (isinstance(v, str) and any(ord(c) > 127 for c in v))]
                clark = _clark(r["attr"])
                for v in pick:
                    try:
                        parent = make_element(ptag)
                    except Exception:  # noqa
                        break
                    before = etree.tostring(parent)
                    try:
                        child = getattr(parent, "_add_" + local)(**{r["prop"]: v})
                        out, cur = "ok:", child.get(clark)
                        if len(parent) != 1 or parent[0] is not child:
                            ck.violation("adder-accepted-but-not-one-child", "%s._add_%s(%s=%r) returned a child but <%s> now holds %d children" % (
                                pcls.__name__, local, r["prop"], v, ptag, len(parent)),
                                {"entry_point": "%s._add_%s" % (pcls.__name__, local), "input": {"parent": ptag, "attr": r["prop"], "value": repr(v)},
                                 "impl_outcome": etree.tostring(parent).decode()})
                    except Exception as e:  # noqa
                        out, cur = "err:" + exc_name(e), None
                        after = etree.tostring(parent)
                        if after != before:
                            ck.violation("adder-rejected-but-written",
                                         "%s._add_%s(%s=%r) is refused (%s) but <%s> changed: %s" % (
                                             pcls.__name__, local, r["prop"], v, type(e).__name__, ptag, after.decode()[-200:]),
                                         {"entry_point": "%s._add_%s(**attrs)" % (pcls.__name__, local),
                                          "input": {"parent": ptag, "child": ctag, "attr": r["prop"], "value": repr(v)},
                                          "impl_outcome": after.decode()[-400:]})
                    ck.count(("adder", ptag, r["sig"], repr(v)), True, "adder")
                    if r["is_enum"] or r.get("default") is None or not meta["simple_types"].get(r["st"], {}).get("w"):
                        continue
                    cases.append(["a", r["st"], "r" if r["kind"] == "RequiredAttribute" else "o", r["default"], "-", enc_val(v)])
                    expect.append((ptag, r, v, out, cur))
    ck.notes.append("generated adders exercised: %d (parent class, child) pairs" % n_adders)
    if not cases or not os.path.exists(os.path.join(COQ, "extract", "run_c11")):
        return 0
    try:
        model_out = run_model("C11", cases)
    except Exception as e:  # noqa
        ck.notes.append("adder model run failed: %r" % e)
        return 0
    diffs = 0
    for (ptag, r, v, out, cur), mo in zip(expect, model_out):
        mout, _, mstate = mo.partition(" ")
        ok = mout == out
        if ok and out == "ok:":
            if cur is None:
                ok = mstate == "-"
            else:
                text = "".join(chr(int(t)) for t in mstate[1:].split(" ")) if len(mstate) > 1 else ""
                if mstate[:1] != "=":
                    ok = False
                elif text.startswith(MARK):
                    try:
                        ok = enc_float(float(cur)) == text[1:]
                    except ValueError:
                        ok = False
                else:
                    ok = text == cur
        if not ok:
            diffs += 1
            if diffs <= 5:
                ck.notes.append("adder diff <%s>._add(%s=%r): impl=%r model=%s" % (ptag, r["sig"], v, (out, cur), mo[:200]))
    return diffs


def _clark(attr):
    from pptx.oxml.ns import qn
    return qn(attr) if ":" in attr else attr


def oracle_rows(ck, rows, meta, st_class, rng):
    """W / Rej / RT / R evaluated directly on the implementation for every attribute row."""
    quantum = {"ST_Angle": 1 / 60000.0, "ST_PositiveFixedAngle": 1 / 60000.0, "ST_Percentage": 1 / 100000.0,
               "ST_PositiveFixedPercentage": 1 / 100000.0, "ST_TextSpacingPercentOrPercentString": 1 / 100000.0,
               "ST_TextFontScalePercentOrPercentString": 1 / 1000.0, "ST_TextSpacingPoint": 127}
    done = set()
    for r in rows:
        key = (r["st"], json.dumps(r["lex"]))
        if key in done:
            continue
        done.add(key)
        st = st_class(r["st"])
        # member <-> token bijectivity of enumerations is C20's obligation; here only W and R
        values = list(st) if r["is_enum"] else grid_for(r["st"], meta, rng)
        for v in values:
            res = impl_to_xml(st, v)
            if res[0] == "err":
                if res[1] not in ("Type", "Value"):
                    ck.violation("rej:%s:%s" % (r["st"], res[2]), "%s.to_xml(%r) is refused with %s, not TypeError/ValueError" % (r["st"], v, res[2]),
                                 {"entry_point": r["st"] + ".to_xml", "input": repr(v), "impl_outcome": res[2]})
                continue
            text = res[1]
            ok = lex_ok_py(r["lex"], text) if isinstance(text, str) else False
            if ok is False:
                klass = "bool" if isinstance(v, bool) else type(v).__name__
                ck.violation("w:%s:%s" % (r["st"], klass), "%s.to_xml(%r) = %r is not a valid lexical form of %s (%s/@%s)" % (
                    r["st"], v, text, r["type"], r["cls"], r["attr"]),
                    {"entry_point": r["st"] + ".to_xml", "input": repr(v), "impl_outcome": text, "xsd_type": r["type"]})
                continue
            # round trip
            back = impl_from_xml(st, text)
            if back[0] == "err":
                ck.violation("rt:%s" % r["st"], "%s: written form %r of %r cannot be read back (%s)" % (r["st"], text, v, back[2]),
                             {"entry_point": r["st"] + ".from_xml", "input": repr(v), "written": text, "impl_outcome": back[2]})
            elif isinstance(v, (int, float)) and not isinstance(v, bool) and isinstance(back[1], (int, float)) \
                    and v == v and abs(v) != math.inf and not r["is_enum"]:
                from fractions import Fraction
                q = Fraction(quantum.get(r["st"], 0)).limit_denominator(10**9)
                b = Fraction(back[1])
                # the value assigned is either the exact number or its binary64 image (an int that
                # the class turns into a float); either reading must agree within the quantum
                cands = [Fraction(v)]
                if r["lex"][0] == "double" or (r["st"] in quantum and r["st"] != "ST_TextSpacingPoint"):
                    cands.append(Fraction(float(v)))
                if r["lex"][0] == "double":
                    cands = cands[1:]
                ok_rt = False
                for a in cands:
                    if r["st"] in ("ST_Angle", "ST_PositiveFixedAngle"):
                        a = a % 360
                        ok_rt = ok_rt or abs(a - b) <= q or abs(abs(a - b) - 360) <= q
                    elif r["st"] == "ST_TextSpacingPoint":
                        # whole centipoints, floor: a representable length reads back exactly (RT_TextSpacingPoint proves
                        # 0 <= written - read < quantum for the unchanged conversion)
                        ok_rt = ok_rt or 0 <= a - b < q
                    else:
                        ok_rt = ok_rt or abs(a - b) <= q
                if not ok_rt:
                    ck.violation("rt:%s" % r["st"], "%s: %r is written %r and read back as %r (quantum %g)" % (r["st"], v, text, back[1], q),
                                 {"entry_point": r["st"], "input": repr(v), "written": text, "impl_outcome": repr(back[1])})
        # R: schema-valid examples must be readable
        unreadable = []
        for s in lex_examples(r["lex"], rng):
            if lex_ok_py(r["lex"], s) is True:
                back = impl_from_xml(st, s)
                if back[0] == "err":
                    unreadable.append(s)
                    if not r["is_enum"]:
                        ck.violation("r:%s:%s" % (r["st"], _form_class(s)),
                                     "%s.from_xml(%r) raises %s although %r is valid for %s (%s/@%s)" % (
                                         r["st"], s, back[2], s, r["type"], r["cls"], r["attr"]),
                                     {"entry_point": r["st"] + ".from_xml", "input": s, "impl_outcome": back[2], "xsd_type": r["type"]})
        if unreadable and r["is_enum"]:
            ck.violation(read_sig(r, unreadable),
                         "%s/@%s (%s): schema-valid values %s cannot be read (ValueError from from_xml)" % (
                             r["cls"], r["attr"], r["st"], unreadable[:12]),
                         {"entry_point": r["st"] + ".from_xml", "input": unreadable[0], "all_unreadable": unreadable, "xsd_type": r["type"]})


def read_sig(r, tokens):
    """Signature of a read-side finding: the attribute AND the exact set of unreadable values,
    so that a different set (e.g. one more token lost) is a new violation."""
    return "attr-read:%s:%s" % (r["sig"], ",".join(sorted(tokens)))


def _form_class(s):
    if s.endswith("%"):
        return "percent"
    if re.search(r"(mm|cm|in|pt|pc|pi)$", s):
        return "universal-measure"
    if re.fullmatch(r"[+-]?\d+", s):
        return "plus-sign" if s.startswith("+") else ("leading-zeros" if s.startswith("0") and len(s) > 1 else "integer")
    return "other"


def replay(rec):
    print(json.dumps({k: rec.get(k) for k in ("entry_point", "input", "impl_outcome", "what")}, indent=1))
    return 0


CLAIM = {
    "tech": "Coq proof: shallow Gallina translation of simpletypes.py (regenerated each run), per-class descriptor lemmas proved for all Python values, generic W/Rej/R/RT theorems, instance by vm_compute over attribute declarations x XSD facets; bit-exact correspondence + oracle for float classes",
    "text": "For every attribute declared by a registered element class the check proves (C11_W/Rej/R/RT over gen/GenC11.v): the translated to_xml writes only strings of the lexical space of the attribute's schema type, refuses everything else with TypeError/ValueError, from_xml reads every string of that lexical space, and written forms read back equal -- for ALL Python values (int, bool, float, str, None, other). Classes without a canonical descriptor (float-valued conversions) are decided by bit-exact correspondence with a verified-by-validation binary64 model plus an oracle on rounding-threshold grids.",
    "note": "Python semantics modelled in lib/PyVal.v/PyFloat.v (validated bit-exactly against CPython); translator trusted to transcribe; patterns not modelled are 'not judged'; float classes partial.",
    "ref": "6/C11",
}
