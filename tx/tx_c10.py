"""T1+T2 for C10: regenerate coq/gen/GenC10.v from /repo's current tree.

Reads: every element class registered with the oxml parser (import of pptx.oxml and
pptx.opc.oxml; child declarations recovered from the closures of the generated
_insert_x methods), the XSDs under /repo/spec, and the AST of src/pptx for direct
insertion call sites.  Emits: one `check` per (class, XSD type of one of its tags, declared
child): the type's content model as a `cm` term, the child's tag, its successors tuple.
Fail-closed: anything not understood lands in `unmodelled`.
Also writes gen/c10_meta.json (names for diagnostics and for the correspondence).
"""
import ast
import json
import os
import sys

sys.path.insert(0, os.path.dirname(os.path.abspath(__file__)))
from xsdlib import REPO, Schemas, Interner, coq_cm, write_if_changed  # noqa: E402

sys.path.insert(0, REPO + "/src")
VERIF = os.path.dirname(os.path.dirname(os.path.abspath(__file__)))


def registered_classes():
    import pptx  # noqa
    import pptx.oxml  # noqa
    import pptx.opc.oxml  # noqa
    from pptx.oxml import element_class_lookup
    from pptx.oxml.ns import _nsmap
    from pptx.opc.oxml import nsmap as opc_nsmap

    regs = {}
    for p, uri in _nsmap.items():
        ns = element_class_lookup.get_namespace(uri)
        try:
            items = list(ns.items())
        except Exception:
            items = []
        for local, cls in items:
            local = local.decode() if isinstance(local, bytes) else local
            regs["%s:%s" % (p, local)] = cls
    # opc oxml uses its own lookup
    from pptx.opc import oxml as opcoxml
    lookup = getattr(opcoxml, "element_class_lookup", None)
    if lookup is not None:
        for p, uri in opc_nsmap.items():
            ns = lookup.get_namespace(uri)
            try:
                items = list(ns.items())
            except Exception:
                items = []
            for local, cls in items:
                local = local.decode() if isinstance(local, bytes) else local
                regs["%s:%s" % (p, local)] = cls
    return regs


def class_decls(cls):
    """{insert-method-name: (child tag, successors tuple, kind, custom?)} through the MRO."""
    from pptx.oxml.xmlchemy import _BaseChildElement

    res = {}
    for klass in cls.__mro__:
        for name, val in vars(klass).items():
            if not name.startswith("_insert_") or name in res:
                continue
            clo = getattr(val, "__closure__", None)
            found = None
            if clo:
                for cell in clo:
                    try:
                        c = cell.cell_contents
                    except ValueError:
                        continue
                    if isinstance(c, _BaseChildElement):
                        found = (c._nsptagname, tuple(c._successors), type(c).__name__, False)
            if found is None:
                found = (None, (), "custom", True)
            res[name] = found
    return res


def count_declaration_sites():
    """AST count of ZeroOrOne/ZeroOrMore/OneOrMore/Choice( call sites that create inserters."""
    n = 0
    for root, _d, files in os.walk(REPO + "/src/pptx"):
        for f in files:
            if f.endswith(".py"):
                tree = ast.parse(open(os.path.join(root, f), encoding="utf-8").read())
                for node in ast.walk(tree):
                    if isinstance(node, ast.Call) and isinstance(node.func, ast.Name) and node.func.id in (
                            "ZeroOrOne", "ZeroOrMore", "OneOrMore", "Choice"):
                        n += 1
    return n


def direct_sites():
    """Non-declarative insertion call sites: (file, function, method, literal tag args)."""
    out = []
    for root, _d, files in os.walk(REPO + "/src/pptx"):
        for f in sorted(files):
            if not f.endswith(".py"):
                continue
            path = os.path.join(root, f)
            rel = os.path.relpath(path, REPO + "/src/pptx")
            if rel == "oxml/xmlchemy.py":
                continue
            tree = ast.parse(open(path, encoding="utf-8").read())
            stack = []

            class V(ast.NodeVisitor):
                def visit_FunctionDef(self, node):
                    stack.append(node.name)
                    self.generic_visit(node)
                    stack.pop()

                def visit_ClassDef(self, node):
                    stack.append(node.name)
                    self.generic_visit(node)
                    stack.pop()

                def visit_Call(self, node):
                    fn = node.func
                    if isinstance(fn, ast.Attribute) and fn.attr in (
                            "insert_element_before", "addprevious", "addnext", "append", "insert", "replace"):
                        recv = ast.unparse(fn.value)
                        lits = [a.value for a in node.args if isinstance(a, ast.Constant) and isinstance(a.value, str)]
                        if fn.attr == "replace" and (node.keywords or lits or len(node.args) != 2):
                            # str.replace("a", "b") / datetime.replace(tzinfo=None): not lxml's replace(old, new)
                            self.generic_visit(node)
                            return
                        # list.append etc. on plain python lists are not tree mutations: keep only
                        # receivers that are elements: heuristic = not a bare local list name known below
                        out.append((rel, ".".join(stack), fn.attr, recv, lits))
                    self.generic_visit(node)

            V().visit(tree)
            out.extend(forwarded_sites(tree, rel, out))
    FORWARDERS[:] = sorted({"%s|%s|%s" % (o[0], o[1], o[2]) for o in out if o is not None and len(o) > 5 and o[5] == "forwarder"})
    return [o for o in out if o is not None and not (len(o) > 5 and o[5] == "forwarder")] + \
           [o[:5] for o in out if o is not None and len(o) > 5 and o[5] == "forwarded"]


FORWARDERS = []     # extract-method forwarders of insert_element_before found by the last direct_sites() call


def forwarded_sites(tree, rel, out):
    """Extract-method refactorings: a method H of a class whose body hands one of its PARAMETERS on to
    self.insert_element_before(param, *literal successors) (nothing else inserted) is a forwarder; every method
    M of the same class that calls self.H(...) is the real insertion site (same literal successors), and the
    forwarder itself is not a site.  One level only; anything else stays a site of its own."""
    extra = []
    for cls in [n for n in ast.walk(tree) if isinstance(n, ast.ClassDef)]:
        methods = {m.name: m for m in cls.body if isinstance(m, ast.FunctionDef)}
        for hname, h in methods.items():
            params = [a.arg for a in h.args.args][1:]
            calls = [c for c in ast.walk(h) if isinstance(c, ast.Call) and isinstance(c.func, ast.Attribute)
                     and c.func.attr in ("insert_element_before", "addprevious", "addnext", "append", "insert", "replace")]
            if len(calls) != 1 or not params:
                continue
            c = calls[0]
            if c.func.attr != "insert_element_before" or ast.unparse(c.func.value) != "self" or not c.args:
                continue
            if not (isinstance(c.args[0], ast.Name) and c.args[0].id in params):
                continue
            if not all(isinstance(a, ast.Constant) and isinstance(a.value, str) for a in c.args[1:]):
                continue
            lits = [a.value for a in c.args[1:]]
            callers = []
            for mname, m in methods.items():
                if mname == hname:
                    continue
                for c2 in ast.walk(m):
                    if isinstance(c2, ast.Call) and isinstance(c2.func, ast.Attribute) and c2.func.attr == hname \
                            and ast.unparse(c2.func.value) == "self":
                        callers.append(mname)
            if not callers:
                continue
            key = "%s.%s" % (cls.name, hname)
            for i, o in enumerate(out):
                if o is not None and o[0] == rel and o[1] == key and o[2] == "insert_element_before":
                    out[i] = o + ("forwarder",)
            for mname in sorted(set(callers)):
                extra.append((rel, "%s.%s" % (cls.name, mname), "insert_element_before", "self", lits, "forwarded"))
    return extra


def pyranks(cm):
    """Independent (python) rank assignment used by the ORACLE only: tag -> [rank, multi]."""
    out = {}

    def collect(c, acc):
        if c[0] == "elt":
            acc.append(c[1])
        elif c[0] == "any":
            acc.append("#any")
        elif c[0] == "rep":
            collect(c[3], acc)
        else:
            for x in c[1]:
                collect(x, acc)

    def go(c, start):
        k = c[0]
        if k in ("elt", "any"):
            out[c[1] if k == "elt" else "#any"] = [start, False]
            return start + 1
        if k == "rep":
            if c[2] is None or c[2] > 1:
                acc = []
                collect(c[3], acc)
                for t in acc:
                    out[t] = [start, True]
                return start + 1
            return go(c[3], start)
        if k == "alt" and all(x[0] == "elt" for x in c[1]):
            for x in c[1]:
                out[x[1]] = [start, False]
            return start + 1
        for x in c[1]:
            start = go(x, start)
        return start

    go(cm, 0)
    return out


def main():
    sch = Schemas()
    intern = Interner()
    regs = registered_classes()
    unmodelled = list(sch.unmodelled)
    checks = []      # dicts
    outside = []     # declared children no candidate type knows
    customs = []
    by_class = {}
    for tag, cls in sorted(regs.items()):
        by_class.setdefault(cls, []).append(tag)
    ninserters = 0
    custom_table = json.load(open(os.path.join(VERIF, "tx", "c10_custom_inserters.json")))
    for cls, tags in sorted(by_class.items(), key=lambda kv: kv[0].__name__):
        ds = class_decls(cls)
        if not ds:
            continue
        tys = sorted({t for tag in tags for t in sch.tag_types.get(tag, ()) if t in sch.ctypes})
        for name, (ctag, S, kind, custom) in sorted(ds.items()):
            ninserters += 1
            if custom:
                cname = "%s.%s" % (cls.__name__, name)
                customs.append(cname)
                spec = custom_table.get(cname)
                if spec and spec.get("how") == "first":
                    # fail-closed: the method body must be exactly the recorded two statements
                    import inspect
                    import textwrap
                    src = textwrap.dedent(inspect.getsource(getattr(cls, name)))
                    fn = ast.parse(src).body[0]
                    body = "\n".join(ast.unparse(st) for st in fn.body
                                     if not (isinstance(st, ast.Expr) and isinstance(st.value, ast.Constant)))
                    if body != spec["body"]:
                        unmodelled.append("hand-written inserter %s changed: %r" % (cname, body))
                        continue
                    for ty in tys:
                        cm = sch.ctype_cm(ty)
                        if spec["child"] in sch.cm_tags(cm):
                            checks.append({"cls": cls.__name__, "tags": tags, "type": "%s:%s" % ty,
                                           "child": spec["child"], "succ": [], "kind": "custom-first", "cm": cm,
                                           "method": name, "cm_tags": sorted(set(sch.cm_tags(cm))), "first": True})
                continue
            hit = False
            for ty in tys:
                cm = sch.ctype_cm(ty)
                if ctag not in sch.cm_tags(cm):
                    continue
                hit = True
                checks.append({"cls": cls.__name__, "tags": tags, "type": "%s:%s" % ty, "child": ctag,
                               "succ": list(S), "kind": kind, "cm": cm, "method": name,
                               "cm_tags": sorted(set(sch.cm_tags(cm)))})
            if not hit:
                outside.append({"cls": cls.__name__, "tags": tags, "child": ctag, "succ": list(S),
                                "types": ["%s:%s" % t for t in tys]})
    # declared children outside every loaded schema type must be in the committed allow-list
    allow = json.load(open(os.path.join(VERIF, "tx", "c10_outside_allow.json")))
    allowed = {(a["cls"], a["child"]) for a in allow}
    for o in outside:
        if (o["cls"], o["child"]) not in allowed:
            unmodelled.append("declared child outside every candidate XSD type: %s/%s" % (o["cls"], o["child"]))
    for c in customs:
        if c not in custom_table:
            unmodelled.append("hand-written inserter not in the site table: " + c)
    sites = direct_sites()
    site_keys = sorted({"%s|%s|%s|%s" % (s[0], s[1], s[2], s[3]) for s in sites})
    known_sites = set(json.load(open(os.path.join(VERIF, "tx", "c10_sites_known.json"))))
    for k in site_keys:
        if k not in known_sites:
            unmodelled.append("direct insertion site not in the site table: " + k)
    # direct sites with literal successors become checks of their own
    site_rows = json.load(open(os.path.join(VERIF, "tx", "c10_site_checks.json")))
    lit = {}
    for srec in sites:
        lit.setdefault("%s|%s|%s|%s" % srec[:4], []).append(list(srec[4]))
    for r in site_rows:
        if r["site"] not in lit:
            unmodelled.append("site table entry no longer present in the source: " + r["site"])
            continue
        if r["how"] == "insert_before" and r["succ"] not in lit[r["site"]]:
            unmodelled.append("site %s: literal successors in the source %r differ from the site table %r" % (
                r["site"], lit[r["site"]], r["succ"]))
            continue
        ty = tuple(r["parent_type"].split(":"))
        if ty not in sch.ctypes:
            unmodelled.append("site %s: unknown parent type" % r["site"])
            continue
        cm = sch.ctype_cm(ty)
        fn = r["site"].split("|")[1]
        checks.append({"cls": "site:" + fn, "tags": [r["parent_tag"]], "type": r["parent_type"], "child": r["child"],
                       "succ": list(r["succ"]), "kind": "site-" + r["how"], "cm": cm, "method": "",
                       "cm_tags": sorted(set(sch.cm_tags(cm)))})
    # known findings: declarations recorded as genuine defects
    kf_path = os.path.join(VERIF, "known_findings.json")
    known_decl = set()
    if os.path.exists(kf_path):
        for e in json.load(open(kf_path)):
            if e.get("property") == "C10" and e.get("status") == "known" and e.get("signature", "").startswith("decl:"):
                known_decl.add(e["signature"][5:])
    lines = []
    lines.append("(* GENERATED by tx/tx_c10.py from /repo -- do not edit *)")
    lines.append("From V.lib Require Import Prelude.")
    lines.append("From V.model Require Import Schema Xmlchemy.")
    lines.append("Open Scope N_scope.")
    # share cm terms per type
    tydefs = {}
    for c in checks:
        if c["type"] not in tydefs:
            nm = "T_" + c["type"].replace(":", "_")
            tydefs[c["type"]] = nm
            lines.append("Definition %s : cm := %s." % (nm, coq_cm(c["cm"], intern)))
    rows = []
    meta = []
    for i, c in enumerate(checks):
        sig = "%s/%s" % (c["cls"], c["child"])
        c["id"] = i
        c["sig"] = sig
        rows.append("  {| ck_id := %d; ck_cm := %s; ck_child := %d; ck_succ := [%s]; ck_first := %s |}" % (
            i, tydefs[c["type"]], intern(c["child"]), "; ".join(str(intern(s)) for s in c["succ"]),
            "true" if c.get("first") else "false"))
        meta.append({"id": i, "cls": c["cls"], "tags": c["tags"], "type": c["type"], "child": c["child"],
                     "succ": c["succ"], "kind": c["kind"], "sig": sig, "known": sig in known_decl,
                     "first": bool(c.get("first")), "method": c["method"], "cm_json": c["cm"], "cm_tags": c["cm_tags"], "pyranks": pyranks(c["cm"])})
    lines.append("Definition checks : list check := [\n%s\n]." % ";\n".join(rows))
    lines.append("Definition known_failing : list N := [%s]." % "; ".join(str(m["id"]) for m in meta if m["known"]))
    lines.append("Close Scope N_scope.")
    lines.append("Definition n_unmodelled : nat := %d%%nat." % len(unmodelled))
    lines.append("Definition n_inserters_recovered : nat := %d%%nat." % ninserters)
    text = "\n".join(lines) + "\n"
    write_if_changed(os.path.join(VERIF, "coq", "gen", "GenC10.v"), text)
    names = {v: k for k, v in intern.ids.items()}
    json.dump({"checks": meta, "tag_names": {str(k): v for k, v in names.items()}, "unmodelled": unmodelled,
               "outside": outside, "customs": customs, "sites": site_keys, "forwarders": list(FORWARDERS), "n_inserters": ninserters,
               "n_declaration_sites_ast": count_declaration_sites()},
              open(os.path.join(VERIF, "coq", "gen", "c10_meta.json"), "w"), indent=1)
    print("tx_c10: %d checks, %d types, %d inserters, %d outside, %d custom, %d direct sites, %d unmodelled" % (
        len(checks), len(tydefs), ninserters, len(outside), len(customs), len(site_keys), len(unmodelled)))


if __name__ == "__main__":
    main()
