(** Row level for the simple-type classes WITHOUT a canonical descriptor (the float- and
    unit-valued classes): the class-level write theorems of C11_float_instance.v /
    C11_write_instance.v, proved on the Gallina regenerated from simpletypes.py for ALL python
    values, are lifted to every attribute row whose writer is that class, against the facet of
    the row's OWN schema type (gen/GenC11.v: rows, row_classes, rows_classes_ok).

    class theorem:   C.to_xml v = Ok s  ->  s is an integer text in [lo, hi]
    row obligation:  the schema type of the attribute allows every integer text in [lo, hi]
                     (covers_int, decided by computation on the regenerated facets)
    conclusion:      whatever value the setter accepts, what it writes is valid for THAT attribute.

    A row of such a class whose facet is narrower than [lo, hi] gets verdict 1 and fails the
    instance obligation no_custom_write_failures. *)
From V.lib Require Import Prelude PyFloat PyVal.
From V.model Require Import SimpleTypeLib.
From V.proofs Require Import PyFloat_proofs SimpleTypeLib_proofs C11_float_instance C11_write_instance.
From V.gen Require Import GenC11.
Local Open Scope Z_scope.

(** an integer text in [lo, hi] is in every lexical space that covers [lo, hi] *)
Lemma lex_int_weaken t : forall lo hi s,
  covers_int t lo hi = true -> lex_ok (LInt lo hi) s = true -> lex_ok t s = true.
Proof.
  induction t using lexspec_ind'; intros lo' hi' s Hc Hs; try discriminate Hc.
  - cbn [covers_int] in Hc. cbn [lex_ok] in *. destruct (lex_integer s) as [z|]; [|discriminate Hs].
    apply andb_true_iff in Hc as [H1 H2]. apply andb_true_iff in Hs as [H3 H4].
    apply Z.leb_le in H1, H2, H3, H4. apply andb_true_iff; split; apply Z.leb_le; lia.
  - rewrite covers_int_union in Hc. rewrite lex_ok_union.
    apply existsb_exists in Hc as [t [Ht Hc]]. apply existsb_exists. exists t; split; auto.
    rewrite Forall_forall in H. eapply H; eauto.
Qed.

(** the class-level write ranges, each backed by a theorem over the regenerated code *)
Definition s_PositiveFixedAngle : str := [83; 84; 95; 80; 111; 115; 105; 116; 105; 118; 101; 70; 105; 120; 101; 100; 65; 110; 103; 108; 101]%N.
Definition s_Angle : str := [83; 84; 95; 65; 110; 103; 108; 101]%N.
Definition s_Percentage : str := [83; 84; 95; 80; 101; 114; 99; 101; 110; 116; 97; 103; 101]%N.
Definition s_PositiveFixedPercentage : str := [83; 84; 95; 80; 111; 115; 105; 116; 105; 118; 101; 70; 105; 120; 101; 100; 80; 101; 114; 99; 101; 110; 116; 97; 103; 101]%N.
Definition s_TextSpacingPercent : str := [83; 84; 95; 84; 101; 120; 116; 83; 112; 97; 99; 105; 110; 103; 80; 101; 114; 99; 101; 110; 116; 79; 114; 80; 101; 114; 99; 101; 110; 116; 83; 116; 114; 105; 110; 103]%N.
Definition s_TextFontScalePercent : str := [83; 84; 95; 84; 101; 120; 116; 70; 111; 110; 116; 83; 99; 97; 108; 101; 80; 101; 114; 99; 101; 110; 116; 79; 114; 80; 101; 114; 99; 101; 110; 116; 83; 116; 114; 105; 110; 103]%N.
Definition s_TextSpacingPoint : str := [83; 84; 95; 84; 101; 120; 116; 83; 112; 97; 99; 105; 110; 103; 80; 111; 105; 110; 116]%N.

Definition class_wranges : list (str * (Z * Z)) :=
  [ (s_PositiveFixedAngle, (0, 21599999));
    (s_Angle, (0, 21599999));
    (s_Percentage, (-2147483648, 2147483647));
    (s_PositiveFixedPercentage, (0, 100000));
    (s_TextSpacingPercent, (0, 13200000));
    (s_TextFontScalePercent, (1000, 100000));
    (s_TextSpacingPoint, (0, 158400)) ].

Definition class_wrange_holds (e : str * (Z * Z)) : Prop :=
  forall v s, dispatch_to_xml (fst e) v = Ok (PStr s) -> lex_ok (LInt (fst (snd e)) (snd (snd e))) s = true.

Lemma class_wranges_sound : Forall class_wrange_holds class_wranges.
Proof.
  unfold class_wranges. repeat constructor; unfold class_wrange_holds; cbn [fst snd]; intros v s.
  - change (dispatch_to_xml s_PositiveFixedAngle) with ST_PositiveFixedAngle__to_xml. apply W_PositiveFixedAngle.
  - change (dispatch_to_xml s_Angle) with ST_Angle__to_xml. apply W_Angle.
  - change (dispatch_to_xml s_Percentage) with ST_Percentage__to_xml. apply W_Percentage.
  - change (dispatch_to_xml s_PositiveFixedPercentage) with ST_PositiveFixedPercentage__to_xml. apply W_PositiveFixedPercentage.
  - change (dispatch_to_xml s_TextSpacingPercent) with ST_TextSpacingPercentOrPercentString__to_xml. apply W_TextSpacingPercent.
  - change (dispatch_to_xml s_TextFontScalePercent) with ST_TextFontScalePercentOrPercentString__to_xml. apply W_TextFontScalePercent.
  - change (dispatch_to_xml s_TextSpacingPoint) with ST_TextSpacingPoint__to_xml. apply W_TextSpacingPoint.
Qed.

Fixpoint wrange_of (c : str) (l : list (str * (Z * Z))) : option (Z * Z) :=
  match l with
  | [] => None
  | (n, r) :: l' => if str_eqb c n then Some r else wrange_of c l'
  end.

Lemma wrange_of_sound c l lo hi : Forall class_wrange_holds l -> wrange_of c l = Some (lo, hi) ->
  forall v s, dispatch_to_xml c v = Ok (PStr s) -> lex_ok (LInt lo hi) s = true.
Proof.
  induction l as [|[n r] l IH]; cbn [wrange_of]; [discriminate|]. intros HF.
  inversion HF as [|? ? Hh Ht]; subst. destruct (str_eqb c n) eqn:E.
  - intros [= ->]. apply str_eqb_eq in E. subst n. exact Hh.
  - apply IH; assumption.
Qed.

(** verdict of a (row, class) pair: 0 = what the class writes is always valid for this
    attribute; 1 = the class can write an integer the attribute's type does not allow;
    2 = no class-level range theorem for this class (or an enumeration row) *)
Definition w_custom_verdict (r : attr_row) (c : str) : N :=
  match wrange_of c class_wranges with
  | Some (lo, hi) => if covers_int (ar_lex r) lo hi then 0%N else 1%N
  | None => 2%N
  end.

Fixpoint verdicts2 (rs : list attr_row) (cs : list str) : list (N * N) :=
  match rs, cs with
  | r :: rs', c :: cs' => (ar_id r, w_custom_verdict r c) :: verdicts2 rs' cs'
  | _, _ => []
  end.
Definition custom_verdicts : list (N * N) := verdicts2 rows row_classes.

Lemma W_rows_custom_gen rs cs : Forall2 row_is rs cs ->
  forall r c, In (r, c) (combine rs cs) -> w_custom_verdict r c = 0%N ->
  forall v s, ar_to_xml r v = Ok (PStr s) -> lex_ok (ar_lex r) s = true.
Proof.
  induction 1 as [|r0 c0 rs cs H0 HF IH]; cbn [combine]; [intros ? ? []|].
  intros r c [E|Hin] Hv v s Hw.
  - injection E as <- <-. unfold w_custom_verdict in Hv.
    destruct (wrange_of c0 class_wranges) as [[lo hi]|] eqn:Ew; [|discriminate Hv].
    destruct (covers_int (ar_lex r0) lo hi) eqn:Ec; [|discriminate Hv].
    destruct H0 as [->|[Hto _]]; [cbn in Ew; discriminate Ew|].
    rewrite Hto in Hw. eapply lex_int_weaken; [exact Ec|].
    eapply wrange_of_sound; [apply class_wranges_sound|exact Ew|exact Hw].
  - eapply IH; eauto.
Qed.

(** W for the custom classes, per attribute row *)
Theorem W_rows_custom : forall r c, In (r, c) (combine rows row_classes) -> w_custom_verdict r c = 0%N ->
  forall v s, ar_to_xml r v = Ok (PStr s) -> lex_ok (ar_lex r) s = true.
Proof. exact (W_rows_custom_gen rows row_classes rows_classes_ok). Qed.

(** instance: no attribute whose writer is one of these classes can be written outside its type *)
Lemma no_custom_write_failures : forallb (fun p => negb (N.eqb (snd p) 1)) custom_verdicts = true.
Proof. vm_compute. reflexivity. Qed.

(** non-vacuity: some rows are judged this way *)
Lemma custom_rows_judged : (0 < length (filter (fun p => N.eqb (snd p) 0) custom_verdicts))%nat.
Proof. vm_compute. lia. Qed.
