(** Lemmas for C12 over model/Access.v. *)
From V.lib Require Import Prelude.
From V.model Require Import Schema Xmlchemy Access.

(** ---- induction on trees (children are a nested list) ---- *)
Section node_induction.
  Variable P : node -> Prop.
  Hypothesis H : forall t a c x, Forall P c -> P (Elem t a c x).
  Fixpoint node_ind' (n : node) : P n :=
    match n with
    | Elem t a c x =>
        H t a c x ((fix go (l : list node) : Forall P l :=
                      match l with
                      | [] => Forall_nil P
                      | m :: l' => Forall_cons m (node_ind' m) (go l')
                      end) c)
    end.
End node_induction.

Lemma strip_unfold cs t a c x : strip cs (Elem t a c x) = Elem t a (strip_children cs c) x.
Proof. reflexivity. Qed.

Lemma strip_children_cons cs m l :
  strip_children cs (m :: l) =
  if removable cs (strip cs m) then strip_children cs l else strip cs m :: strip_children cs l.
Proof. unfold strip_children. simpl. destruct (removable cs (strip cs m)); reflexivity. Qed.

Lemma strip_children_app cs l1 l2 :
  strip_children cs (l1 ++ l2) = strip_children cs l1 ++ strip_children cs l2.
Proof. unfold strip_children. rewrite map_app, filter_app. reflexivity. Qed.

Lemma strip_empty_elem cs x : strip cs (empty_elem x) = empty_elem x.
Proof. reflexivity. Qed.

Lemma removable_empty_elem cs x : memt x cs = true -> removable cs (empty_elem x) = true.
Proof. intros H. unfold removable, empty_elem. rewrite H. reflexivity. Qed.

Lemma strip_children_cons_empty cs x l :
  memt x cs = true -> strip_children cs (empty_elem x :: l) = strip_children cs l.
Proof.
  intros H. rewrite strip_children_cons, strip_empty_elem, (removable_empty_elem _ _ H). reflexivity.
Qed.

(** an empty container put at ANY position of a child list is invisible *)
Lemma strip_children_insert_nth cs x : memt x cs = true ->
  forall i l, strip_children cs (insert_nth i (empty_elem x) l) = strip_children cs l.
Proof.
  intros H. induction i as [|i IH]; intros l.
  - destruct l; simpl; apply strip_children_cons_empty; auto.
  - destruct l as [|a l]; simpl.
    + apply strip_children_cons_empty; auto.
    + rewrite !strip_children_cons, IH. reflexivity.
Qed.

Lemma strip_children_ins_node_at cs x s : memt x cs = true ->
  forall l, strip_children cs (ins_node_at s (empty_elem x) l) = strip_children cs l.
Proof.
  intros H. induction l as [|c l IH]; simpl.
  - apply strip_children_cons_empty; auto.
  - destruct (N.eqb (tag_of c) s).
    + apply strip_children_cons_empty; auto.
    + rewrite !strip_children_cons, IH. reflexivity.
Qed.

Lemma strip_children_insert_node cs x Sx : memt x cs = true ->
  forall l, strip_children cs (insert_node (empty_elem x) Sx l) = strip_children cs l.
Proof.
  intros H l. unfold insert_node. destruct (first_found Sx (map tag_of l)).
  - apply strip_children_ins_node_at; auto.
  - rewrite strip_children_app. rewrite (strip_children_cons_empty _ _ [] H).
    unfold strip_children at 2. simpl. apply app_nil_r.
Qed.

Lemma strip_children_goa cs x Sx : memt x cs = true ->
  forall l, strip_children cs (goa_children x Sx l) = strip_children cs l.
Proof.
  intros H l. unfold goa_children. destruct (memt x (map tag_of l)); auto.
  apply strip_children_insert_node; auto.
Qed.

(** ---- lifting through the path ---- *)
Lemma strip_children_update_nth cs g :
  (forall n, strip cs (g n) = strip cs n) ->
  forall i l, strip_children cs (update_nth i g l) = strip_children cs l.
Proof.
  intros Hg i l. revert i. induction l as [|a l IH]; intros i; destruct i; simpl; auto.
  - rewrite !strip_children_cons, Hg. reflexivity.
  - rewrite !strip_children_cons, IH. reflexivity.
Qed.

Lemma strip_at_path cs f :
  (forall c, strip_children cs (f c) = strip_children cs c) ->
  forall p t, strip cs (at_path f p t) = strip cs t.
Proof.
  intros Hf. induction p as [|i p IH]; intros [tg a c x]; simpl at_path; rewrite !strip_unfold.
  - rewrite Hf. reflexivity.
  - rewrite (strip_children_update_nth cs (at_path f p) IH). reflexivity.
Qed.

(** adding an attribute-less, child-less element of a container tag ANYWHERE is invisible *)
Lemma add_anywhere_strip cs x : memt x cs = true ->
  forall p i t, strip cs (at_path (insert_nth i (empty_elem x)) p t) = strip cs t.
Proof. intros H p i t. apply strip_at_path. intros c. apply strip_children_insert_nth; auto. Qed.

Lemma get_or_add_strip cs x : memt x cs = true ->
  forall Sx p t, strip cs (at_path (goa_children x Sx) p t) = strip cs t.
Proof. intros H Sx p t. apply strip_at_path. intros c. apply strip_children_goa; auto. Qed.

(** ---- the child-list operations are those of Xmlchemy.v ---- *)
Lemma ins_node_at_tags s new l :
  map tag_of (ins_node_at s new l) = ins_at s (tag_of new) (map tag_of l).
Proof.
  induction l as [|c l IH]; simpl; auto.
  destruct (N.eqb (tag_of c) s); simpl; auto. rewrite IH. reflexivity.
Qed.

Lemma insert_node_tags new Sx l :
  map tag_of (insert_node new Sx l) = insert_before (tag_of new) Sx (map tag_of l).
Proof.
  unfold insert_node, insert_before. destruct (first_found Sx (map tag_of l)).
  - apply ins_node_at_tags.
  - rewrite map_app. reflexivity.
Qed.

Lemma goa_children_tags x Sx l :
  map tag_of (goa_children x Sx l) = get_or_add x Sx (map tag_of l).
Proof.
  unfold goa_children, get_or_add. destruct (memt x (map tag_of l)); auto.
  rewrite insert_node_tags. reflexivity.
Qed.

(** ---- packages and steps ---- *)
Lemma on_part_names k f pk : map fst (on_part k f pk) = map fst pk.
Proof.
  unfold on_part. revert k. induction pk as [|a pk IH]; intros k; destruct k; simpl; auto.
  rewrite IH. reflexivity.
Qed.

Lemma strip_pkg_on_part cs k f :
  (forall n, strip cs (f n) = strip cs n) ->
  forall pk, strip_pkg cs (on_part k f pk) = strip_pkg cs pk.
Proof.
  intros Hf pk. unfold on_part, strip_pkg. revert k.
  induction pk as [|a pk IH]; intros k; destruct k; simpl; auto.
  - rewrite Hf. reflexivity.
  - rewrite IH. reflexivity.
Qed.

(** steps that leave every part strip-equal *)
Definition step_ok (cs : list tag) (st : step) : bool :=
  match st with
  | Read | Save => true
  | GoA _ _ x _ => memt x cs
  | AddAt _ _ _ x => memt x cs
  | Put _ _ _ _ => false
  end.

Lemma step_ok_invariant cs s st : step_ok cs st = true ->
  strip_pkg cs (st_pkg (apply_step s st)) = strip_pkg cs (st_pkg s)
  /\ map fst (st_pkg (apply_step s st)) = map fst (st_pkg s).
Proof.
  destruct st as [|k p x Sx|k p i x|k p i new|]; simpl; intros H; try discriminate; auto.
  - split; [apply strip_pkg_on_part; intros n; apply get_or_add_strip; auto | apply on_part_names].
  - split; [apply strip_pkg_on_part; intros n; apply add_anywhere_strip; auto | apply on_part_names].
Qed.

Lemma step_saved s st :
  st_saved (apply_step s st) = st_saved s \/ (st = Save /\ st_saved (apply_step s st) = st_saved s ++ [st_pkg s]).
Proof. destruct st; simpl; auto. Qed.

(** the invariant of a traversal started in s0 *)
Definition same_meaning (cs : list tag) (p q : pkg) : Prop :=
  strip_pkg cs q = strip_pkg cs p /\ map fst q = map fst p.

Definition inv (cs : list tag) (s0 s : state) : Prop :=
  same_meaning cs (st_pkg s0) (st_pkg s)
  /\ exists new, st_saved s = st_saved s0 ++ new /\ Forall (same_meaning cs (st_pkg s0)) new.

Lemma inv_refl cs s : inv cs s s.
Proof. split; [split; auto|]. exists []. rewrite app_nil_r. auto. Qed.

Lemma inv_step cs s0 s st : inv cs s0 s -> step_ok cs st = true -> inv cs s0 (apply_step s st).
Proof.
  intros [[Hs Hn] [new [Hsv Hall]]] Hok.
  destruct (step_ok_invariant cs s st Hok) as [H1 H2].
  split; [split; congruence|].
  destruct (step_saved s st) as [E|[_ E]]; rewrite E.
  - exists new. auto.
  - exists (new ++ [st_pkg s]). rewrite Hsv, app_assoc. split; auto.
    apply Forall_app. split; auto. constructor; [split; auto | constructor].
Qed.

Lemma inv_run cs s0 steps : forall s, inv cs s0 s -> forallb (step_ok cs) steps = true ->
  inv cs s0 (run steps s).
Proof.
  unfold run. induction steps as [|st steps IH]; intros s Hi Hok; simpl in *; auto.
  apply andb_true_iff in Hok as [H1 H2]. apply IH; auto. apply inv_step; auto.
Qed.

(** from accessor effects to steps *)
Lemma step_within_ok cs e st : eff_ok cs e = true -> step_within e st = true -> step_ok cs st = true.
Proof.
  destruct e as [|ts|w]; simpl; intros He Hs; try discriminate.
  - destruct st; simpl in *; auto; discriminate.
  - unfold subset_tags in He. rewrite forallb_forall in He.
    assert (Hm : forall x, memt x ts = true -> memt x cs = true).
    { intros x Hx. unfold memt in Hx. apply existsb_exists in Hx as [y [Hy E]].
      apply N.eqb_eq in E. subst y. apply He; auto. }
    destruct st; simpl in *; auto; discriminate.
Qed.

Lemma runs_ok cs (runs : list (effect * list step)) :
  (forall r, In r runs -> eff_ok cs (fst r) = true /\ realises (fst r) (snd r) = true) ->
  forallb (step_ok cs) (concat (map snd runs)) = true.
Proof.
  induction runs as [|[e st] runs IH]; intros H; simpl; auto.
  rewrite forallb_app. apply andb_true_iff. split.
  - destruct (H (e, st) (or_introl eq_refl)) as [He Hr]. simpl in *.
    unfold realises in Hr. rewrite forallb_forall in *. intros x Hx.
    eapply step_within_ok; eauto.
  - apply IH. intros r Hr. apply H. right; auto.
Qed.

Lemma traversal cs (runs : list (effect * list step)) s0 :
  (forall r, In r runs -> eff_ok cs (fst r) = true /\ realises (fst r) (snd r) = true) ->
  inv cs s0 (run (concat (map snd runs)) s0).
Proof. intros H. apply inv_run; [apply inv_refl | apply runs_ok; auto]. Qed.

(** ---- strip is a normal form ---- *)
Lemma strip_children_idem cs c :
  Forall (fun n => strip cs (strip cs n) = strip cs n) c ->
  strip_children cs (strip_children cs c) = strip_children cs c.
Proof.
  induction 1 as [|a l Ha _ IH]; auto.
  rewrite strip_children_cons. destruct (removable cs (strip cs a)) eqn:E; auto.
  rewrite strip_children_cons, Ha, E, IH. reflexivity.
Qed.

Lemma strip_idempotent cs n : strip cs (strip cs n) = strip cs n.
Proof.
  induction n as [t a c x IH] using node_ind'.
  rewrite !strip_unfold. rewrite strip_children_idem; auto.
Qed.

(** a child is dropped exactly when nothing in its subtree carries meaning *)
Lemma strip_children_spec cs c :
  Forall (fun n => removable cs (strip cs n) = negb (significant cs n)) c ->
  strip_children cs c = map (strip cs) (filter (significant cs) c).
Proof.
  induction 1 as [|a l Ha _ IH]; auto.
  rewrite strip_children_cons, Ha, IH. simpl. destruct (significant cs a); reflexivity.
Qed.

Lemma is_nil_map_filter {A B} (f : A -> B) g (l : list A) :
  is_nil (map f (filter g l)) = negb (existsb g l).
Proof. induction l as [|a l IH]; simpl; auto. destruct (g a); simpl; auto. Qed.

Lemma removable_strip cs n : removable cs (strip cs n) = negb (significant cs n).
Proof.
  induction n as [t a c x IH] using node_ind'.
  rewrite strip_unfold. unfold removable. rewrite (strip_children_spec cs c IH), is_nil_map_filter.
  cbn [significant]. destruct (memt t cs), (is_nil a), (is_nil x), (existsb (significant cs) c); reflexivity.
Qed.

Lemma strip_spec cs t a c x :
  strip cs (Elem t a c x) = Elem t a (map (strip cs) (filter (significant cs) c)) x.
Proof.
  rewrite strip_unfold, strip_children_spec; auto.
  apply Forall_forall. intros n _. apply removable_strip.
Qed.

Lemma strip_keeps_significant cs t a c x m :
  In m c -> significant cs m = true -> In (strip cs m) (children_of (strip cs (Elem t a c x))).
Proof.
  intros Hin Hs. rewrite strip_spec. simpl. apply in_map. apply filter_In. auto.
Qed.

(** ---- Creates is observable: an element that carries meaning never disappears ---- *)
Lemma strip_children_insert_sig_length cs new : significant cs new = true ->
  forall i l, length (strip_children cs (insert_nth i new l)) = S (length (strip_children cs l)).
Proof.
  intros H. assert (E : removable cs (strip cs new) = false) by (rewrite removable_strip, H; reflexivity).
  induction i as [|i IH]; intros l.
  - destruct l; simpl insert_nth; rewrite strip_children_cons, E; reflexivity.
  - destruct l as [|a l]; simpl insert_nth.
    + rewrite strip_children_cons, E. reflexivity.
    + rewrite !strip_children_cons. destruct (removable cs (strip cs a)); simpl; rewrite IH; reflexivity.
Qed.

Lemma creates_visible cs new i t : significant cs new = true ->
  strip cs (at_path (insert_nth i new) [] t) <> strip cs t.
Proof.
  intros H. destruct t as [tg a c x]. simpl at_path. rewrite !strip_unfold. intros E.
  injection E as E. apply (f_equal (@length node)) in E.
  rewrite strip_children_insert_sig_length in E; auto. lia.
Qed.

(** ---- statements in the form used by props/C12.v ---- *)
Lemma traversal_full cs (runs : list (effect * list step)) s0 :
  (forall r, In r runs -> eff_ok cs (fst r) = true /\ realises (fst r) (snd r) = true) ->
  let s := run (concat (map snd runs)) s0 in
  strip_pkg cs (st_pkg s) = strip_pkg cs (st_pkg s0)
  /\ map fst (st_pkg s) = map fst (st_pkg s0)
  /\ exists new, st_saved s = st_saved s0 ++ new
       /\ Forall (fun q => strip_pkg cs q = strip_pkg cs (st_pkg s0) /\ map fst q = map fst (st_pkg s0)) new.
Proof.
  intros H. destruct (traversal cs runs s0 H) as [[H1 H2] H3]. repeat split; auto.
Qed.

Lemma save_changes_nothing s : st_pkg (apply_step s Save) = st_pkg s.
Proof. reflexivity. Qed.

Lemma strip_preserves_meaning cs t a c x :
  strip cs (Elem t a c x) = Elem t a (map (strip cs) (filter (significant cs) c)) x
  /\ (forall m, In m c -> significant cs m = true -> In (strip cs m) (children_of (strip cs (Elem t a c x))))
  /\ (forall m, removable cs (strip cs m) = negb (significant cs m)).
Proof.
  split; [apply strip_spec|]. split; [intros; apply strip_keeps_significant; auto|].
  intros; apply removable_strip.
Qed.
