(** Wire format of python values for the model runners.
    i:<decimal>  b:0|1  f:<m> <e> | f:inf | f:-inf | f:nan  s:<text>  n  o  *)
From V.lib Require Import Prelude PyFloat PyVal Wire.

Definition c_colon : N := 58%N.

Definition parse_float_body (r : str) : option pyfloat :=
  if str_eqb r [105; 110; 102]%N then Some PInf
  else if str_eqb r [45; 105; 110; 102]%N then Some NInf
  else if str_eqb r [110; 97; 110]%N then Some NaN
  else match split_on 32%N r with
       | [ms; es] => match parse_Z ms, parse_Z es with
                     | Some m, Some e => Some (Fin m e)
                     | _, _ => None
                     end
       | _ => None
       end.

Definition parse_pyval (s : str) : option pyval :=
  match s with
  | [110%N] => Some PNone
  | [111%N] => Some (POther 0)
  | k :: c :: r =>
      if negb (N.eqb c c_colon) then None
      else if N.eqb k 105%N then match parse_Z r with Some z => Some (PInt z) | None => None end
      else if N.eqb k 98%N then Some (PBool (str_eqb r [49%N]))
      else if N.eqb k 102%N then match parse_float_body r with Some f => Some (PFloat f) | None => None end
      else if N.eqb k 115%N then Some (PStr r)
      else None
  | _ => None
  end.

Definition show_float (f : pyfloat) : str :=
  match f_canon f with
  | Fin m e => show_Z m ++ [32%N] ++ show_Z e
  | PInf => [105; 110; 102]%N
  | NInf => [45; 105; 110; 102]%N
  | NaN => [110; 97; 110]%N
  end.

(** strings are shown as space-separated code points (see Wire.show_str) *)
Fixpoint show_pyval (v : pyval) : str :=
  match v with
  | PInt z => [105; 58]%N ++ show_Z z
  | PBool b => [98; 58]%N ++ (if b then [49%N] else [48%N])
  | PFloat f => [102; 58]%N ++ show_float f
  | PStr s => [115; 58]%N ++ show_str s
  | PNone => [110%N]
  | PTuple l => [116; 58]%N ++ show_nat (length l)
  | POther _ => [111%N]
  end.
