#!/bin/sh
# bin/seedintake.sh <name> [more seedall args]: take a sub-agent's deliverable from /tmp/seed/<name>/_seed into
# seeded/<name>/, drop the agent's worktree, confirm the change and run the property's check against it.
set -e
n=$1; shift
V=$(cd "$(dirname "$0")/.." && pwd)
mkdir -p "$V/seeded/$n"
cp /tmp/seed/$n/_seed/patch.diff /tmp/seed/$n/_seed/demo.py /tmp/seed/$n/_seed/meta.json "$V/seeded/$n/"
git -C /repo worktree remove --force /tmp/seed/$n
exec "$V/bin/seedall.py" --confirm "$n" "$@"
