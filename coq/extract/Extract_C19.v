From Coq Require Import Extraction ExtrOcamlBasic.
From V.model Require Import PackUriRun.
Extraction Language OCaml.
Cd "extract".
Extraction "c19.ml" run_c19.
Cd "..".
