"""T7 for C05: regenerate coq/gen/GenC05.v + coq/gen/c05_meta.json from /repo's current tree.

Static part (AST of every module under src/pptx):
  every %-format, str.format and f-string whose template text is XML is symbolically
  evaluated to a list of literal pieces and holes; the literal text around each hole is
  lexed to find the slot context (inside a double-quoted attribute value / element text /
  elsewhere); the expression substituted into the hole is classified by local dataflow:
  escaping applied on the way in (none, saxutils.escape, escape with the quot entity) and
  value class (integer conversion, constant, enumeration token, XML fragment produced by
  another scanned function, function parameter, opaque expression).
Dynamic part (import of pptx, nothing in /repo is modified):
  1. every scanned template is instantiated with marker tokens and parsed by lxml: each
     marker must land where the static lexer said (attribute value of that tag / text of
     that element);
  2. every public string-accepting entry point of the registry below is called with a
     marker string while every scanned function and pptx.oxml.parse_xml are wrapped:
     the run-time strings are matched against the templates, which tells for every hole
     the values it really received and which entry point's string reaches it (taint);
  3. the same calls are repeated with the marker followed by the metacharacters: the form in
     which they arrive in the template text must be the escaping read from the source.
Result per hole: one sink (context, escaping) where escaping = NotText when the value is an
integer / constant / enumeration token, or when the hole was exercised, no caller string
ever reached it, and every expression it can receive through the call sites of the package
is literal text, an integer, or listed in LIBRARY_MADE (observed values recorded in the meta
file).  Fail-closed: everything not understood is an entry of `unmodelled`.

The entry-point registry (build_entry_points) is shared with checks/c05.py (the oracle).
"""
import ast
import io
import json
import os
import re
import shutil
import sys
import tempfile

REPO = os.environ.get("VERIF_REPO", "/repo")
VERIF = os.path.dirname(os.path.dirname(os.path.abspath(__file__)))
SRC = os.path.join(REPO, "src")
PKG = os.path.join(SRC, "pptx")
if SRC not in sys.path:
    sys.path.insert(0, SRC)

# entities dictionary entries of xml.sax.saxutils.escape that the model knows: key -> (flag letter, value)
ENTITY_FLAGS = {'"': ("q", "&quot;"), "\t": ("t", "&#9;"), "\n": ("l", "&#10;"), "\r": ("r", "&#13;")}


def esc_flags(esc):
    """'sax' + subset of qtlr -> (q, t, l, r)"""
    return tuple(f in esc[3:] for f in "qtlr")


def coq_esc(esc):
    if esc is None:
        return "EscNone"
    return "EscSaxWith %s" % " ".join("true" if b else "false" for b in esc_flags(esc))


def table_ok(ctx, esc, exact=True):
    """The decision table of model/Escape.v (sink_ok / markup_ok) for caller text."""
    if esc is None:
        return False
    q, t_, l, r = esc_flags(esc)
    if not exact:
        return q if ctx == "AttrDq" else True
    return (q and t_ and l and r) if ctx == "AttrDq" else r


def py_escape(esc, s):
    from xml.sax.saxutils import escape as _esc
    if esc is None or esc == "none":
        return s
    return _esc(s, {k: v for k, (fl, v) in ENTITY_FLAGS.items() if fl in esc[3:]})


XML_START = re.compile(r"\s*<(\?xml|[A-Za-z_][\w.\-]*(:[A-Za-z_][\w.\-]*)?[\s/>])")
MAX_DEPTH = 14


def write_if_changed(path, text):
    try:
        if open(path, encoding="utf-8").read() == text:
            return False
    except OSError:
        pass
    os.makedirs(os.path.dirname(path), exist_ok=True)
    with open(path, "w", encoding="utf-8") as f:
        f.write(text)
    return True


# =============================================================================== static scan
class Unmod(Exception):
    pass


class Hole:
    def __init__(self, src, cls, why="", esc=None, alts=None, frag=None, line=0, conv="s"):
        self.src = src          # source text of the substituted expression
        self.cls = cls          # int | const | enum | frag | param | opaque
        self.why = why
        self.esc = esc          # None | "sax" | "saxq"
        self.alts = alts        # constant alternatives (list of str) for cls == const
        self.frag = frag        # qualified name of the fragment function for cls == frag
        self.line = line
        self.conv = conv
        self.rescanned = False  # the string holding this value was formatted again

    def copy(self):
        h = Hole(self.src, self.cls, self.why, self.esc, self.alts, self.frag, self.line, self.conv)
        h.rescanned = self.rescanned
        return h


def L(text):
    return ("lit", text)


def H(hole):
    return ("hole", hole)


def all_lit(segs):
    return all(k == "lit" for k, _ in segs)


def lit_text(segs):
    return "".join(v for k, v in segs if k == "lit")


def is_xml(segs):
    return bool(XML_START.match(lit_text(segs)))


class Mod:
    def __init__(self, path):
        self.path = path
        self.rel = os.path.relpath(path, PKG)
        self.name = "pptx." + self.rel[:-3].replace(os.sep, ".")
        if self.name.endswith(".__init__"):
            self.name = self.name[: -len(".__init__")]
        self.tree = ast.parse(open(path, encoding="utf-8").read())
        self.classes, self.funcs, self.consts = {}, {}, {}
        self.dict_consts = {}
        self.escape_names, self.saxutils_names, self.quoteattr_names = set(), set(), set()
        self.nsdecls_names = set()
        for node in self.tree.body:
            if isinstance(node, ast.ClassDef):
                self.classes[node.name] = node
            elif isinstance(node, ast.FunctionDef):
                self.funcs[node.name] = node
            elif isinstance(node, ast.Assign) and len(node.targets) == 1 and isinstance(node.targets[0], ast.Name):
                if isinstance(node.value, ast.Constant) and isinstance(node.value.value, str):
                    self.consts[node.targets[0].id] = node.value.value
                if isinstance(node.value, ast.Dict):
                    # a module-level literal table (e.g. an entities dictionary given a name); a name bound twice is dropped
                    nm = node.targets[0].id
                    self.dict_consts[nm] = None if nm in self.dict_consts else node.value
            elif isinstance(node, ast.AnnAssign) and isinstance(node.target, ast.Name) and isinstance(node.value, ast.Dict):
                nm = node.target.id
                self.dict_consts[nm] = None if nm in self.dict_consts else node.value
        for node in ast.walk(self.tree):
            if isinstance(node, ast.ImportFrom):
                for a in node.names:
                    nm = a.asname or a.name
                    if node.module == "xml.sax.saxutils" and a.name == "escape":
                        self.escape_names.add(nm)
                    if node.module == "xml.sax.saxutils" and a.name == "quoteattr":
                        self.quoteattr_names.add(nm)
                    if node.module == "xml.sax" and a.name == "saxutils":
                        self.saxutils_names.add(nm)
                    if node.module == "pptx.oxml.ns" and a.name == "nsdecls":
                        self.nsdecls_names.add(nm)
            elif isinstance(node, ast.Import):
                for a in node.names:
                    if a.name == "xml.sax.saxutils":
                        self.saxutils_names.add(a.asname or "xml.sax.saxutils")


def fn_params(fn):
    a = fn.args
    return [p for p in a.posonlyargs + a.args + a.kwonlyargs] + ([a.vararg] if a.vararg else []) + ([a.kwarg] if a.kwarg else [])


INT_ANN = {"int", "Length", "bool", "float", "Emu", "int | None", "Length | None"}


class Ctx:
    """Evaluation context: one function body."""

    def __init__(self, mod, cls, fn, parent=None):
        self.mod, self.cls, self.fn, self.parent = mod, cls, fn, parent
        self.params = {p.arg: p for p in fn_params(fn)}
        self.bind = {}     # parameter -> value of the caller's argument (a wrapper function evaluated at its call site)
        self.assigns, self.aug, self.loops = {}, set(), {}
        self._collect(fn.body)
        # comprehension / generator variables are loop variables too (for idx, x in enumerate(...) inside "".join(...))
        for node in ast.walk(fn):
            if isinstance(node, ast.comprehension):
                names = [n.id for n in ast.walk(node.target) if isinstance(n, ast.Name)]
                for i, n in enumerate(names):
                    if n not in self.loops and n not in self.assigns and n not in self.params:
                        self.loops[n] = (node.iter, i, len(names))

    def _collect(self, body):
        for st in body:
            self._collect_stmt(st)

    def _collect_stmt(self, st):
        if isinstance(st, (ast.FunctionDef, ast.ClassDef, ast.AsyncFunctionDef)):
            return
        if isinstance(st, ast.Assign):
            for t in st.targets:
                if isinstance(t, ast.Name):
                    self.assigns.setdefault(t.id, []).append(st.value)
                elif isinstance(t, ast.Tuple) and isinstance(st.value, ast.Tuple) and len(t.elts) == len(st.value.elts):
                    for te, ve in zip(t.elts, st.value.elts):
                        if isinstance(te, ast.Name):
                            self.assigns.setdefault(te.id, []).append(ve)
                elif isinstance(t, ast.Tuple):
                    for te in t.elts:
                        if isinstance(te, ast.Name):
                            self.assigns.setdefault(te.id, []).append(None)   # unpacked from an opaque value
        elif isinstance(st, ast.AnnAssign) and isinstance(st.target, ast.Name) and st.value is not None:
            self.assigns.setdefault(st.target.id, []).append(st.value)
        elif isinstance(st, ast.AugAssign) and isinstance(st.target, ast.Name):
            self.aug.add(st.target.id)
            self.assigns.setdefault(st.target.id, []).append(st.value)
        elif isinstance(st, ast.For):
            names = [n.id for n in ast.walk(st.target) if isinstance(n, ast.Name)]
            for i, n in enumerate(names):
                self.loops[n] = (st.iter, i, len(names))
        for field in ("body", "orelse", "finalbody", "handlers"):
            sub = getattr(st, field, None)
            if isinstance(sub, list):
                for s2 in sub:
                    if isinstance(s2, ast.ExceptHandler):
                        self._collect(s2.body)
                    elif isinstance(s2, ast.stmt):
                        self._collect_stmt(s2)

    def qual(self):
        names = []
        c = self
        while c is not None:
            names.append(c.fn.name)
            c = c.parent
        names.reverse()
        return (self.cls.name + "." if self.cls is not None else "") + ".".join(names)


def returns_of(fn):
    out = []

    def walk(body):
        for st in body:
            if isinstance(st, (ast.FunctionDef, ast.ClassDef, ast.AsyncFunctionDef)):
                continue
            if isinstance(st, ast.Return):
                out.append(st)
            for field in ("body", "orelse", "finalbody"):
                sub = getattr(st, field, None)
                if isinstance(sub, list):
                    walk([s for s in sub if isinstance(s, ast.stmt)])
            for h in getattr(st, "handlers", []) or []:
                walk(h.body)

    walk(fn.body)
    return out


def find_member(mod, cls, name, seen=None):
    """FunctionDef `name` in class `cls` or its bases defined in the same module."""
    seen = seen or set()
    if cls is None or cls.name in seen:
        return None
    seen.add(cls.name)
    for node in cls.body:
        if isinstance(node, ast.FunctionDef) and node.name == name:
            return node, cls
    for b in cls.bases:
        if isinstance(b, ast.Name) and b.id in mod.classes:
            r = find_member(mod, mod.classes[b.id], name, seen)
            if r:
                return r
    return None


def is_property(fn):
    for d in fn.decorator_list:
        s = ast.unparse(d)
        if s in ("property", "lazyproperty") or s.endswith(".setter"):
            return True
    return False


PCT = re.compile(r"%(?:\((\w+)\))?[#0\- +]*(?:\*|\d+)?(?:\.(?:\*|\d+))?[hlL]?([diouxXeEfFgGcrsa%])")
FMT = re.compile(r"\{\{|\}\}|\{([^{}!:]*)(?:!([rsa]))?(?::([^{}]*))?\}")


class Scanner:
    def __init__(self):
        self.mods = {}
        for root, _d, files in os.walk(PKG):
            for f in sorted(files):
                if f.endswith(".py"):
                    m = Mod(os.path.join(root, f))
                    self.mods[m.rel] = m
        self.unmodelled = []
        self.units = []          # dicts
        self.whole_parses = []   # parse_xml(<not a template>)
        self.n_parse_calls = 0
        self._resolving = set()

    # ---------------------------------------------------------------- expression evaluation
    def ev(self, e, cx, depth=0):
        """Symbolic value of a string-valued expression: list of segs."""
        if depth > MAX_DEPTH:
            return [H(Hole(ast.unparse(e), "opaque", "depth limit", line=e.lineno))]
        mod = cx.mod
        if isinstance(e, ast.Constant):
            if isinstance(e.value, str):
                return [L(e.value)]
            return [H(Hole(repr(e.value), "const", "literal", alts=[str(e.value)], line=e.lineno))]
        if isinstance(e, ast.JoinedStr):
            out = []
            for v in e.values:
                if isinstance(v, ast.Constant):
                    out.append(L(v.value))
                else:
                    inner = self.ev(v.value, cx, depth + 1)
                    spec = ast.unparse(v.format_spec) if v.format_spec is not None else ""
                    if v.conversion not in (-1, 115):
                        inner = [H(Hole(ast.unparse(v.value), "opaque", "repr/ascii conversion", line=e.lineno))]
                    elif spec:
                        if re.fullmatch(r"f?['\"][0-9,+\- ]*[dxXobneEfFgG%]['\"]", spec):
                            inner = [H(Hole(ast.unparse(v.value), "int", "numeric format spec " + spec, line=e.lineno, conv="d"))]
                        else:
                            inner = [H(Hole(ast.unparse(v.value), "opaque", "format spec " + spec, line=e.lineno))]
                    out += inner
            return out
        if isinstance(e, ast.BinOp) and isinstance(e.op, ast.Add):
            return self.ev(e.left, cx, depth + 1) + self.ev(e.right, cx, depth + 1)
        if isinstance(e, ast.BinOp) and isinstance(e.op, ast.Mod):
            t = self.ev(e.left, cx, depth + 1)
            if isinstance(e.right, ast.Tuple):
                args = list(e.right.elts)
            else:
                args = [e.right]
            return self.apply_percent(t, args, e.right, cx, depth)
        if isinstance(e, ast.BinOp):
            return [H(Hole(ast.unparse(e), "int", "arithmetic", line=e.lineno, conv="d"))]
        if isinstance(e, ast.IfExp):
            a, b = self.ev(e.body, cx, depth + 1), self.ev(e.orelse, cx, depth + 1)
            if all_lit(a) and all_lit(b):
                return [H(Hole(ast.unparse(e), "const", "conditional constant", alts=[lit_text(a), lit_text(b)], line=e.lineno))]
            return [H(Hole(ast.unparse(e), "opaque", "conditional", line=e.lineno))]
        if isinstance(e, ast.Subscript) and isinstance(e.value, ast.Dict):
            vals = [self.ev(v, cx, depth + 1) for v in e.value.values]
            if all(all_lit(v) for v in vals):
                return [H(Hole(ast.unparse(e.slice), "const", "lookup in a literal table", alts=sorted({lit_text(v) for v in vals}), line=e.lineno))]
            return [H(Hole(ast.unparse(e), "opaque", "subscript", line=e.lineno))]
        if isinstance(e, ast.Name):
            return self.ev_name(e, cx, depth)
        if isinstance(e, ast.Attribute):
            return self.ev_attr(e, cx, depth)
        if isinstance(e, ast.Call):
            return self.ev_call(e, cx, depth)
        return [H(Hole(ast.unparse(e), "opaque", type(e).__name__, line=getattr(e, "lineno", 0)))]

    def ev_name(self, e, cx, depth):
        nm = e.id
        c = cx
        while c is not None:
            if nm in c.loops:
                it, idx, n = c.loops[nm]
                if isinstance(it, ast.Call) and isinstance(it.func, ast.Name) and it.func.id == "enumerate" and idx == 0 and n >= 2:
                    return [H(Hole(nm, "int", "enumerate index", line=e.lineno, conv="d"))]
                if isinstance(it, ast.Call) and isinstance(it.func, ast.Name) and it.func.id == "range":
                    return [H(Hole(nm, "int", "range index", line=e.lineno, conv="d"))]
                return [H(Hole(nm, "opaque", "loop variable over " + ast.unparse(it), line=e.lineno))]
            if nm in c.assigns and (id(c.fn), nm) not in self._resolving:
                vals = c.assigns[nm]
                if nm not in c.aug and len(vals) == 1 and vals[0] is not None:
                    # x = f(x): inside the assigned value the name denotes its previous binding
                    self._resolving.add((id(c.fn), nm))
                    try:
                        return self.ev(vals[0], c, depth + 1)
                    finally:
                        self._resolving.discard((id(c.fn), nm))
                if any(v is None for v in vals):
                    return [H(Hole(nm, "opaque", "unpacked local", line=e.lineno))]
                evs = [self.ev(v, c, depth + 1) for v in vals]
                if all(all_lit(v) for v in evs) and nm not in c.aug:
                    return [H(Hole(nm, "const", "local with constant alternatives", alts=sorted({lit_text(v) for v in evs}), line=e.lineno))]
                if all(is_xml(v) or lit_text(v) == "" and all_lit(v) for v in evs):
                    return [H(Hole(nm, "frag", "accumulated in " + c.qual(), frag=c.mod.rel + ":" + c.qual(), line=e.lineno))]
                return [H(Hole(nm, "opaque", "local with several assignments", line=e.lineno))]
            if nm in c.bind:
                return [(k, (v.copy() if k == "hole" else v)) for k, v in c.bind[nm]]
            if nm in c.params:
                p = c.params[nm]
                ann = ast.unparse(p.annotation) if p.annotation is not None else ""
                if ann in INT_ANN:
                    return [H(Hole(nm, "int", "parameter annotated " + ann, line=e.lineno, conv="d"))]
                return [H(Hole(nm, "param", "parameter of " + c.qual() + ((" : " + ann) if ann else ""), line=e.lineno))]
            c = c.parent
        if nm in cx.mod.consts:
            return [L(cx.mod.consts[nm])]
        return [H(Hole(nm, "opaque", "free name", line=e.lineno))]

    def _shadowed(self, nm, cx):
        c = cx
        while c is not None:
            if nm in c.params or nm in c.assigns or nm in c.loops:
                return True
            c = c.parent
        return False

    def inline_wrapper(self, fn, sub, e, cx, depth, skip_first=False):
        """A function whose body is (docstring +) one return statement is evaluated at its call site: its parameters
        stand for the caller's arguments, so a helper that only wraps escape() keeps the escaping visible.
        None when the callee is not of that shape or the arguments cannot be matched to parameters."""
        body = [st for st in fn.body if not (isinstance(st, ast.Expr) and isinstance(st.value, ast.Constant)
                                            and isinstance(st.value.value, str))]
        if len(body) != 1 or not isinstance(body[0], ast.Return) or body[0].value is None or depth > 12:
            return None
        a = fn.args
        if a.vararg or a.kwarg or a.kwonlyargs or a.posonlyargs:
            return None
        params = [p.arg for p in a.args]
        if skip_first and params:
            params = params[1:]
        if any(isinstance(x, ast.Starred) for x in e.args) or any(k.arg is None for k in e.keywords):
            return None
        if len(e.args) > len(params):
            return None
        bind = {}
        for pn, av in zip(params, e.args):
            bind[pn] = self.ev(av, cx, depth + 1)
        for k in e.keywords:
            if k.arg not in params or k.arg in bind:
                return None
            bind[k.arg] = self.ev(k.value, cx, depth + 1)
        ndef = len(a.defaults)
        for i, pn in enumerate(params):
            if pn not in bind:
                j = i - (len(params) - ndef)
                if j < 0:
                    return None
                bind[pn] = self.ev(a.defaults[j], sub, depth + 1)
        sub.bind = bind
        return self.ev(body[0].value, sub, depth + 1)

    def resolve_owner(self, base, cx):
        """Class (in this module) that an expression denotes an instance of / is, or None."""
        mod = cx.mod
        if isinstance(base, ast.Name):
            if base.id in ("self", "cls") and cx_cls(cx) is not None:
                return cx_cls(cx)
            if base.id in mod.classes:
                return mod.classes[base.id]
            c = cx
            while c is not None:
                if base.id in c.assigns and base.id not in c.aug and len(c.assigns[base.id]) == 1:
                    v = c.assigns[base.id][0]
                    if isinstance(v, ast.Call) and isinstance(v.func, ast.Name) and v.func.id in mod.classes:
                        return mod.classes[v.func.id]
                c = c.parent
        return None

    def ev_member(self, owner, name, call_args, e, cx, depth):
        """Value of owner.name (property) or owner.name(...) (method) when it is defined in this module."""
        r = find_member(cx.mod, owner, name)
        if r is None:
            return None
        fn, ocls = r
        if call_args is None and not is_property(fn):
            return None
        rets = returns_of(fn)
        sub = Ctx(cx.mod, ocls, fn)
        if call_args is not None and isinstance(e, ast.Call):
            is_static = any(isinstance(d, ast.Name) and d.id == "staticmethod" for d in fn.decorator_list)
            r2 = self.inline_wrapper(fn, Ctx(cx.mod, ocls, fn), e, cx, depth, skip_first=not is_static)
            if r2 is not None:
                return r2
        nparams = len([p for p in fn_params(fn) if p.arg not in ("self", "cls")])
        qual = cx.mod.rel + ":" + sub.qual()
        if not rets:
            return [H(Hole(ast.unparse(e), "opaque", "no return in " + qual, line=e.lineno))]
        evs = [self.ev(rt.value, sub, depth + 1) if rt.value is not None else [L("")] for rt in rets]
        if any(is_xml(v) or (v and is_frag_only(v) and not all_lit(v)) for v in evs):
            if nparams == 0 and len(evs) == 1 and all_lit(evs[0]):
                return evs[0]                      # a constant template: inline
            return [H(Hole(ast.unparse(e), "frag", "XML built by " + qual, frag=qual, line=e.lineno))]
        if nparams == 0 and len(evs) == 1:
            return evs[0]                          # e.g. a property returning escape(...)
        if all(all_lit(v) for v in evs):
            return [H(Hole(ast.unparse(e), "const", "constant alternatives of " + qual, alts=sorted({lit_text(v) for v in evs}), line=e.lineno))]
        return [H(Hole(ast.unparse(e), "opaque", "value of " + qual, line=e.lineno))]

    def ev_attr(self, e, cx, depth):
        owner = self.resolve_owner(e.value, cx)
        if owner is not None:
            r = self.ev_member(owner, e.attr, None, e, cx, depth)
            if r is not None:
                return r
        src = ast.unparse(e)
        if re.search(r"(^|[._])r[Ii]d$", src):
            return [H(Hole(src, "opaque", "relationship id", line=e.lineno))]
        return [H(Hole(src, "opaque", "attribute", line=e.lineno))]

    def ev_call(self, e, cx, depth):
        mod = cx.mod
        f = e.func
        fsrc = ast.unparse(f)
        # escape(x[, {..}])
        is_escape = (isinstance(f, ast.Name) and f.id in mod.escape_names) or (
            isinstance(f, ast.Attribute) and f.attr == "escape" and ast.unparse(f.value) in mod.saxutils_names)
        if is_escape:
            if not e.args or e.keywords and any(k.arg != "entities" for k in e.keywords):
                raise Unmod("escape() call shape: " + ast.unparse(e))
            ent = e.args[1] if len(e.args) > 1 else (e.keywords[0].value if e.keywords else None)
            kind, d = "sax", {}
            if isinstance(ent, ast.Name) and mod.dict_consts.get(ent.id) is not None and not self._shadowed(ent.id, cx):
                ent = mod.dict_consts[ent.id]       # a module-level literal dictionary used by name
            if ent is not None:
                if not (isinstance(ent, ast.Dict) and all(isinstance(k, ast.Constant) and isinstance(v, ast.Constant)
                                                         for k, v in zip(ent.keys, ent.values))):
                    raise Unmod("escape() entities not a literal dict: " + ast.unparse(e))
                d = {k.value: v.value for k, v in zip(ent.keys, ent.values)}
                for key, val in d.items():
                    if ENTITY_FLAGS.get(key, (None, None))[1] != val:
                        raise Unmod("escape() entities entry not modelled: %r -> %r (modelled: %s)" % (
                            key, val, ", ".join("%r -> %r" % (k2, v2[1]) for k2, v2 in ENTITY_FLAGS.items())))
                kind = "sax" + "".join(fl for key, (fl, _v) in ENTITY_FLAGS.items() if key in d)
            inner = self.ev(e.args[0], cx, depth + 1)
            out = []
            for k, v in inner:
                if k == "lit":
                    from xml.sax.saxutils import escape as _esc
                    out.append(L(_esc(v, d)))
                else:
                    h = v.copy()
                    if h.cls in ("param", "opaque"):
                        if h.esc is not None:
                            raise Unmod("value escaped twice: " + ast.unparse(e))
                        h.esc = kind
                    elif h.cls == "frag":
                        raise Unmod("escape() applied to an XML fragment: " + ast.unparse(e))
                    out.append(H(h))
            return out
        if (isinstance(f, ast.Name) and f.id in mod.quoteattr_names) or (isinstance(f, ast.Attribute) and f.attr == "quoteattr"):
            raise Unmod("quoteattr() is not modelled: " + ast.unparse(e))
        if isinstance(f, ast.Name) and f.id in mod.nsdecls_names:
            if all(isinstance(a, ast.Constant) and isinstance(a.value, str) for a in e.args) and not e.keywords:
                from pptx.oxml.ns import nsdecls
                return [L(nsdecls(*[a.value for a in e.args]))]
            raise Unmod("nsdecls() with non-literal arguments: " + ast.unparse(e))
        if isinstance(f, ast.Name) and f.id == "str" and len(e.args) == 1:
            return self.ev(e.args[0], cx, depth + 1)
        if isinstance(f, ast.Name) and f.id in ("len", "int", "abs", "round", "max", "min"):
            return [H(Hole(ast.unparse(e), "int", f.id + "()", line=e.lineno, conv="d"))]
        if isinstance(f, ast.Name) and f.id == "cast" and len(e.args) == 2:
            return self.ev(e.args[1], cx, depth + 1)
        # "".join(<XML snippet> for ... in ...): the snippets are accumulated exactly as by  xml += snippet  in a loop
        if isinstance(f, ast.Attribute) and f.attr == "join" and isinstance(f.value, ast.Constant) and isinstance(f.value.value, str) \
                and len(e.args) == 1 and isinstance(e.args[0], (ast.GeneratorExp, ast.ListComp)) and not e.keywords:
            elt = self.ev(e.args[0].elt, cx, depth + 1)
            if is_xml(elt) or (elt and is_frag_only(elt) and not all_lit(elt)):
                return [H(Hole(ast.unparse(e), "frag", "XML accumulated by join in " + cx.qual(), frag=cx.mod.rel + ":" + cx.qual(), line=e.lineno))]
        # str.format
        if isinstance(f, ast.Attribute) and f.attr == "format":
            t = self.ev(f.value, cx, depth + 1)
            if all_lit(t) or is_xml(t):
                return self.apply_format(t, e, cx, depth)
            return [H(Hole(ast.unparse(e), "opaque", "format on unresolved template", line=e.lineno))]
        # enumeration token
        if isinstance(f, ast.Attribute) and f.attr == "to_xml" and re.fullmatch(r"[A-Z][A-Z0-9_]+", ast.unparse(f.value)):
            return [H(Hole(ast.unparse(e), "enum", "enumeration token", line=e.lineno))]
        # member of a class of this module
        if isinstance(f, ast.Attribute):
            owner = self.resolve_owner(f.value, cx)
            if owner is not None:
                r = self.ev_member(owner, f.attr, e.args, e, cx, depth)
                if r is not None:
                    return r
        if isinstance(f, ast.Name):
            # nested function or module function
            c = cx
            while c is not None:
                for st in ast.walk(c.fn):
                    if isinstance(st, ast.FunctionDef) and st.name == f.id and st is not c.fn:
                        r2 = self.inline_wrapper(st, Ctx(cx.mod, c.cls, st, parent=c), e, cx, depth)
                        if r2 is not None:
                            return r2
                        sub = Ctx(cx.mod, c.cls, st, parent=c)
                        rets = returns_of(st)
                        evs = [self.ev(rt.value, sub, depth + 1) for rt in rets if rt.value is not None]
                        qual = cx.mod.rel + ":" + sub.qual()
                        if evs and any(is_xml(v) for v in evs):
                            return [H(Hole(ast.unparse(e), "frag", "XML built by " + qual, frag=qual, line=e.lineno))]
                        if evs and all(v == [] or (all_lit(v) and lit_text(v) == "") or is_frag_only(v) for v in evs):
                            return [H(Hole(ast.unparse(e), "frag", "XML accumulated by " + qual, frag=qual, line=e.lineno))]
                        return [H(Hole(ast.unparse(e), "opaque", "value of " + qual, line=e.lineno))]
                c = c.parent
            if f.id in mod.funcs:
                fn = mod.funcs[f.id]
                r2 = self.inline_wrapper(fn, Ctx(mod, None, fn), e, cx, depth)
                if r2 is not None:
                    return r2
                sub = Ctx(mod, None, fn)
                evs = [self.ev(rt.value, sub, depth + 1) for rt in returns_of(fn) if rt.value is not None]
                qual = mod.rel + ":" + fn.name
                if evs and any(is_xml(v) for v in evs):
                    return [H(Hole(ast.unparse(e), "frag", "XML built by " + qual, frag=qual, line=e.lineno))]
        return [H(Hole(ast.unparse(e), "opaque", "call", line=e.lineno))]

    # ---------------------------------------------------------------- formatting
    def _arg_value(self, a, cx, depth, conv):
        v = self.ev(a, cx, depth + 1)
        if conv in "diouxXeEfFgGc":
            return [H(Hole(ast.unparse(a), "int", "%%%s conversion" % conv, line=a.lineno, conv="d"))]
        if conv in "ra":
            return [H(Hole(ast.unparse(a), "opaque", "repr conversion", line=a.lineno))]
        return v

    def _mark_rescanned(self, t):
        for k, v in t:
            if k == "hole" and v.cls in ("param", "opaque", "frag"):
                v.rescanned = True

    def apply_percent(self, t, args, right, cx, depth):
        if not any(k == "lit" for k, _ in t):
            return [H(Hole(ast.unparse(right), "opaque", "format on unresolved template", line=right.lineno))]
        self._mark_rescanned(t)
        out, i = [], 0
        mapping = None
        if len(args) == 1 and isinstance(args[0], ast.Dict):
            mapping = {k.value: v for k, v in zip(args[0].keys, args[0].values) if isinstance(k, ast.Constant)}
        for k, v in t:
            if k == "hole":
                out.append((k, v))
                continue
            pos = 0
            for m in PCT.finditer(v):
                out.append(L(v[pos:m.start()]))
                pos = m.end()
                key, conv = m.group(1), m.group(2)
                if conv == "%":
                    out.append(L("%"))
                    continue
                if key is not None:
                    if mapping is None or key not in mapping:
                        raise Unmod("%%(%s)s without a literal mapping" % key)
                    a = mapping[key]
                else:
                    if i >= len(args):
                        if len(args) == 1 and not isinstance(right, ast.Tuple):
                            # a single non-tuple right operand that may itself be a tuple value
                            raise Unmod("more directives than arguments in percent-format at line %d" % right.lineno)
                        raise Unmod("more directives than arguments in percent-format at line %d" % right.lineno)
                    a = args[i]
                    i += 1
                out += self._arg_value(a, cx, depth, conv)
            out.append(L(v[pos:]))
        if mapping is None and i != len(args):
            raise Unmod("%d arguments for %d directives in percent-format at line %d" % (len(args), i, right.lineno))
        return merge(out)

    def apply_format(self, t, call, cx, depth):
        self._mark_rescanned(t)
        mapping, pos_args = {}, list(call.args)
        for kw in call.keywords:
            if kw.arg is None:
                if isinstance(kw.value, ast.Dict) and all(isinstance(k, ast.Constant) for k in kw.value.keys):
                    for k, v in zip(kw.value.keys, kw.value.values):
                        mapping[k.value] = v
                else:
                    raise Unmod("format(**<non-literal>) at line %d" % call.lineno)
            else:
                mapping[kw.arg] = kw.value
        out, auto = [], 0
        for k, v in t:
            if k == "hole":
                out.append((k, v))
                continue
            pos = 0
            for m in FMT.finditer(v):
                out.append(L(v[pos:m.start()]))
                pos = m.end()
                if m.group(0) == "{{":
                    out.append(L("{"))
                    continue
                if m.group(0) == "}}":
                    out.append(L("}"))
                    continue
                name, conv, spec = m.group(1), m.group(2), m.group(3)
                if name == "":
                    idx = auto
                    auto += 1
                    if idx >= len(pos_args):
                        raise Unmod("format(): positional field without argument, line %d" % call.lineno)
                    a = pos_args[idx]
                elif name.isdigit():
                    if int(name) >= len(pos_args):
                        raise Unmod("format(): positional field without argument, line %d" % call.lineno)
                    a = pos_args[int(name)]
                elif name in mapping:
                    a = mapping[name]
                else:
                    raise Unmod("format(): field {%s} has no argument, line %d" % (name, call.lineno))
                c = "s"
                if conv in ("r", "a"):
                    c = "r"
                elif spec:
                    c = "d" if re.fullmatch(r"[0-9,+\- ]*[dxXobneEfFgG%]", spec) else "r"
                out += self._arg_value(a, cx, depth, c)
            out.append(L(v[pos:]))
        return merge(out)

    # ---------------------------------------------------------------- units
    def scan(self):
        for rel, mod in sorted(self.mods.items()):
            for cls, fn, parent in iter_functions(mod):
                cx = self._ctx_for(mod, cls, fn, parent)
                try:
                    self.scan_function(mod, cls, fn, cx)
                except Unmod as u:
                    self.unmodelled.append("%s:%s: %s" % (rel, cx.qual(), u))

    def _ctx_for(self, mod, cls, fn, parent):
        if parent is None:
            return Ctx(mod, cls, fn)
        pcx = self._ctx_for(mod, cls, parent[0], parent[1])
        return Ctx(mod, cls, fn, parent=pcx)

    def scan_function(self, mod, cls, fn, cx):
        cands = []
        own = own_nodes(fn)
        for node in own:
            if isinstance(node, ast.BinOp) and isinstance(node.op, ast.Mod):
                cands.append((node, [node.left]))
            elif isinstance(node, ast.Call) and isinstance(node.func, ast.Attribute) and node.func.attr == "format":
                cands.append((node, [node.func.value]))
            elif isinstance(node, ast.JoinedStr):
                cands.append((node, [v for v in node.values if isinstance(v, ast.Constant)]))
            elif isinstance(node, ast.BinOp) and isinstance(node.op, ast.Add):
                cands.append((node, []))
        kept = []
        for node, tparts in cands:
            try:
                segs = self.ev(node, cx)
            except Unmod as u:
                # only a concern when the template is XML
                try:
                    t = self.ev(tparts[0], cx) if tparts and not isinstance(node, ast.JoinedStr) else [L(ast.unparse(node))]
                except Unmod:
                    t = [L(ast.unparse(node))]
                if "<" in lit_text(t) and XML_START.match(lit_text(t)):
                    self.unmodelled.append("%s:%s line %d: %s" % (mod.rel, cx.qual(), node.lineno, u))
                continue
            if not is_xml(segs):
                if isinstance(node, ast.Call) and not all_lit(segs) and len(segs) == 1 and segs[0][1].why == "format on unresolved template":
                    # .format on something we cannot see: a concern only in modules that build XML
                    if mod.nsdecls_names or "parse_xml" in open(mod.path).read():
                        rec = ast.unparse(node.func.value)
                        self.unmodelled.append("%s:%s line %d: .format on unresolved template %s" % (mod.rel, cx.qual(), node.lineno, rec))
                continue
            if all_lit(segs):
                continue
            kept.append((node, tparts, segs))
        # drop candidates nested in the template part of another kept candidate, and Add-parts of kept ones
        final = []
        for node, tparts, segs in kept:
            inside = False
            for other, _otp, _os in kept:
                if other is node:
                    continue
                if isinstance(other, ast.BinOp) and isinstance(other.op, ast.Mod):
                    region = [other.left]
                elif isinstance(other, ast.Call):
                    region = [other.func.value]
                elif isinstance(other, ast.BinOp):      # Add: both operands belong to the same template
                    region = [other.left, other.right]
                else:
                    region = []
                for r in region:
                    if any(n is node for n in ast.walk(r)):
                        inside = True
            if not inside:
                final.append((node, segs))
        for node, segs in final:
            self.units.append({"mod": mod.rel, "modname": mod.name, "cls": cls.name if cls is not None else None,
                               "func": cx.qual(), "top": top_name(cx), "line": node.lineno, "segs": segs,
                               "kind": type(node).__name__, "fnref": (mod, cls, fn, cx)})
        # parse_xml roots
        for node in own:
            if isinstance(node, ast.Call) and isinstance(node.func, ast.Name) and node.func.id == "parse_xml":
                self.n_parse_calls += 1
                arg = node.args[0] if node.args else None
                tgt = arg
                if isinstance(arg, ast.Name) and arg.id in cx.assigns and arg.id not in cx.aug and len(cx.assigns[arg.id]) == 1 \
                        and cx.assigns[arg.id][0] is not None:
                    tgt = cx.assigns[arg.id][0]
                covered = tgt is not None and any(any(n is u for n in ast.walk(tgt)) for u, _s in final)
                if covered:
                    continue
                try:
                    segs = self.ev(arg, cx)
                except Unmod as u:
                    self.unmodelled.append("%s:%s line %d: parse_xml argument: %s" % (mod.rel, cx.qual(), node.lineno, u))
                    continue
                if all_lit(segs):
                    continue
                if len(segs) == 1 and segs[0][0] == "hole":
                    h = segs[0][1]
                    if h.cls == "frag":
                        continue      # XML built by a scanned function
                    self.whole_parses.append({"where": "%s:%s line %d" % (mod.rel, cx.qual(), node.lineno), "arg": h.src, "why": h.why})
                    continue
                if is_xml(segs):
                    # template built in a way the unit scan did not see: make it a unit of its own
                    self.units.append({"mod": mod.rel, "modname": mod.name, "cls": cls.name if cls is not None else None,
                                       "func": cx.qual(), "top": top_name(cx), "line": node.lineno, "segs": segs, "kind": "parse_xml-arg",
                                       "fnref": (mod, cls, fn, cx)})
                else:
                    self.unmodelled.append("%s:%s line %d: parse_xml of a spliced string that is not a recognised template: %s" % (
                        mod.rel, cx.qual(), node.lineno, ast.unparse(arg)[:80]))


def cx_cls(cx):
    return cx.cls


def is_frag_only(v):
    return all((k == "lit" and x == "") or (k == "hole" and x.cls == "frag") for k, x in v)


def merge(segs):
    out = []
    for k, v in segs:
        if k == "lit":
            if v == "":
                continue
            if out and out[-1][0] == "lit":
                out[-1] = L(out[-1][1] + v)
                continue
        out.append((k, v))
    return out


def top_name(cx):
    c = cx
    while c.parent is not None:
        c = c.parent
    return c.fn.name


def own_nodes(fn):
    """All AST nodes of a function body excluding nested function/class definitions."""
    out = []

    def walk(n):
        for ch in ast.iter_child_nodes(n):
            if isinstance(ch, (ast.FunctionDef, ast.ClassDef, ast.AsyncFunctionDef, ast.Lambda)):
                continue
            out.append(ch)
            walk(ch)

    for st in fn.body:
        if isinstance(st, (ast.FunctionDef, ast.ClassDef, ast.AsyncFunctionDef)):
            continue
        out.append(st)
        walk(st)
    return out


def iter_functions(mod):
    """(class, function, parent-chain) for every function, including nested ones."""
    def nested(cls, fn, parent):
        yield cls, fn, parent
        for node in own_nodes_defs(fn):
            yield from nested(cls, node, (fn, parent))

    for node in mod.tree.body:
        if isinstance(node, ast.FunctionDef):
            yield from nested(None, node, None)
        elif isinstance(node, ast.ClassDef):
            for sub in node.body:
                if isinstance(sub, ast.FunctionDef):
                    yield from nested(node, sub, None)


def own_nodes_defs(fn):
    out = []

    def walk(n):
        for ch in ast.iter_child_nodes(n):
            if isinstance(ch, ast.FunctionDef):
                out.append(ch)
                continue
            if isinstance(ch, (ast.ClassDef, ast.Lambda)):
                continue
            walk(ch)

    for st in fn.body:
        if isinstance(st, ast.FunctionDef):
            out.append(st)
        else:
            walk(st)
    return out


# =============================================================================== provenance of untainted holes
# Expressions that are known to be made by the library (never caller text).  An untainted hole
# whose value can come from anything else is reported as unmodelled: either an entry point is
# missing from the registry, or this table has to be extended after looking at the code.
LIBRARY_MADE = [
    (r"(^|[._])r[Ii]d$|_rIds\[\d\]$|\.add_chart_part\(|\.add_embedded_ole_object_part\(",
     "relationship id made by the package (rId<n>; xsd:ID when loaded)"),
    (r"^self\._series\.(name_ref|values_ref|categories_ref|x_values_ref|y_values_ref|bubble_sizes_ref)$",
     "worksheet range reference computed by the workbook writer"),
    (r"^series\.index$|^categories\.leaf_count$", "integer"),
    (r"^value$|^category\.numeric_str_val\(self\._date_1904\)$", "number of a data point / numeric category"),
    (r"^nsmap\['\w+'\]$", "namespace constant"),
    (r"^autoshape_type\.(prst|basename)$", "token / name from pptx.spec.autoshape_types (basename is escaped with the quot entity)"),
    (r"^self\._next_ph_name\(ph_type, id_, orient\)$", "placeholder name made from the basename table and integers"),
]


class Provenance:
    def __init__(self, sc):
        self.sc = sc
        self.funcs = []
        for rel, mod in sorted(sc.mods.items()):
            for cls, fn, parent in iter_functions(mod):
                self.funcs.append((mod, cls, fn, parent))
        self.calls = {}
        for mod, cls, fn, parent in self.funcs:
            for node in own_nodes(fn):
                if isinstance(node, ast.Call):
                    f = node.func
                    nm = f.attr if isinstance(f, ast.Attribute) else (f.id if isinstance(f, ast.Name) else None)
                    if nm:
                        self.calls.setdefault(nm, []).append((mod, cls, fn, parent, node))

    def leaves(self, mod, cls, fn, cx, pname, depth=0, seen=None):
        """Opaque expressions a parameter can receive through the call sites found in the package."""
        seen = seen if seen is not None else set()
        key = (mod.rel, cx.qual(), pname)
        if key in seen:
            return []
        if depth > 6:
            return ["<call chain deeper than 6 for %s>" % pname]
        seen.add(key)
        pos = [p.arg for p in fn_params(fn) if p.arg not in ("self", "cls")]
        sites = self.calls.get(fn.name, [])
        if not sites:
            return ["<no call site of %s>" % fn.name]
        out = []
        for m2, c2, f2, par2, call in sites:
            arg = None
            if pname in pos and pos.index(pname) < len(call.args):
                arg = call.args[pos.index(pname)]
            for kw in call.keywords:
                if kw.arg == pname:
                    arg = kw.value
            if arg is None:
                continue
            cx2 = self.sc._ctx_for(m2, c2, f2, par2)
            try:
                segs = self.sc.ev(arg, cx2)
            except Unmod as u:
                out.append("<%s>" % u)
                continue
            for k, v in segs:
                if k != "hole" or v.cls in ("int", "const", "enum"):
                    continue
                if v.cls == "param":
                    out += self.leaves(m2, c2, f2, cx2, v.src, depth + 1, seen)
                else:
                    out.append(v.src)
        return out

    def judge(self, unit, hole):
        """-> (leaves, list of leaves outside the library-made table)"""
        mod, cls, fn, cx = unit["fnref"]
        if hole.cls == "param":
            lv = sorted(set(self.leaves(mod, cls, fn, cx, hole.src)))
        else:
            lv = [hole.src]
        bad = [x for x in lv if not any(re.search(rx, x) for rx, _why in LIBRARY_MADE)]
        return lv, bad


# =============================================================================== template lexer
NAME_START = re.compile(r"[A-Za-z_:]")
NAME_CHAR = re.compile(r"[\w:.\-]")


class TemplateLexer:
    """Walks the literal text of a template and says in which XML context every hole sits."""

    def __init__(self):
        self.state = "content"
        self.stack = []
        self.tag = ""
        self.attr = ""
        self.closing = False
        self.buf = ""
        self.valtext = ""     # literal text of the current attribute value / text run
        self.error = None

    def snapshot(self):
        attr = self.attr if self.state in ("attrname", "aftereq", "dq", "sq") else ""
        return (self.state, tuple(self.stack), self.tag, attr, self.closing)

    def feed(self, text):
        i, n = 0, len(text)
        while i < n and self.error is None:
            ch = text[i]
            st = self.state
            if st == "content":
                if text.startswith("<!--", i):
                    self.state = "comment"
                    i += 4
                    continue
                if text.startswith("<![CDATA[", i):
                    self.state = "cdata"
                    i += 9
                    continue
                if text.startswith("<?", i):
                    self.state = "pi"
                    i += 2
                    continue
                if ch == "<":
                    self.closing = text.startswith("</", i)
                    i += 2 if self.closing else 1
                    self.state = "tagname"
                    self.tag = ""
                    self.valtext = ""
                    continue
                self.valtext += ch
                i += 1
            elif st == "comment":
                j = text.find("-->", i)
                if j < 0:
                    i = n
                else:
                    self.state = "content"
                    i = j + 3
            elif st == "cdata":
                j = text.find("]]>", i)
                if j < 0:
                    i = n
                else:
                    self.state = "content"
                    i = j + 3
            elif st == "pi":
                j = text.find("?>", i)
                if j < 0:
                    i = n
                else:
                    self.state = "content"
                    i = j + 2
            elif st == "tagname":
                if NAME_CHAR.match(ch):
                    self.tag += ch
                    i += 1
                else:
                    if not self.tag:
                        self.error = "empty tag name"
                        break
                    self.state = "intag"
            elif st == "intag":
                if ch.isspace():
                    i += 1
                elif ch == ">":
                    if self.closing:
                        if not self.stack or self.stack[-1] != self.tag:
                            self.error = "closing tag %s does not match %s" % (self.tag, self.stack[-1:] or "")
                            break
                        self.stack.pop()
                    else:
                        self.stack.append(self.tag)
                    self.state = "content"
                    self.valtext = ""
                    i += 1
                elif ch == "/" and text.startswith("/>", i):
                    self.state = "content"
                    self.valtext = ""
                    i += 2
                elif NAME_START.match(ch):
                    self.attr = ""
                    self.state = "attrname"
                else:
                    self.error = "unexpected %r in tag %s" % (ch, self.tag)
                    break
            elif st == "attrname":
                if NAME_CHAR.match(ch):
                    self.attr += ch
                    i += 1
                elif ch == "=":
                    self.state = "aftereq"
                    i += 1
                elif ch.isspace():
                    i += 1
                else:
                    self.error = "unexpected %r after attribute name %s" % (ch, self.attr)
                    break
            elif st == "aftereq":
                if ch == '"':
                    self.state = "dq"
                    self.valtext = ""
                    i += 1
                elif ch == "'":
                    self.state = "sq"
                    self.valtext = ""
                    i += 1
                elif ch.isspace():
                    i += 1
                else:
                    self.error = "attribute value of %s not quoted" % self.attr
                    break
            elif st == "dq":
                if ch == '"':
                    self.state = "intag"
                else:
                    self.valtext += ch
                i += 1
            elif st == "sq":
                if ch == "'":
                    self.state = "intag"
                else:
                    self.valtext += ch
                i += 1

    def where(self):
        if self.state == "dq":
            return ("AttrDq", self.tag, self.attr)
        if self.state == "sq":
            return ("AttrSq", self.tag, self.attr)
        if self.state == "content":
            return ("Text", self.stack[-1] if self.stack else "", "")
        return ("Other:" + self.state, self.tag, self.attr)


def lex_unit(segs):
    """-> (list of per-hole dicts in order, error or None, balanced?)"""
    lx = TemplateLexer()
    holes = []
    for idx, (k, v) in enumerate(segs):
        if k == "lit":
            lx.feed(v)
            if lx.error:
                return holes, lx.error, False
            continue
        if lx.state == "tagname" and lx.tag:
            lx.state = "intag"
        ctx, tag, attr = lx.where()
        info = {"ctx": ctx, "tag": tag, "attr": attr, "path": "/".join(lx.stack), "before": lx.valtext}
        if v.cls == "const" and v.alts is not None and ctx not in ("AttrDq", "Text"):
            # constant text inside a tag (namespace declarations, optional attributes): it has to
            # leave the lexer where it was, whichever alternative is taken
            snaps = set()
            for alt in v.alts:
                l2 = TemplateLexer()
                l2.state, l2.stack, l2.tag, l2.attr, l2.closing = lx.state, list(lx.stack), lx.tag, lx.attr, lx.closing
                l2.feed(alt)
                if l2.error:
                    return holes, "constant alternative %r: %s" % (alt, l2.error), False
                snaps.add(l2.snapshot())
            if len(snaps) != 1:
                return holes, "constant alternatives leave the tag in different states", False
            st = snaps.pop()
            lx.state, lx.stack, lx.tag, lx.attr, lx.closing = st[0], list(st[1]), st[2], st[3], st[4]
        elif v.cls == "const" and v.alts is not None and ctx == "Text" and any("<" in a for a in v.alts):
            for alt in v.alts:
                l2 = TemplateLexer()
                l2.state, l2.stack = "content", list(lx.stack)
                l2.feed(alt)
                if l2.error or l2.state != "content" or l2.stack != lx.stack:
                    return holes, "constant XML alternative %r is not balanced" % alt, False
            info["ctx"] = "Frag"
        holes.append((v, info))
        lx.valtext += "\x00"
    # what follows each hole inside the same value: computed by a second pass
    balanced = lx.state == "content" and not lx.stack
    return holes, None, balanced


def after_text(segs, hole_index):
    """Literal text following the hole up to the end of its attribute value / text run."""
    out = ""
    n = -1
    for k, v in segs:
        if k == "hole":
            n += 1
            if n > hole_index:
                return out, True      # another hole in the same value
            continue
        if n == hole_index:
            m = re.search(r'["<]', v)
            if m:
                return out + v[:m.start()], False
            out += v
    return out, False


# =============================================================================== entry points
class Env:
    """One presentation on which an entry point is exercised many times."""

    def __init__(self, tmp):
        from pptx import Presentation
        self.prs = Presentation()
        self.tmp = tmp
        self.n = 0

    def slide(self, layout=6):
        s = self.prs.slides.add_slide(self.prs.slide_layouts[layout])
        return s, len(self.prs.slides) - 1

    def path(self, name):
        self.n += 1
        d = os.path.join(self.tmp, "f%d" % self.n)
        os.makedirs(d, exist_ok=True)
        return os.path.join(d, name)

    def png(self, name):
        from PIL import Image
        self.n += 1
        p = self.path(name)
        k = self.n
        im = Image.new("RGB", (4, 3), (k % 251, (k // 251) % 251, (k * 7) % 251))
        with open(p, "wb") as f:
            im.save(f, "PNG")
        return p

    def png_stream(self):
        from PIL import Image
        self.n += 1
        k = self.n
        b = io.BytesIO()
        Image.new("RGB", (4, 3), (k % 251, (k // 251) % 251, (k * 11) % 251)).save(b, "PNG")
        b.seek(0)
        return b

    def blob(self, name, data=b"not really a movie"):
        p = self.path(name)
        with open(p, "wb") as f:
            f.write(data + str(self.n).encode())
        return p


def E():
    from pptx.util import Emu
    return Emu(914400)


def _find_shape(shapes, sid):
    for sh in shapes:
        if sh.shape_id == sid:
            return sh
        if sh.shape_type is not None and hasattr(sh, "shapes"):
            r = _find_shape(sh.shapes, sid)
            if r is not None:
                return r
    return None


class EP:
    """A public entry point accepting a caller string.
    make(env, s) -> live object (after the call under test); read(obj) -> str;
    dom: 'attr' (stored in an attribute), 'text' (stored as element text), 'file' (a file name).
    locate(obj) -> JSON-able locator; relocate(prs, loc) -> object of the re-opened file."""

    def __init__(self, key, dom, make, read, where="shape", roots=None, doc="", c04=False):
        self.key, self.dom, self.make, self.read, self.where, self.doc = key, dom, make, read, where, doc
        self._roots = roots
        self.c04 = c04      # text-frame setters: control characters have documented translations (property C04)

    def locate(self, env, obj):
        if self.where == "shape":
            part = obj.part
            slides = list(env.prs.slides)
            si = [i for i, s in enumerate(slides) if s.part is part]
            return {"slide": si[0], "id": obj.shape_id}
        if self.where == "slide":
            slides = list(env.prs.slides)
            return {"slide": [i for i, s in enumerate(slides) if s.part is obj.part][0]}
        return {}

    def relocate(self, prs, loc):
        if self.where == "shape":
            return _find_shape(prs.slides[loc["slide"]].shapes, loc["id"])
        if self.where == "slide":
            return prs.slides[loc["slide"]]
        if self.where == "prs":
            return prs
        raise KeyError(self.where)

    def roots(self, env, obj):
        if self._roots is not None:
            return self._roots(env, obj)
        if self.where in ("shape", "slide"):
            return [obj.part._element]
        return []


def _chart_data(kind, sname="Series 1", label="North", nf=None, cat_nf=None, ser_nf=None, sub=None):
    import datetime
    from pptx.chart.data import CategoryChartData, XyChartData, BubbleChartData
    if kind in ("cat", "multi", "num", "date"):
        cd = CategoryChartData(number_format=nf) if nf is not None else CategoryChartData()
        if kind == "cat":
            cd.categories = [label, "South"]
        elif kind == "multi":
            c1 = cd.add_category(label)
            c1.add_sub_category(sub if sub is not None else "sub a")
            c1.add_sub_category("sub b")
            c2 = cd.add_category("South")
            c2.add_sub_category("sub c")
        elif kind == "num":
            cd.categories = [1.5, 2.5]
        else:
            cd.categories = [datetime.date(2020, 1, 1), datetime.date(2020, 1, 2)]
        if cat_nf is not None:
            cd.categories.number_format = cat_nf
        n = 3 if kind == "multi" else 2
        if ser_nf is not None:
            cd.add_series(sname, tuple(range(1, n + 1)), number_format=ser_nf)
        else:
            cd.add_series(sname, tuple(range(1, n + 1)))
        return cd
    if kind == "xy":
        cd = XyChartData(number_format=nf) if nf is not None else XyChartData()
        s = cd.add_series(sname, number_format=ser_nf) if ser_nf is not None else cd.add_series(sname)
        s.add_data_point(1, 2)
        s.add_data_point(2, 3)
        return cd
    cd = BubbleChartData(number_format=nf) if nf is not None else BubbleChartData()
    s = cd.add_series(sname, number_format=ser_nf) if ser_nf is not None else cd.add_series(sname)
    s.add_data_point(1, 2, 3)
    s.add_data_point(2, 3, 4)
    return cd


def _chart_type(kind, alt=0):
    from pptx.enum.chart import XL_CHART_TYPE as X
    table = {
        "cat": [X.COLUMN_CLUSTERED, X.LINE, X.PIE, X.AREA, X.RADAR, X.DOUGHNUT, X.BAR_STACKED],
        "multi": [X.COLUMN_CLUSTERED, X.BAR_CLUSTERED],
        "num": [X.LINE_MARKERS, X.COLUMN_CLUSTERED, X.AREA],
        "date": [X.LINE, X.AREA, X.COLUMN_CLUSTERED, X.RADAR],
        "xy": [X.XY_SCATTER, X.XY_SCATTER_LINES],
        "bubble": [X.BUBBLE, X.BUBBLE_THREE_D_EFFECT],
    }[kind]
    return table[alt % len(table)]


def _add_chart(env, kind, alt=0, **kw):
    slide, _ = env.slide()
    gf = slide.shapes.add_chart(_chart_type(kind, alt), E(), E(), E(), E(), _chart_data(kind, **kw))
    return gf


def _chart_roots(env, gf):
    return [gf.part._element, gf.chart.part._element]


def _xp(el, path):
    r = el.xpath(path)
    return r


def _one(values):
    vals = list(values)
    if not vals:
        return None
    if len(set(vals)) == 1:
        return vals[0]
    return "<<%d different values: %r>>" % (len(set(vals)), sorted(set(vals))[:3])


def build_entry_points():
    from pptx.enum.shapes import MSO_SHAPE, MSO_CONNECTOR
    from pptx.util import Pt
    eps = []

    def add(key, dom, make, read, **kw):
        eps.append(EP(key, dom, make, read, **kw))

    # ---- names (lxml attribute assignment)
    def mk_named(adder):
        def make(env, s):
            slide, _ = env.slide()
            sh = adder(env, slide)
            sh.name = s
            return sh
        return make

    add("shape.name:autoshape", "attr", mk_named(lambda env, sl: sl.shapes.add_shape(MSO_SHAPE.RECTANGLE, E(), E(), E(), E())), lambda sh: sh.name)
    add("shape.name:textbox", "attr", mk_named(lambda env, sl: sl.shapes.add_textbox(E(), E(), E(), E())), lambda sh: sh.name)
    add("shape.name:picture", "attr", mk_named(lambda env, sl: sl.shapes.add_picture(env.png_stream(), E(), E())), lambda sh: sh.name)
    add("shape.name:table", "attr", mk_named(lambda env, sl: sl.shapes.add_table(2, 2, E(), E(), E(), E())), lambda sh: sh.name)
    add("shape.name:group", "attr", mk_named(lambda env, sl: sl.shapes.add_group_shape()), lambda sh: sh.name)
    add("shape.name:connector", "attr", mk_named(lambda env, sl: sl.shapes.add_connector(MSO_CONNECTOR.STRAIGHT, E(), E(), E(), E())), lambda sh: sh.name)

    def mk_slide_name(env, s):
        slide, _ = env.slide()
        slide.name = s
        return slide
    add("slide.name", "attr", mk_slide_name, lambda sl: sl.name, where="slide")

    # ---- picture file names (template sinks)
    def descr(sh):
        return _one(sh._element.xpath("./p:nvPicPr/p:cNvPr/@descr"))

    def mk_pic(env, s):
        slide, _ = env.slide()
        return slide.shapes.add_picture(env.png(s + ".png"), E(), E())
    add("shapes.add_picture:filename", "file", mk_pic, lambda sh: descr(sh)[:-4] if descr(sh) is not None else None)

    def mk_pic_grp(env, s):
        slide, _ = env.slide()
        grp = slide.shapes.add_group_shape()
        return grp.shapes.add_picture(env.png(s + ".png"), E(), E())
    add("group.shapes.add_picture:filename", "file", mk_pic_grp, lambda sh: descr(sh)[:-4] if descr(sh) is not None else None)

    def ph_of(slide, klass):
        for ph in slide.placeholders:
            if type(ph).__name__ == klass:
                return ph
        raise KeyError(klass)

    def mk_ph_pic_file(env, s):
        slide, _ = env.slide(8)
        return ph_of(slide, "PicturePlaceholder").insert_picture(env.png(s + ".png"))
    add("placeholder.insert_picture:filename", "file", mk_ph_pic_file, lambda sh: descr(sh)[:-4] if descr(sh) is not None else None)

    def mk_ph_pic_name(env, s):
        slide, _ = env.slide(8)
        ph = ph_of(slide, "PicturePlaceholder")
        ph.name = s
        return ph.insert_picture(env.png_stream())
    add("placeholder.insert_picture:placeholder-name", "attr", mk_ph_pic_name, lambda sh: sh.name)

    def content_ph(slide):
        for ph in slide.placeholders:
            if ph.placeholder_format.idx == 1:
                return ph
        raise KeyError("content placeholder")

    def mk_ph_chart_name(env, s):
        slide, _ = env.slide(1)
        ph = content_ph(slide)
        ph.name = s
        ph._element.nvSpPr.nvPr.ph.set("type", "chart")
        ph = [p for p in slide.placeholders if p.placeholder_format.idx == 1][0]
        return ph.insert_chart(_chart_type("cat"), _chart_data("cat"))
    add("placeholder.insert_chart:placeholder-name", "attr", mk_ph_chart_name, lambda sh: sh.name)

    def mk_ph_table_name(env, s):
        slide, _ = env.slide(1)
        ph = content_ph(slide)
        ph.name = s
        ph._element.nvSpPr.nvPr.ph.set("type", "tbl")
        ph = [p for p in slide.placeholders if p.placeholder_format.idx == 1][0]
        return ph.insert_table(2, 2)
    add("placeholder.insert_table:placeholder-name", "attr", mk_ph_table_name, lambda sh: sh.name)

    # ---- movie
    def mk_movie(env, s):
        slide, _ = env.slide()
        return slide.shapes.add_movie(env.blob(s + ".mp4"), E(), E(), E(), E(), poster_frame_image=env.png_stream(), mime_type="video/mp4")
    add("shapes.add_movie:filename", "file", mk_movie, lambda sh: sh.name[:-4] if sh.name is not None else None)

    def mk_movie_mime(env, s):
        slide, _ = env.slide()
        return slide.shapes.add_movie(io.BytesIO(b"movie bytes %d" % env.n), E(), E(), E(), E(), poster_frame_image=env.png_stream(), mime_type=s)

    def movie_ct(sh):
        rid = _one(sh._element.xpath("./p:nvPicPr/p:nvPr/a:videoFile/@r:link"))
        return sh.part.related_part(rid).content_type
    add("shapes.add_movie:mime_type", "attr", mk_movie_mime, movie_ct)

    # ---- OLE object
    def mk_ole(env, s):
        slide, _ = env.slide()
        return slide.shapes.add_ole_object(io.BytesIO(b"ole bytes"), s, E(), E())
    add("shapes.add_ole_object:prog_id", "attr", mk_ole, lambda sh: sh.ole_format.prog_id)

    # ---- hyperlinks (relationship target, lxml attribute assignment in the .rels part)
    def mk_run_link(env, s):
        slide, _ = env.slide()
        tb = slide.shapes.add_textbox(E(), E(), E(), E())
        r = tb.text_frame.paragraphs[0].add_run()
        r.text = "link"
        r.hyperlink.address = s
        return tb
    add("run.hyperlink.address", "attr", mk_run_link, lambda sh: sh.text_frame.paragraphs[0].runs[0].hyperlink.address)

    def mk_click_link(env, s):
        slide, _ = env.slide()
        sh = slide.shapes.add_shape(MSO_SHAPE.RECTANGLE, E(), E(), E(), E())
        sh.click_action.hyperlink.address = s
        return sh
    add("shape.click_action.hyperlink.address", "attr", mk_click_link, lambda sh: sh.click_action.hyperlink.address)

    # ---- fonts
    def mk_font(env, s):
        slide, _ = env.slide()
        tb = slide.shapes.add_textbox(E(), E(), E(), E())
        r = tb.text_frame.paragraphs[0].add_run()
        r.text = "x"
        r.font.name = s
        return tb
    add("font.name", "attr", mk_font, lambda sh: sh.text_frame.paragraphs[0].runs[0].font.name)

    # ---- text (C04 covers the translations; here only markup safety, strings without controls)
    def mk_tf_text(env, s):
        slide, _ = env.slide()
        tb = slide.shapes.add_textbox(E(), E(), E(), E())
        tb.text_frame.text = s
        return tb
    add("text_frame.text", "text", mk_tf_text, lambda sh: sh.text_frame.text, c04=True)

    def mk_run_text(env, s):
        slide, _ = env.slide()
        tb = slide.shapes.add_textbox(E(), E(), E(), E())
        tb.text_frame.paragraphs[0].add_run().text = s
        return tb
    add("run.text", "text", mk_run_text, lambda sh: sh.text_frame.paragraphs[0].runs[0].text, c04=True)

    def mk_para_text(env, s):
        slide, _ = env.slide()
        sh = slide.shapes.add_shape(MSO_SHAPE.OVAL, E(), E(), E(), E())
        sh.text_frame.paragraphs[0].text = s
        return sh
    add("paragraph.text", "text", mk_para_text, lambda sh: sh.text_frame.paragraphs[0].text, c04=True)

    def mk_title_text(env, s):
        slide, _ = env.slide(0)
        slide.shapes.title.text = s
        return slide.shapes.title
    add("placeholder.text", "text", mk_title_text, lambda sh: sh.text, c04=True)

    def mk_cell_text(env, s):
        slide, _ = env.slide()
        gf = slide.shapes.add_table(2, 2, E(), E(), E(), E())
        gf.table.cell(1, 1).text = s
        return gf
    add("table.cell.text", "text", mk_cell_text, lambda gf: gf.table.cell(1, 1).text, c04=True)

    def mk_notes(env, s):
        slide, _ = env.slide()
        slide.notes_slide.notes_text_frame.text = s
        return slide
    add("notes_text_frame.text", "text", mk_notes, lambda sl: sl.notes_slide.notes_text_frame.text, where="slide",
        roots=lambda env, sl: [sl.notes_slide.part._element], c04=True)

    # ---- charts: strings that go through the XML writer templates
    def ser_name(gf):
        return gf.chart.plots[0].series[0].name

    for kind in ("cat", "multi", "num", "date", "xy", "bubble"):
        for alt in range({"cat": 7, "date": 4, "multi": 2, "num": 3, "xy": 2, "bubble": 2}[kind]):
            add("add_chart[%s/%d]:series-name" % (kind, alt), "text",
                (lambda kind, alt: lambda env, s: _add_chart(env, kind, alt, sname=s))(kind, alt), ser_name, roots=_chart_roots)

    def cat_label(gf):
        return gf.chart.plots[0].categories[0].label
    add("add_chart[cat/0]:category-label", "text", lambda env, s: _add_chart(env, "cat", 0, label=s), cat_label, roots=_chart_roots)
    add("add_chart[cat/2]:category-label", "text", lambda env, s: _add_chart(env, "cat", 2, label=s), cat_label, roots=_chart_roots)

    def multi_top(gf):
        cats = gf.chart.plots[0].categories
        return cats.levels[1][0].label if len(cats.levels) > 1 else None

    def multi_sub(gf):
        cats = gf.chart.plots[0].categories
        return cats.levels[0][0].label
    add("add_chart[multi/0]:category-label", "text", lambda env, s: _add_chart(env, "multi", 0, label=s), multi_top, roots=_chart_roots)
    add("add_chart[multi/0]:sub-category-label", "text", lambda env, s: _add_chart(env, "multi", 0, sub=s), multi_sub, roots=_chart_roots)

    def val_fc(gf):
        return _one(gf.chart._chartSpace.xpath(".//c:ser[1]/c:val//c:formatCode/text() | .//c:ser[1]/c:yVal//c:formatCode/text()"))
    add("add_chart[cat/0]:chart_data.number_format", "text", lambda env, s: _add_chart(env, "cat", 0, nf=s), val_fc, roots=_chart_roots)
    add("add_chart[cat/0]:series.number_format", "text", lambda env, s: _add_chart(env, "cat", 0, ser_nf=s), val_fc, roots=_chart_roots)
    add("add_chart[xy/0]:chart_data.number_format", "text", lambda env, s: _add_chart(env, "xy", 0, nf=s), val_fc, roots=_chart_roots)
    add("add_chart[bubble/0]:series.number_format", "text", lambda env, s: _add_chart(env, "bubble", 0, ser_nf=s), val_fc, roots=_chart_roots)

    def cat_fc(gf):
        return _one(gf.chart._chartSpace.xpath(".//c:ser[1]/c:cat//c:formatCode/text()"))
    add("add_chart[num/0]:categories.number_format", "text", lambda env, s: _add_chart(env, "num", 0, cat_nf=s), cat_fc, roots=_chart_roots)

    def date_fc(gf):
        return _one(gf.chart._chartSpace.xpath(".//c:ser[1]/c:cat//c:formatCode/text() | .//c:dateAx/c:numFmt/@formatCode"))
    for alt in range(4):
        add("add_chart[date/%d]:categories.number_format" % alt, "attr",
            (lambda alt: lambda env, s: _add_chart(env, "date", alt, cat_nf=s))(alt), date_fc, roots=_chart_roots)

    # ---- chart.replace_data (the series rewriter: tx / cat / val parsed piecewise)
    def mk_replace(field):
        def make(env, s):
            gf = _add_chart(env, "cat", 0)
            kw = {field: s}
            gf.chart.replace_data(_chart_data("cat", **kw))
            return gf
        return make
    add("chart.replace_data:series-name", "text", mk_replace("sname"), ser_name, roots=_chart_roots)
    add("chart.replace_data:category-label", "text", mk_replace("label"), cat_label, roots=_chart_roots)
    add("chart.replace_data:chart_data.number_format", "text", mk_replace("nf"), val_fc, roots=_chart_roots)

    def mk_replace_xy(env, s):
        gf = _add_chart(env, "xy", 0)
        gf.chart.replace_data(_chart_data("xy", sname=s))
        return gf
    add("chart.replace_data[xy]:series-name", "text", mk_replace_xy, ser_name, roots=_chart_roots)

    def mk_replace_xy_nf(env, s):
        gf = _add_chart(env, "bubble", 0)
        gf.chart.replace_data(_chart_data("bubble", nf=s))
        return gf
    add("chart.replace_data[bubble]:chart_data.number_format", "text", mk_replace_xy_nf, val_fc, roots=_chart_roots)

    def mk_replace_num(env, s):
        gf = _add_chart(env, "num", 0)
        gf.chart.replace_data(_chart_data("num", cat_nf=s))
        return gf
    add("chart.replace_data[num]:categories.number_format", "text", mk_replace_num, cat_fc, roots=_chart_roots)

    def mk_replace_multi(env, s):
        gf = _add_chart(env, "multi", 0)
        gf.chart.replace_data(_chart_data("multi", label=s))
        return gf
    add("chart.replace_data[multi]:category-label", "text", mk_replace_multi, multi_top, roots=_chart_roots)

    # ---- chart texts and formats through lxml assignment
    def mk_chart_title(env, s):
        gf = _add_chart(env, "cat", 0)
        gf.chart.chart_title.text_frame.text = s
        return gf
    add("chart_title.text_frame.text", "text", mk_chart_title, lambda gf: gf.chart.chart_title.text_frame.text, roots=_chart_roots, c04=True)

    def mk_axis_title(env, s):
        gf = _add_chart(env, "cat", 0)
        gf.chart.value_axis.axis_title.text_frame.text = s
        return gf
    add("axis_title.text_frame.text", "text", mk_axis_title, lambda gf: gf.chart.value_axis.axis_title.text_frame.text, roots=_chart_roots, c04=True)

    def mk_dlbl(env, s):
        gf = _add_chart(env, "cat", 0)
        gf.chart.plots[0].series[0].points[0].data_label.text_frame.text = s
        return gf
    add("data_label.text_frame.text", "text", mk_dlbl, lambda gf: gf.chart.plots[0].series[0].points[0].data_label.text_frame.text, roots=_chart_roots, c04=True)

    def mk_dlbls_nf(env, s):
        gf = _add_chart(env, "cat", 0)
        gf.chart.plots[0].has_data_labels = True
        gf.chart.plots[0].data_labels.number_format = s
        return gf
    add("data_labels.number_format", "attr", mk_dlbls_nf, lambda gf: gf.chart.plots[0].data_labels.number_format, roots=_chart_roots)

    def mk_tick_nf(env, s):
        gf = _add_chart(env, "cat", 0)
        gf.chart.value_axis.tick_labels.number_format = s
        return gf
    add("tick_labels.number_format", "attr", mk_tick_nf, lambda gf: gf.chart.value_axis.tick_labels.number_format, roots=_chart_roots)

    def mk_chart_font(env, s):
        gf = _add_chart(env, "cat", 0)
        gf.chart.font.name = s
        return gf
    add("chart.font.name", "attr", mk_chart_font, lambda gf: gf.chart.font.name, roots=_chart_roots)

    # ---- core properties (one document part: applied together, see `where`)
    for prop in ("author", "category", "comments", "content_status", "identifier", "keywords", "language",
                 "last_modified_by", "subject", "title", "version"):
        def mk_cp(env, s, prop=prop):
            setattr(env.prs.core_properties, prop, s)
            return env.prs
        add("core_properties." + prop, "text", mk_cp, (lambda prop: lambda prs: getattr(prs.core_properties, prop))(prop), where="prs",
            roots=lambda env, prs: [prs.core_properties._element])
    return eps


# =============================================================================== dynamic part
MARK_RE = re.compile(r"Zq[0-9]+qZ")
SIG_PREFIXES = ("sink:", "attr-ws-normalised:", "text-cr-normalised:")
HOT = "&<>\"\t\n\rx"
HOT_FORMS = {HOT: None}
for _bits in range(16):
    _k = "sax" + "".join(f for i, f in enumerate("qtlr") if _bits & (8 >> i))
    HOT_FORMS[py_escape(_k, HOT)] = _k


def marker(i):
    return "Zq%dqZ" % i


def unit_regex(segs):
    parts, groups = [], []
    for k, v in segs:
        if k == "lit":
            parts.append(re.escape(v))
        else:
            parts.append("(.*?)")
            groups.append(v)
    return re.compile("".join(parts), re.S), groups


def instrument(units, log):
    """Wrap every function that holds a unit, and parse_xml everywhere; returns an undo list."""
    import importlib
    import pptx.oxml as oxml_mod
    undo = []
    tops = {}
    for u in units:
        tops.setdefault((u["modname"], u["cls"], u["top"]), []).append(u)
    for (modname, clsname, fname), us in tops.items():
        m = importlib.import_module(modname)
        owner = getattr(m, clsname) if clsname else m
        raw = owner.__dict__.get(fname) if clsname else getattr(m, fname)
        key = "%s:%s%s" % (us[0]["mod"], (clsname + ".") if clsname else "", fname)

        def wrap(fn, key=key):
            def w(*a, **k):
                log.setdefault(key, {"calls": 0, "strings": []})
                log[key]["calls"] += 1
                r = fn(*a, **k)
                if isinstance(r, str):
                    log[key]["strings"].append(r)
                return r
            w.__wrapped__ = fn
            w.__name__ = getattr(fn, "__name__", "w")
            w.__doc__ = getattr(fn, "__doc__", None)
            return w

        if isinstance(raw, property):
            new = property(wrap(raw.fget), raw.fset, raw.fdel, raw.__doc__)
        elif isinstance(raw, classmethod):
            new = classmethod(wrap(raw.__func__))
        elif isinstance(raw, staticmethod):
            new = staticmethod(wrap(raw.__func__))
        elif callable(raw):
            new = wrap(raw)
        else:
            continue
        undo.append((owner, fname, raw))
        setattr(owner, fname, new)
    # parse_xml in every module that imported it
    orig = oxml_mod.parse_xml

    def parse_wrapper(xml):
        f = sys._getframe(1)
        code = f.f_code
        where = "%s:%s" % (os.path.relpath(code.co_filename, PKG), code.co_qualname)
        if isinstance(xml, bytes):
            try:
                text = xml.decode("utf-8")
            except UnicodeDecodeError:
                text = ""
        else:
            text = xml
        log.setdefault("parse:" + where, {"calls": 0, "strings": []})
        log["parse:" + where]["calls"] += 1
        if len(text) < 200000:
            log["parse:" + where]["strings"].append(text)
        return orig(xml)

    for name, m in list(sys.modules.items()):
        if name.startswith("pptx") and m is not None and getattr(m, "parse_xml", None) is orig:
            undo.append((m, "parse_xml", orig))
            setattr(m, "parse_xml", parse_wrapper)
    return undo


def uninstrument(undo):
    for owner, name, raw in reversed(undo):
        setattr(owner, name, raw)


def template_marker_check(units, unmodelled):
    """Instantiate each template with markers, parse with lxml, compare landing with the static context."""
    from lxml import etree
    from pptx.oxml.ns import _nsmap
    rev = {v: k for k, v in _nsmap.items()}

    def pfx_el(el):
        q = etree.QName(el)
        return (el.prefix + ":" + q.localname) if el.prefix else q.localname

    def pfx_attr(el, an):
        if an.startswith("{"):
            uri, local = an[1:].split("}")
            for p, u2 in el.nsmap.items():
                if u2 == uri and p:
                    return p + ":" + local
            return "?:" + local
        return an

    decl = " ".join('xmlns:%s="%s"' % (p, u) for p, u in _nsmap.items())
    n_checked = 0
    for u in units:
        text, marks = "", {}
        for i, (h, info) in enumerate(u["holes"]):
            pass
        hi = 0
        for k, v in u["segs"]:
            if k == "lit":
                text += v
                continue
            h, info = u["holes"][hi]
            if h.cls == "frag" or info["ctx"] == "Frag":
                text += ""
            elif h.cls == "const":
                text += max(h.alts, key=len) if h.alts else ""
                if info["ctx"] in ("AttrDq", "Text") and h.alts and max(h.alts, key=len):
                    pass
            elif h.cls == "int":
                text += "7"
            else:
                mk = "Mk%dkM" % hi
                marks[mk] = hi
                text += mk
            hi += 1
        body = text
        if not body.lstrip().startswith("<?xml"):
            body = "<wrap %s>%s</wrap>" % (decl, text)
        try:
            root = etree.fromstring(body.encode("utf-8"))
        except etree.XMLSyntaxError as e:
            unmodelled.append("%s:%s line %d: template instantiated with markers does not parse: %s" % (u["mod"], u["func"], u["line"], e))
            continue
        landed = {}
        for el in root.iter():
            if not isinstance(el.tag, str):
                continue
            par = el.getparent()
            for an, av in el.attrib.items():
                for mk in MARKS(av):
                    landed.setdefault(mk, []).append(("AttrDq", pfx_el(el), pfx_attr(el, an)))
            for p, uri in el.nsmap.items():
                if par is None or par.nsmap.get(p) != uri:
                    for mk in MARKS(uri):
                        landed.setdefault(mk, []).append(("AttrDq", pfx_el(el), "xmlns" + ((":" + p) if p else "")))
            for mk in MARKS(el.text or ""):
                landed.setdefault(mk, []).append(("Text", pfx_el(el), ""))
            for mk in MARKS(el.tail or ""):
                landed.setdefault(mk, []).append(("Text", pfx_el(par) if par is not None else "", ""))
        tree = root.getroottree()
        for mk, hidx in marks.items():
            h, info = u["holes"][hidx]
            want = (info["ctx"], info["tag"], info["attr"])
            got = landed.get(mk, [])
            n_checked += 1
            if got != [want]:
                unmodelled.append("%s:%s line %d: hole %r: static context %r but the marker lands at %r" % (
                    u["mod"], u["func"], u["line"], h.src, want, got))
                continue
            # probe for the per-sink correspondence: the template with this slot left open
            for el in root.iter():
                if not isinstance(el.tag, str):
                    continue
                hit = None
                for an, av in el.attrib.items():
                    if av == mk:
                        hit = an
                if hit is None and (el.text or "") == mk:
                    hit = ""
                if hit is None and any(uri == mk for uri in el.nsmap.values()):
                    hit = "xmlns"
                if hit is not None:
                    info["probe"] = {"xml": body.replace(mk, "\x00"), "path": tree.getelementpath(el), "attr": hit}
                    break
    return n_checked


def MARKS(s):
    return re.findall(r"Mk[0-9]+kM", s)


def run_entry_points(eps, log, unmodelled):
    """Call every entry point with its own marker string; -> {ep key: marker}."""
    tmp = tempfile.mkdtemp(prefix="c05tx")
    markers, failed = {}, {}
    try:
        for i, ep in enumerate(eps):
            mk = marker(i)
            markers[ep.key] = mk
            env = Env(tmp)
            try:
                obj = ep.make(env, mk)
                got = ep.read(obj)
                if got != mk:
                    failed[ep.key] = "reader returned %r for the marker %r" % (got, mk)
                env.prs.save(io.BytesIO())
            except Exception as e:  # noqa
                failed[ep.key] = "%s: %s" % (type(e).__name__, str(e)[:200])
        coverage_actions(Env(tmp))
        # second pass: the same markers followed by metacharacters, to SEE which escaping every
        # reached hole really applies (the calls may fail; the strings are logged before parsing)
        cold = {k: {"calls": v["calls"], "strings": list(v["strings"])} for k, v in log.items()}
        log.clear()
        for i, ep in enumerate(eps):
            try:
                ep.make(Env(tmp), marker(i) + HOT)
            except Exception:  # noqa
                pass
        hot = {k: {"calls": v["calls"], "strings": list(v["strings"])} for k, v in log.items()}
        log.clear()
        log.update(cold)
    finally:
        shutil.rmtree(tmp, ignore_errors=True)
    for k, v in failed.items():
        unmodelled.append("entry point %s does not work with a plain marker string: %s" % (k, v))
    return markers, hot


def unit_strings(u, key, log):
    strings = list(log.get(key, {}).get("strings", []))
    for lk, lv in log.items():
        if lk.startswith("parse:%s:" % u["mod"]) and lk.split(":")[-1].split(".")[-1] in (u["top"],) and (
                u["cls"] is None or ("." + u["cls"] + ".") in ("." + lk.split(":")[-1] + ".") or lk.split(":")[-1].startswith(u["cls"] + ".")):
            strings += lv["strings"]
    return strings


def coverage_actions(env):
    """Calls without a caller string that are needed to exercise the remaining templates."""
    slide, _ = env.slide()
    fb = slide.shapes.build_freeform(0, 0)
    fb.add_line_segments([(100, 100), (200, 0)])
    fb.convert_to_shape()
    env.prs.save(io.BytesIO())


def main():
    sc = Scanner()
    sc.scan()
    unmodelled = list(sc.unmodelled)
    units = []
    for u in sc.units:
        holes, err, balanced = lex_unit(u["segs"])
        if err:
            unmodelled.append("%s:%s line %d: template text not understood by the lexer: %s" % (u["mod"], u["func"], u["line"], err))
            continue
        if not balanced:
            unmodelled.append("%s:%s line %d: template is not a balanced XML fragment" % (u["mod"], u["func"], u["line"]))
            continue
        u["holes"] = holes
        units.append(u)
    units.sort(key=lambda u: (u["mod"], u["line"], u["func"]))
    # ---- dynamic 1: marker instantiation of every template
    n_marker_checked = template_marker_check(units, unmodelled)
    # ---- dynamic 2: entry points
    log = {}
    eps = build_entry_points()
    undo = instrument(units, log)
    try:
        markers, hotlog = run_entry_points(eps, log, unmodelled)
    finally:
        uninstrument(undo)
    by_marker = {v: k for k, v in markers.items()}
    # ---- match run-time strings against the templates
    for u in units:
        rx, groups = unit_regex(u["segs"])
        key = "%s:%s%s" % (u["mod"], (u["cls"] + ".") if u["cls"] else "", u["top"])
        strings = unit_strings(u, key, log)
        u["calls"] = log.get(key, {}).get("calls", 0)
        obs = [set() for _ in groups]
        taint = [set() for _ in groups]
        nmatch = 0
        for s in strings:
            for m in rx.finditer(s):
                nmatch += 1
                for gi in range(len(groups)):
                    val = m.group(gi + 1)
                    if len(obs[gi]) < 6:
                        obs[gi].add(val[:60])
                    for mk in MARK_RE.findall(val):
                        if mk in by_marker:
                            taint[gi].add(by_marker[mk])
        u["matches"] = nmatch
        u["obs"], u["taint"] = obs, taint
        # escaping observed on the hot pass
        seen_esc = [set() for _ in groups]
        for s in unit_strings(u, key, hotlog):
            for m in rx.finditer(s):
                for gi in range(len(groups)):
                    val = m.group(gi + 1)
                    mm = MARK_RE.search(val)
                    if mm and mm.group(0) in by_marker:
                        tail = val[mm.end():]
                        form = [f for f in HOT_FORMS if tail.startswith(f)]
                        seen_esc[gi].add(HOT_FORMS[form[0]] if form else "?" + repr(tail[:30]))
        u["seen_esc"] = seen_esc
    # ---- sinks
    kf_path = os.path.join(VERIF, "known_findings.json")
    known_sigs = set()
    if os.path.exists(kf_path):
        for e in json.load(open(kf_path)):
            sg = str(e.get("signature", ""))
            if e.get("property") == "C05" and e.get("status") == "known":
                for pfx in SIG_PREFIXES:
                    if sg.startswith(pfx):
                        known_sigs.add(sg[len(pfx):])
    sinks, comps, const_holes = [], [], []
    prov = Provenance(sc)
    for u in units:
        for hi, (h, info) in enumerate(u["holes"]):
            where = "%s:%s line %d" % (u["mod"], u["func"], u["line"])
            slot = "%s%s" % (info["tag"], ("@" + info["attr"]) if info["attr"] else "")
            ctx = info["ctx"]
            if h.rescanned:
                unmodelled.append("%s: the string holding %r is formatted again (its value would be re-read as a template)" % (where, h.src))
                continue
            if h.cls == "frag" or ctx == "Frag":
                if ctx not in ("Text", "Frag"):
                    unmodelled.append("%s: XML fragment %r substituted outside element content (%s)" % (where, h.src, ctx))
                comps.append({"where": where, "fragment": h.frag or h.src, "parent": info["tag"]})
                continue
            if ctx not in ("AttrDq", "Text"):
                if h.cls == "const":
                    const_holes.append({"where": where, "src": h.src, "alts": h.alts, "ctx": ctx})
                else:
                    unmodelled.append("%s: %r substituted in an unmodelled position (%s of <%s>)" % (where, h.src, ctx, info["tag"]))
                continue
            tainted = sorted(u["taint"][hi])
            after, more = after_text(u["segs"], hi)
            partial = bool(info["before"].replace("\x00", "")) or bool(after) or more or ("\x00" in info["before"])
            if ctx == "Text":
                partial = bool(info["before"].replace("\x00", "").strip()) or bool(after.strip()) or more or ("\x00" in info["before"])
            if h.cls in ("int", "const", "enum"):
                esc, origin = "NotText", h.cls + ": " + h.why
            elif tainted:
                esc = coq_esc(h.esc)
                origin = "caller text"
                seen = u["seen_esc"][hi]
                if seen != {h.esc}:
                    unmodelled.append("%s: escaping of %r: the source says %r, at run time the value arrives as %s" % (
                        where, h.src, h.esc or "none", sorted(str(x) for x in seen) or "nothing (the slot was not reached with metacharacters)"))
                    continue
                if partial:
                    unmodelled.append("%s: caller text %r is only a part of the value of %s" % (where, h.src, slot))
                    continue
            elif u["matches"] > 0:
                esc, origin = "NotText", "library-made value (no caller string reached it in the entry-point run)"
                lv, bad = prov.judge(u, h)
                if bad:
                    unmodelled.append("%s: no entry point reaches %r, but it can receive %s, which is not in the library-made table "
                                      "(a missing entry point, or extend LIBRARY_MADE)" % (where, h.src, bad))
                    continue
                origin += "; sources: " + (", ".join(lv) if lv else "literals and integers only")
            else:
                unmodelled.append("%s: hole %r was never exercised by the entry-point run (function calls: %d)" % (where, h.src, u["calls"]))
                continue
            name = "%s:%s:%s" % (u["func"], slot, h.src)
            sig = "sink:" + name
            m_ok = esc == "NotText" or table_ok(ctx, h.esc, exact=False)
            x_ok = esc == "NotText" or table_ok(ctx, h.esc, exact=True)
            sinks.append({"id": len(sinks), "sig": sig, "where": where, "mod": u["mod"], "func": u["func"], "line": h.line or u["line"],
                          "slot": slot, "path": info["path"], "ctx": ctx, "esc": esc, "applied": h.esc or "none", "src": h.src,
                          "class": h.cls, "origin": origin, "entry_points": tainted, "observed": sorted(u["obs"][hi])[:6],
                          "known": name in known_sigs, "partial": partial, "probe": info.get("probe"), "name": name,
                          "markup_ok": m_ok, "exact_ok": x_ok})
    # entry points: which sinks each one reaches
    ep_meta = {}
    for ep in eps:
        reach = [s["id"] for s in sinks if ep.key in s["entry_points"]]
        ep_meta[ep.key] = {"dom": ep.dom, "where": ep.where, "sinks": reach, "kind": "template" if reach else "lxml-api"}
    # ---- emit
    lines = ["(* GENERATED by tx/tx_c05.py from /repo -- do not edit *)",
             "From V.lib Require Import Prelude.",
             "From V.model Require Import Escape.",
             "Open Scope N_scope.",
             "Definition sinks : list sink := ["]
    rows = []
    for s in sinks:
        rows.append("  {| sk_id := %d; sk_ctx := %s; sk_esc := %s |}" % (s["id"], s["ctx"], s["esc"]))
    lines.append(";\n".join(rows))
    lines.append("].")
    lines.append("Definition known_failing : list N := [%s]." % "; ".join(str(s["id"]) for s in sinks if s["known"]))
    lines.append("Definition caller_text_sinks : list N := [%s]." % "; ".join(str(s["id"]) for s in sinks if s["origin"] == "caller text"))
    lines.append("Close Scope N_scope.")
    lines.append("Definition n_unmodelled : nat := %d%%nat." % len(unmodelled))
    write_if_changed(os.path.join(VERIF, "coq", "gen", "GenC05.v"), "\n".join(lines) + "\n")
    meta = {"sinks": sinks, "unmodelled": unmodelled, "compositions": comps, "constant_holes_in_tags": const_holes,
            "whole_document_parses": sc.whole_parses, "entry_points": ep_meta, "n_units": len(units),
            "n_parse_xml_calls": sc.n_parse_calls, "n_marker_checked": n_marker_checked,
            "units": [{"where": "%s:%s line %d" % (u["mod"], u["func"], u["line"]), "kind": u["kind"], "holes": len(u["holes"]),
                       "calls": u["calls"], "matches": u["matches"]} for u in units]}
    with open(os.path.join(VERIF, "coq", "gen", "c05_meta.json"), "w") as f:
        json.dump(meta, f, indent=1, sort_keys=True)
    print("tx_c05: %d templates, %d sinks (%d receive caller text, %d rejected by the table, %d known), %d compositions, "
          "%d entry points (%d reach a template), %d unmodelled" % (
              len(units), len(sinks), sum(1 for s in sinks if s["origin"] == "caller text"),
              sum(1 for s in sinks if not s["exact_ok"]),
              sum(1 for s in sinks if s["known"]), len(comps), len(eps),
              sum(1 for v in ep_meta.values() if v["sinks"]), len(unmodelled)))


if __name__ == "__main__":
    main()
