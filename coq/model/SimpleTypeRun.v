(** Runner for the C11 correspondence: evaluates the generated (translated) to_xml /
    from_xml of a simple-type class on a python value. *)
From V.lib Require Import Prelude PyFloat PyVal Wire PyValWire.
From V.model Require Import SimpleTypeLib.
From V.gen Require Import GenC11.

Definition show_state (c : option str) : str :=
  match c with None => [45%N] | Some s => [61%N] ++ show_str s end.     (* "-" absent, "=<text>" *)

(** a: attribute history.  cls kind(r|o) default initial v1 v2 ... -> one field per step:
    outcome (ok / err:X) and the attribute state after the step *)
Fixpoint attr_history (required : bool) (to_xml : pyval -> res pyval) (dflt : pyval)
                      (cur : option str) (vals : list str) : list str :=
  match vals with
  | [] => []
  | w :: rest =>
      match parse_pyval w with
      | None => [w_badcase]
      | Some v =>
          let '(c, r) := attr_step required to_xml dflt cur v in
          (show_res (fun _ => []) r ++ [32%N] ++ show_state c) :: attr_history required to_xml dflt c rest
      end
  end.

Definition run_c11 (args : list str) : str :=
  match args with
  | [op; cls; val] =>
      if str_eqb op [119%N] then            (* w *)
        match parse_pyval val with
        | Some v => show_res show_pyval (dispatch_to_xml cls v)
        | None => w_badcase
        end
      else if str_eqb op [114%N] then       (* r: val is the attribute text *)
        show_res show_pyval (dispatch_from_xml cls (PStr val))
      else w_badcase
  | op :: cls :: kind :: dflt :: init :: vals =>
      if str_eqb op [97%N] then             (* a *)
        match parse_pyval dflt with
        | Some d =>
            fields (attr_history (str_eqb kind [114%N]) (dispatch_to_xml cls) d
                      (match init with [45%N] => None | _ => Some (tl init) end) vals)
        | None => w_badcase
        end
      else w_badcase
  | _ => w_badcase
  end.
