(** Model of text assignment / read-back in python-pptx (property C04).

    Mirrors  pptx/oxml/text.py  (CT_RegularTextRun.text + _escape_ctrl_chars,
    CT_TextParagraph.append_text / content_children / text, CT_TextLineBreak.text,
    CT_TextField.text, CT_TextBody.clear_content / add_p),  pptx/text/text.py
    (TextFrame.text, _Paragraph.text / clear / add_run / add_line_break, _Run.text),
    pptx/table.py (_Cell.text) and pptx/shapes/autoshape.py (Shape.text).

    Definitions only.  A paragraph is the flat list of its children (the code works
    on the child list: removal of content children, insertion before the first
    a:endParaRPr child), so misplaced children of a prior state are representable. *)
From V.lib Require Import Prelude.

(** ---- characters ---- *)
Definition c_tab : N := 9%N.
Definition c_lf  : N := 10%N.
Definition c_vt  : N := 11%N.
Definition c_us  : N := 95%N.     (* underscore *)
Definition c_x   : N := 120%N.    (* lower-case x *)

(** The regex class of _escape_ctrl_chars: x00-x08 and x0B-x1F. *)
Definition is_ctrl (c : N) : bool :=
  (c <=? 8)%N || ((11 <=? c)%N && (c <=? 31)%N).

(** One upper-case hexadecimal digit (percent-04X uses upper case). *)
Definition hex_digit (n : N) : N := if (n <? 10)%N then (48 + n)%N else (55 + n)%N.

(** [_xHHHH_] : underscore, lower-case x, four upper-case hex digits, underscore. *)
Definition esc_seq (c : N) : str :=
  [c_us; c_x;
   hex_digit ((c / 4096) mod 16); hex_digit ((c / 256) mod 16);
   hex_digit ((c / 16) mod 16); hex_digit (c mod 16);
   c_us].

Definition esc_char (c : N) : str := if is_ctrl c then esc_seq c else [c].

(** re.sub over the class above: every match replaced, everything else kept. *)
Definition escape_ctrl (s : str) : str := flat_map esc_char s.

(** ---- splitting ---- *)
(** Split at every character satisfying [f] (str.split with a one-character
    separator, re.split with an alternation of single characters): always at least
    one piece, separators dropped, empty pieces kept. *)
Fixpoint split_by (f : N -> bool) (s : str) : list str :=
  match s with
  | [] => [[]]
  | x :: s' =>
      if f x then [] :: split_by f s'
      else match split_by f s' with
           | [] => [[x]]      (* unreachable *)
           | p :: ps => (x :: p) :: ps
           end
  end.

Definition is_lf (c : N) : bool := N.eqb c c_lf.
Definition is_vt (c : N) : bool := N.eqb c c_vt.
Definition is_brk (c : N) : bool := is_lf c || is_vt c.   (* the pattern LF|VT *)

(** ---- the tree ---- *)
(** Property elements (a:rPr, a:pPr, a:endParaRPr, a:bodyPr) are opaque: a number
    standing for the element with all its attributes and children. *)
Inductive item :=
| R (rpr : option N) (t : str)    (* a:r with optional a:rPr and its a:t text *)
| Br                              (* a:br *)
| Fld (t : str).                  (* a:fld; text of its a:t, empty when absent *)

Inductive pchild :=
| PPr (x : N)
| It (i : item)
| EndRPr (x : N).

Definition para := list pchild.

Record body := mkBody { bodypr : N; paras : list para }.

(** ---- getters ---- *)
Definition item_text (i : item) : str :=
  match i with
  | R _ t => t            (* CT_RegularTextRun.text: a:t text or empty *)
  | Br => [c_vt]          (* CT_TextLineBreak.text: unconditionally VT *)
  | Fld t => t
  end.

(** content_children: the a:r, a:br, a:fld children in document order *)
Fixpoint content (p : para) : list item :=
  match p with
  | [] => []
  | It i :: r => i :: content r
  | _ :: r => content r
  end.

Definition get_para (p : para) : str := flat_map item_text (content p).
Definition get_frame (b : body) : str := join_with [c_lf] (map get_para (paras b)).
Definition get_run (i : item) : str := item_text i.

Fixpoint first_ppr (p : para) : option N :=
  match p with [] => None | PPr x :: _ => Some x | _ :: r => first_ppr r end.
Fixpoint first_endrpr (p : para) : option N :=
  match p with [] => None | EndRPr x :: _ => Some x | _ :: r => first_endrpr r end.

Definition is_br (i : item) : bool := match i with Br => true | _ => false end.
Definition is_run (i : item) : bool := match i with R _ _ => true | _ => false end.
Definition count_br (p : para) : nat := length (filter is_br (content p)).
Definition runs_of (p : para) : list item := filter is_run (content p).

(** ---- setters ---- *)
(** _Paragraph.clear: every content child removed, everything else stays in place *)
Fixpoint clear_para (p : para) : para :=
  match p with
  | [] => []
  | It _ :: r => clear_para r
  | c :: r => c :: clear_para r
  end.

(** insert_element_before(child, a:endParaRPr): before the first a:endParaRPr
    child, appended when there is none (used by _add_r and _add_br) *)
Fixpoint insert_item (i : item) (p : para) : para :=
  match p with
  | [] => [It i]
  | EndRPr x :: r => It i :: EndRPr x :: r
  | c :: r => c :: insert_item i r
  end.

(** append_text, one piece after the other: a break before every piece but the
    first, a run for every non-empty piece *)
Fixpoint append_pieces (first : bool) (pieces : list str) (p : para) : para :=
  match pieces with
  | [] => p
  | r :: rest =>
      let p1 := if first then p else insert_item Br p in
      let p2 := match r with [] => p1 | _ => insert_item (R None (escape_ctrl r)) p1 end in
      append_pieces false rest p2
  end.

Definition append_text (s : str) (p : para) : para :=
  append_pieces true (split_by is_brk s) p.

Definition set_para (s : str) (p : para) : para := append_text s (clear_para p).

(** _Run.text setter on an a:r: only the a:t text changes *)
Definition set_run (s : str) (i : item) : item :=
  match i with
  | R x _ => R x (escape_ctrl s)
  | other => other        (* the setter only exists on runs *)
  end.

(** TextFrame.text setter: clear_content removes every a:p (the first one with its
    a:pPr included), then one fresh a:p per LF-separated piece *)
Definition set_frame (s : str) (b : body) : body :=
  mkBody (bodypr b) (map (fun seg => append_text seg []) (split_by is_lf s)).

(** _Cell.text: the frame of the cell's a:txBody, created from the template
    (a:bodyPr without attributes, one empty a:p) when the cell has none *)
Definition default_body : body := mkBody 0%N [[]].
Definition cell := option body.
Definition cell_body (c : cell) : body := match c with Some b => b | None => default_body end.
Definition set_cell (s : str) (c : cell) : cell := Some (set_frame s (cell_body c)).
Definition get_cell (c : cell) : str := get_frame (cell_body c).

(** _Paragraph.add_run (empty a:t, no a:rPr), add_line_break *)
Definition add_run (p : para) : para := insert_item (R None []) p.
Definition add_line_break (p : para) : para := insert_item Br p.

(** replace the n-th run (n-th a:r child, as in paragraph.runs[n]) *)
Fixpoint update_run (n : nat) (f : item -> item) (p : para) : option para :=
  match p with
  | [] => None
  | It (R x t) :: r =>
      match n with
      | O => Some (It (f (R x t)) :: r)
      | S n' => match update_run n' f r with Some r' => Some (It (R x t) :: r') | None => None end
      end
  | c :: r => match update_run n f r with Some r' => Some (c :: r') | None => None end
  end.

Fixpoint replace_nth {A} (n : nat) (x : A) (l : list A) : list A :=
  match l, n with
  | [], _ => []
  | _ :: r, O => x :: r
  | y :: r, S n' => y :: replace_nth n' x r
  end.

(** ---- histories: the public operations on one text container ---- *)
(** The container is a cell (a text box is a cell that always has its body).  Every
    operation first reaches the text frame, which creates the template body in a
    cell that has none (get_or_add_txBody), also when the operation then fails. *)
Inductive op :=
| OFrame (s : str)                 (* text_frame.text = s *)
| OCell (s : str)                  (* cell.text = s / shape.text = s *)
| OPara (i : nat) (s : str)        (* paragraphs[i].text = s *)
| ORun (i j : nat) (s : str)       (* paragraphs[i].runs[j].text = s *)
| OAddRun (i : nat)
| OAddBr (i : nat)
| OClear (i : nat)
| OReadFrame
| OReadPara (i : nat).

Definition on_para (c : cell) (i : nat) (f : para -> para) (out : para -> str)
  : cell * res str :=
  let b := cell_body c in
  match nth_error (paras b) i with
  | None => (Some b, Err IndexErr)
  | Some p => (Some (mkBody (bodypr b) (replace_nth i (f p) (paras b))), Ok (out (f p)))
  end.

Definition apply_op (o : op) (c : cell) : cell * res str :=
  match o with
  | OFrame s | OCell s => let c' := set_cell s c in (c', Ok (get_cell c'))
  | OPara i s => on_para c i (set_para s) get_para
  | ORun i j s =>
      let b := cell_body c in
      match nth_error (paras b) i with
      | None => (Some b, Err IndexErr)
      | Some p =>
          match update_run j (set_run s) p with
          | None => (Some b, Err IndexErr)
          | Some p' =>
              (Some (mkBody (bodypr b) (replace_nth i p' (paras b))),
               Ok (match nth_error (runs_of p') j with Some r => get_run r | None => [] end))
          end
      end
  | OAddRun i => on_para c i add_run (fun _ => [])
  | OAddBr i => on_para c i add_line_break (fun _ => [])
  | OClear i => on_para c i clear_para (fun _ => [])
  | OReadFrame => (Some (cell_body c), Ok (get_cell c))
  | OReadPara i => on_para c i (fun p => p) get_para
  end.

(** state after a history *)
Definition run_ops (ops : list op) (c : cell) : cell :=
  fold_left (fun st o => fst (apply_op o st)) ops c.

(** ---- the documented translations, character by character ---- *)
(** run level: TAB and LF stay characters (they are outside the escaped class), VT and
    every other C0 control is escaped *)
Definition tr_run (s : str) : str := flat_map esc_char s.

(** paragraph level: LF and VT both become a line break, read back as VT *)
Definition tr_para_char (c : N) : str :=
  if is_brk c then [c_vt] else esc_char c.
Definition tr_para (s : str) : str := flat_map tr_para_char s.

(** frame / cell level: LF stays (paragraph separator), VT stays (line break) *)
Definition tr_frame_char (c : N) : str :=
  if is_brk c then [c] else esc_char c.
Definition tr_frame (s : str) : str := flat_map tr_frame_char s.
