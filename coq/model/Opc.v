(** Model of the package loader and writer of python-pptx:
      src/pptx/opc/package.py   OpcPackage.open/_load/save/iter_rels/iter_parts,
                                _PackageLoader (_xml_rels, _parts, _load), _ContentTypeMap,
                                PartFactory, Part/XmlPart load + blob,
                                _Relationships.load_from_xml / xml, _Relationship.target_ref
      src/pptx/opc/serialized.py PackageReader, PackageWriter, _ContentTypesItem
      src/pptx/opc/shared.py     CaseInsensitiveDict
      src/pptx/api.py            Presentation (main part lookup + content type test)
      src/pptx/parts/presentation.py rename_slide_parts
    Part-name arithmetic is model/PackUri.v (proved in proofs/PackUri_proofs.v).

    A physical package is an association list member name -> blob, names written
    as the reader presents them (a slash followed by the zip member name).  The
    two OPC meta formats are structural: a rels item decodes to [list rel], the
    content types item to [cts].  lxml's decode/encode of those two documents,
    the parse + serialise of XML payloads and the tables taken from the source
    tree are the fields of [env]; theorems assume [dec (enc x) = Some x] and
    idempotence of [reser] only.  Definitions only; proofs are in
    proofs/Opc_proofs.v. *)
From V.lib Require Import Prelude.
From V.model Require Import PackUri.

(** ---- strings ---- *)

Definition root : str := s_slash.                       (* PACKAGE_URI *)
Definition ct_uri : str :=                               (* CONTENT_TYPES_URI *)
  [47; 91; 67; 111; 110; 116; 101; 110; 116; 95; 84; 121; 112; 101; 115; 93; 46; 120; 109; 108]%N.
Definition s_rId : str := [114; 73; 100]%N.
Definition s_slide_prefix : str :=                       (* /ppt/slides/slide *)
  [47; 112; 112; 116; 47; 115; 108; 105; 100; 101; 115; 47; 115; 108; 105; 100; 101]%N.
Definition s_dot_xml : str := [46; 120; 109; 108]%N.

(** str.lower restricted to ASCII (see the assumptions of the check). *)
Definition lower_c (c : N) : N := if (65 <=? c)%N && (c <=? 90)%N then (c + 32)%N else c.
Definition lower (s : str) : str := map lower_c s.

(** Python str comparison: code point order, a proper prefix sorts first. *)
Fixpoint str_ltb (a b : str) : bool :=
  match a, b with
  | _, [] => false
  | [], _ :: _ => true
  | x :: a', y :: b' => if (x <? y)%N then true else if (x =? y)%N then str_ltb a' b' else false
  end.
Definition str_leb (a b : str) : bool := negb (str_ltb b a).

(** sorted(): insertion sort, stable. *)
Fixpoint insert_by {A} (leb : A -> A -> bool) (x : A) (l : list A) : list A :=
  match l with
  | [] => [x]
  | y :: l' => if leb x y then x :: l else y :: insert_by leb x l'
  end.
Definition sort_by {A} (leb : A -> A -> bool) (l : list A) : list A :=
  fold_right (insert_by leb) [] l.

(** ---- dict with str keys: insertion ordered, assignment to an existing key keeps
    its position ---- *)
Fixpoint lookup {V} (k : str) (d : list (str * V)) : option V :=
  match d with
  | [] => None
  | (k', v) :: d' => if str_eqb k' k then Some v else lookup k d'
  end.
Fixpoint dict_set {V} (k : str) (v : V) (d : list (str * V)) : list (str * V) :=
  match d with
  | [] => [(k, v)]
  | (k', v') :: d' => if str_eqb k' k then (k', v) :: d' else (k', v') :: dict_set k v d'
  end.
(** dict(iterable of pairs) *)
Definition dict_of {V} (l : list (str * V)) : list (str * V) :=
  fold_left (fun d kv => dict_set (fst kv) (snd kv) d) l [].
Definition has {V} (k : str) (d : list (str * V)) : bool :=
  match lookup k d with Some _ => true | None => false end.

Fixpoint mapM {A B} (f : A -> res B) (l : list A) : res (list B) :=
  match l with
  | [] => Ok []
  | x :: l' => bind (f x) (fun y => bind (mapM f l') (fun ys => Ok (y :: ys)))
  end.

(** ---- the two meta formats, structurally ---- *)

Inductive mode := MInt | MExt | MOther.     (* TargetMode absent or Internal | External | any other text *)
Record rel := mkRel { r_id : str; r_type : str; r_target : str; r_mode : mode }.
Definition is_ext (r : rel) : bool := match r_mode r with MExt => true | _ => false end.

(** [Content_Types].xml: Default (Extension, ContentType) and Override (PartName,
    ContentType) entries, each in document order. *)
Definition cts := (list (str * str) * list (str * str))%type.

Record env (blob : Type) := mkEnv {
  dec_rels : blob -> option (list rel);   (* parse_xml of a rels item; None: not decodable *)
  enc_rels : list rel -> blob;            (* CT_Relationships.xml_file_bytes *)
  dec_ct : blob -> option cts;            (* parse_xml of the content types item *)
  enc_ct : cts -> blob;                   (* serialize_part_xml of CT_Types *)
  reser : blob -> option blob;            (* XmlPart.load then .blob; None: not well-formed *)
  deftbl : list (str * str);              (* opc/spec.py default_content_types *)
  xmlcts : list str;                      (* content types mapped to an XmlPart subclass *)
  initdefs : list (str * str);            (* initial defaults of _ContentTypesItem *)
  prescts : list str;                     (* api._is_pptx_package valid_content_types *)
  rt_od : str                             (* RT.OFFICE_DOCUMENT *)
}.
Arguments dec_rels {blob}. Arguments enc_rels {blob}. Arguments dec_ct {blob}.
Arguments enc_ct {blob}. Arguments reser {blob}. Arguments deftbl {blob}.
Arguments xmlcts {blob}. Arguments initdefs {blob}. Arguments prescts {blob}.
Arguments rt_od {blob}.

(** ---- _ContentTypeMap ---- *)

(** CaseInsensitiveDict((k.lower(), v) for ...): built by dict.__init__, so a later
    duplicate key replaces the value; lookups lower-case the key. *)
Definition lower_keys (l : list (str * str)) : list (str * str) :=
  dict_of (map (fun kv => (lower (fst kv), snd kv)) l).

Definition ct_lookup (c : cts) (name : str) : res str :=
  match lookup (lower name) (lower_keys (snd c)) with
  | Some t => Ok t
  | None =>
      match lookup (lower (ext name)) (lower_keys (fst c)) with
      | Some t => Ok t
      | None => Err KeyErr
      end
  end.

(** ---- loader ---- *)

Definition phys (blob : Type) := list (str * blob).

(** PackageReader.rels_xml_for + _xml_rels_for: no rels item gives an empty list *)
Definition rels_for {blob} (E : env blob) (p : phys blob) (name : str) : option (list rel) :=
  match rels_uri name with
  | Err _ => Some []                       (* not reachable for a rooted name *)
  | Ok u => match lookup u p with
            | None => Some []
            | Some b => dec_rels E b
            end
  end.

(** PackURI.from_rel_ref; the error branch is not reachable for a rooted base *)
Definition resolve (base ref : str) : str :=
  match from_rel_ref base ref with Ok t => t | Err _ => [] end.

Definition int_targets (name : str) (rs : list rel) : list str :=
  map (fun r => resolve (baseURI name) (r_target r)) (filter (fun r => negb (is_ext r)) rs).

(** successors of a name in the walk of _xml_rels *)
Definition succs {blob} (E : env blob) (p : phys blob) (name : str) : list str :=
  match rels_for E p name with
  | Some rs => int_targets name rs
  | None => []
  end.

(** The depth-first walk shared by _PackageLoader._xml_rels and OpcPackage.iter_rels:
    [vis] is the visited set, most recent first. *)
Definition step (rec : list str -> str -> list str) (vis : list str) (y : str) : list str :=
  if mem_str y vis then vis else rec vis y.
Fixpoint dfs (g : str -> list str) (fuel : nat) (vis : list str) (src : str) : list str :=
  match fuel with
  | O => vis
  | S f => fold_left (step (dfs g f)) (g src) (src :: vis)
  end.
Definition walk (g : str -> list str) (fuel : nat) (vis : list str) (ys : list str) : list str :=
  fold_left (step (dfs g fuel)) ys vis.

Definition fuel_of {A} (l : list A) : nat := S (S (length l)).

(** keys of _xml_rels in insertion order *)
Definition xml_rels_names {blob} (E : env blob) (p : phys blob) : list str :=
  rev (dfs (succs E p) (fuel_of p) [] root).

Record lrel := mkLrel { l_id : str; l_type : str; l_ext : bool; l_target : str }.
(* l_target: part name of the target part, or the external reference text *)
Record part (blob : Type) := mkPart { p_name : str; p_ct : str; p_blob : blob; p_rels : list lrel }.
Arguments mkPart {blob}. Arguments p_name {blob}. Arguments p_ct {blob}.
Arguments p_blob {blob}. Arguments p_rels {blob}.
Record pkg (blob : Type) := mkPkg { k_rels : list lrel; k_parts : list (part blob) }.
Arguments mkPkg {blob}. Arguments k_rels {blob}. Arguments k_parts {blob}.

(** _rels.update((rel.rId, rel) for ...): dict keyed by rId *)
Fixpoint lrels_set (r : lrel) (d : list lrel) : list lrel :=
  match d with
  | [] => [r]
  | r' :: d' => if str_eqb (l_id r') (l_id r) then r :: d' else r' :: lrels_set r d'
  end.
Definition lrels_dict (l : list lrel) : list lrel := fold_left (fun d r => lrels_set r d) l [].

(** _Relationships.load_from_xml.iter_valid_rels followed by _Relationship.from_xml *)
Fixpoint valid_rels (src : str) (present : str -> bool) (rs : list rel) : res (list lrel) :=
  match rs with
  | [] => Ok []
  | r :: rs' =>
      let t := resolve (baseURI src) (r_target r) in
      match r_mode r with
      | MExt => bind (valid_rels src present rs')
                     (fun l => Ok (mkLrel (r_id r) (r_type r) true (r_target r) :: l))
      | MInt => if present t
                then bind (valid_rels src present rs')
                          (fun l => Ok (mkLrel (r_id r) (r_type r) false t :: l))
                else valid_rels src present rs'
      | MOther => if present t
                  then bind (valid_rels src present rs')
                            (fun l => Ok (mkLrel (r_id r) (r_type r) false t :: l))
                  else Err KeyErr
      end
  end.

Definition is_xml_ct {blob} (E : env blob) (ct : str) : bool := mem_str ct (xmlcts E).

(** PartFactory(partname, content_types[partname], package, blob=package_reader[partname]) *)
Definition load_part {blob} (E : env blob) (p : phys blob) (c : cts) (name : str)
  : res (str * str * blob) :=
  bind (ct_lookup c name) (fun ct =>
    match lookup name p with
    | None => Err KeyErr                   (* guarded by the membership filter *)
    | Some b =>
        if is_xml_ct E ct
        then match reser E b with Some b' => Ok (name, ct, b') | None => Err OtherErr end
        else Ok (name, ct, b)
    end).

Definition rels_or_nil {blob} (E : env blob) (p : phys blob) (name : str) : list rel :=
  match rels_for E p name with Some rs => rs | None => [] end.

Definition load_rels {blob} (E : env blob) (p : phys blob) (present : str -> bool) (name : str)
  : res (list lrel) :=
  bind (valid_rels name present (rels_or_nil E p name)) (fun l => Ok (lrels_dict l)).

Definition part_names {blob} (E : env blob) (p : phys blob) : list str :=
  filter (fun n => negb (str_eqb n root) && has n p) (xml_rels_names E p).

Definition load {blob} (E : env blob) (p : phys blob) : res (pkg blob) :=
  match lookup ct_uri p with
  | None => Err KeyErr
  | Some cb =>
    match dec_ct E cb with
    | None => Err OtherErr
    | Some c =>
      let names := xml_rels_names E p in
      if negb (forallb (fun n => match rels_for E p n with Some _ => true | None => false end) names)
      then Err OtherErr
      else
        let pnames := part_names E p in
        let present := fun n => mem_str n pnames in
        bind (mapM (load_part E p c) pnames) (fun protos =>
        bind (mapM (fun pr : str * str * blob =>
                      let '(n, ct, b) := pr in
                      bind (load_rels E p present n) (fun rs => Ok (mkPart n ct b rs))) protos)
             (fun parts =>
        bind (load_rels E p present root) (fun krels => Ok (mkPkg krels parts))))
    end
  end.

(** ---- iter_rels / iter_parts ---- *)

Definition find_part {blob} (k : pkg blob) (name : str) : option (part blob) :=
  find (fun pt => str_eqb (p_name pt) name) (k_parts k).

Definition lint_targets (rs : list lrel) : list str :=
  map l_target (filter (fun r => negb (l_ext r)) rs).

Definition lsuccs {blob} (k : pkg blob) (name : str) : list str :=
  match find_part k name with
  | Some pt => lint_targets (p_rels pt)
  | None => []
  end.

Definition iter_part_names {blob} (k : pkg blob) : list str :=
  rev (walk (lsuccs k) (fuel_of (k_parts k)) [] (lint_targets (k_rels k))).

Definition iter_parts {blob} (k : pkg blob) : list (part blob) :=
  flat_map (fun n => match find_part k n with Some pt => [pt] | None => [] end)
           (iter_part_names k).

(** ---- writer ---- *)

(** _Relationship.target_ref for an internal relationship *)
Definition rel_ref (target base : str) : str :=
  match relative_ref target base with Ok r => r | Err _ => [] end.

Definition out_rel (src : str) (r : lrel) : rel :=
  if l_ext r then mkRel (l_id r) (l_type r) (l_target r) MExt
  else mkRel (l_id r) (l_type r) (rel_ref (l_target r) (baseURI src)) MInt.

(** int(rId[3:]) if rId.startswith('rId') and rId[3:].isdigit() else 0 (ASCII digits) *)
Definition rid_num (r : str) : N :=
  if starts_with s_rId r then
    match skipn 3 r with
    | [] => 0%N
    | d => if forallb is_digit d then dec_value d else 0%N
    end
  else 0%N.

Definition rid_leb (a b : str) : bool :=
  if (rid_num a <? rid_num b)%N then true
  else if (rid_num a =? rid_num b)%N then str_leb a b else false.

(** _Relationships.xml *)
Definition out_rels (src : str) (rs : list lrel) : list rel :=
  map (out_rel src) (sort_by (fun a b => rid_leb (l_id a) (l_id b)) rs).

(** content types the default table lists for an extension, in table order *)
Definition ext_types (tbl : list (str * str)) (e : str) : list str :=
  map snd (filter (fun kv => str_eqb (fst kv) e) tbl).

(** ext_content_types == [content_type]: the table maps the extension to exactly this
    single content type (an extension listed with several types never gets a Default) *)
Definition in_table (tbl : list (str * str)) (e ct : str) : bool :=
  match ext_types tbl e with
  | [t] => str_eqb t ct
  | _ => false
  end.

(** _ContentTypesItem._defaults_and_overrides *)
Definition cti_step {blob} (E : env blob) (acc : list (str * str) * list (str * str)) (pt : part blob) :=
  let e := ext (p_name pt) in
  if in_table (deftbl E) (lower e) (p_ct pt)
  then (dict_set (lower e) (p_ct pt) (fst acc), snd acc)
  else (fst acc, dict_set (p_name pt) (p_ct pt) (snd acc)).

Definition defaults_and_overrides {blob} (E : env blob) (parts : list (part blob)) :=
  fold_left (cti_step E) parts (initdefs E, []).

Definition pair_leb (a b : str * str) : bool :=
  if str_ltb (fst a) (fst b) then true
  else if str_eqb (fst a) (fst b) then str_leb (snd a) (snd b) else false.

Definition content_types_item {blob} (E : env blob) (parts : list (part blob)) : cts :=
  let (d, o) := defaults_and_overrides E parts in
  (sort_by pair_leb d, sort_by pair_leb o).

Definition rels_item_name (name : str) : str :=
  match rels_uri name with Ok u => u | Err _ => [] end.

Definition part_members {blob} (E : env blob) (pt : part blob) : phys blob :=
  (p_name pt, p_blob pt) ::
  match p_rels pt with
  | [] => []
  | rs => [(rels_item_name (p_name pt), enc_rels E (out_rels (p_name pt) rs))]
  end.

(** OpcPackage.save -> PackageWriter._write: members in write order *)
Definition save {blob} (E : env blob) (k : pkg blob) : phys blob :=
  let parts := iter_parts k in
  (ct_uri, enc_ct E (content_types_item E parts))
  :: (rels_item_name root, enc_rels E (out_rels root (k_rels k)))
  :: flat_map (part_members E) parts.

(** open, save, open again, save again *)
Definition roundtrip {blob} (E : env blob) (p : phys blob) : res (phys blob) :=
  bind (load E p) (fun k => Ok (save E k)).

(** ---- Presentation(): main document part and its content type ---- *)

Definition load_presentation {blob} (E : env blob) (p : phys blob) : res (pkg blob * part blob) :=
  bind (load E p) (fun k =>
    match filter (fun r => str_eqb (l_type r) (rt_od E)) (k_rels k) with
    | [] => Err KeyErr                                  (* no relationship of that type *)
    | [r] =>
        if l_ext r then Err ValueErr                    (* target_part of an external relationship *)
        else match find_part k (l_target r) with
             | None => Err KeyErr                       (* not reachable: dangling ones were dropped *)
             | Some pt => if mem_str (p_ct pt) (prescts E) then Ok (k, pt) else Err ValueErr
             end
    | _ => Err ValueErr                                 (* several relationships of that type *)
    end).

(** What the physical reader hands over: _PhysPkgReader.factory and zipfile. *)
Inductive source (blob : Type) :=
| SrcNotFound                   (* a path that is neither a directory nor a zip file *)
| SrcNotZip                     (* a stream zipfile cannot read *)
| SrcMembers (p : phys blob).
Arguments SrcNotFound {blob}. Arguments SrcNotZip {blob}. Arguments SrcMembers {blob}.

Inductive outcome (A : Type) := OOk (a : A) | OErr (e : pyerr) | ONotFound | OBadZip.
Arguments OOk {A}. Arguments OErr {A}. Arguments ONotFound {A}. Arguments OBadZip {A}.

Definition open_presentation {blob} (E : env blob) (s : source blob) : outcome (pkg blob * part blob) :=
  match s with
  | SrcNotFound => ONotFound
  | SrcNotZip => OBadZip
  | SrcMembers p => match load_presentation E p with Ok x => OOk x | Err e => OErr e end
  end.

(** ---- PresentationPart.rename_slide_parts, as one simultaneous renaming: every
    listed rId is resolved in the main part's relationships (held by object, so not
    affected by the renaming itself); a part listed twice keeps its last name ---- *)

Definition slide_name (i : nat) : str := s_slide_prefix ++ dec_of_N (N.of_nat i) ++ s_dot_xml.

Fixpoint rename_map (rs : list lrel) (rids : list str) (i : nat) : res (list (str * str)) :=
  match rids with
  | [] => Ok []
  | rid :: rids' =>
      match find (fun r => str_eqb (l_id r) rid) rs with
      | None => Err KeyErr
      | Some r =>
          if l_ext r then Err ValueErr
          else bind (rename_map rs rids' (S i)) (fun m => Ok ((l_target r, slide_name i) :: m))
      end
  end.

(** last assignment to a part wins: search the map from its end *)
Definition renamed (m : list (str * str)) (n : str) : str :=
  match lookup n (rev m) with Some n' => n' | None => n end.

Definition rename_lrel (m : list (str * str)) (r : lrel) : lrel :=
  if l_ext r then r else mkLrel (l_id r) (l_type r) false (renamed m (l_target r)).

Definition rename_slides {blob} (k : pkg blob) (main : part blob) (rids : list str) : res (pkg blob) :=
  bind (rename_map (p_rels main) rids 1) (fun m =>
    Ok (mkPkg (map (rename_lrel m) (k_rels k))
              (map (fun pt => mkPart (renamed m (p_name pt)) (p_ct pt) (p_blob pt)
                                     (map (rename_lrel m) (p_rels pt))) (k_parts k)))).

(** ---- regularise: what is left of a package when everything the loader ignores is
    taken out.  Keeps the content types item; for the root and for every part the
    loaded package still reaches, a rels item holding the relationships the loader
    kept (dangling internal ones removed, an empty item where there was none); the
    members of those parts.  Everything else (unreferenced members, rels items of
    absent parts) is dropped. ---- *)

Definition kept_rel (src : str) (present : str -> bool) (r : rel) : bool :=
  match r_mode r with
  | MInt => present (resolve (baseURI src) (r_target r))
  | _ => true
  end.

Definition regularise {blob} (E : env blob) (p : phys blob) : phys blob :=
  match lookup ct_uri p with
  | None => p
  | Some cb =>
      let pn := part_names E p in
      let present := fun n => mem_str n pn in
      (ct_uri, cb)
      :: (rels_item_name root, enc_rels E (filter (kept_rel root present) (rels_or_nil E p root)))
      :: flat_map (fun n =>
            match lookup n p with
            | Some b => [(n, b);
                         (rels_item_name n, enc_rels E (filter (kept_rel n present) (rels_or_nil E p n)))]
            | None => []
            end) pn
  end.

(** ---- side conditions used by the theorems ---- *)

(** no two of the given parts share a (lower-cased) extension while both carrying a
    type listed for it in the default table, with different types *)
Definition default_clash {blob} (E : env blob) (a b : part blob) : bool :=
  str_eqb (lower (ext (p_name a))) (lower (ext (p_name b)))
  && in_table (deftbl E) (lower (ext (p_name a))) (p_ct a)
  && in_table (deftbl E) (lower (ext (p_name b))) (p_ct b)
  && negb (str_eqb (p_ct a) (p_ct b)).

(** ---- vocabulary of the theorems (props/C01.v, props/C16.v) ---- *)

(** reachability along a successor function *)
Inductive reach (g : str -> list str) (s : str) : str -> Prop :=
| r0 : reach g s s
| r1 x y : reach g s x -> In y (g x) -> reach g s y.

(** the names the relationship graph of [p] reaches from the package root *)
Definition reachable {blob} (E : env blob) (p : phys blob) (x : str) : Prop :=
  reach (succs E p) root x.

(** what is assumed of lxml: decoding what was encoded gives it back; parsing and
    serialising a serialised payload changes nothing *)
Definition codec_ok {blob} (E : env blob) : Prop :=
  (forall l, dec_rels E (enc_rels E l) = Some l) /\
  (forall c, dec_ct E (enc_ct E c) = Some c) /\
  (forall b b', reser E b = Some b' -> reser E b' = Some b').

(** the tables of the writer use lower-case extensions, each initial default once *)
Definition env_ok {blob} (E : env blob) : Prop :=
  NoDup (map fst (initdefs E)) /\ (forall kv, In kv (initdefs E) -> lower (fst kv) = fst kv).

(** a part name: normalised, not the content types item, not shaped like a rels item *)
Definition part_name (x : str) : Prop :=
  exists P, wf_name P /\ P <> [] /\ x = render P /\ x <> ct_uri /\
            ~ (exists d f, P = d ++ [s_rels_dir; f]).

(** what a relationship means: id, type, mode, and the part it resolves to (or the
    external reference text) *)
Definition rel_sem (src : str) (r : rel) : str * str * bool * str :=
  (r_id r, r_type r, is_ext r,
   if is_ext r then r_target r else resolve (baseURI src) (r_target r)).

(** a well-formed package whose internal relationships all resolve *)
Definition wf {blob} (E : env blob) (p : phys blob) : Prop :=
  (* the content types item is there, and gives every reachable part a type; payloads
     of XML-class parts parse *)
  (exists cb c, lookup ct_uri p = Some cb /\ dec_ct E cb = Some c /\
     forall x, reachable E p x -> x <> root ->
       exists ct b, ct_lookup c x = Ok ct /\ lookup x p = Some b /\
                    (is_xml_ct E ct = true -> exists b', reser E b = Some b')) /\
  (* rels items of reachable sources decode, ids are unique, modes are Internal or
     External, no target is the package itself *)
  (forall x, reachable E p x -> exists rs, rels_for E p x = Some rs /\ NoDup (map r_id rs) /\
       forall r, In r rs -> r_mode r <> MOther /\
                            (is_ext r = false -> resolve (baseURI x) (r_target r) <> root)) /\
  (* reachable names are part names, unique also up to case *)
  (forall x, reachable E p x -> x <> root -> part_name x) /\
  (forall x y, reachable E p x -> reachable E p y -> lower x = lower y -> x = y).

(** content type the input package declares for a name (total form) *)
Definition ct_in {blob} (E : env blob) (p : phys blob) (x : str) : res str :=
  match lookup ct_uri p with
  | Some cb => match dec_ct E cb with Some c => ct_lookup c x | None => Err OtherErr end
  | None => Err KeyErr
  end.

(** no two reachable parts share an extension (up to case) while carrying different
    content types that both qualify for a Default.  With the rule of [in_table] (a single
    type per extension) this holds for every package: see no_default_clash_always *)
Definition no_default_clash {blob} (E : env blob) (p : phys blob) : Prop :=
  forall x y cx cy, reachable E p x -> reachable E p y -> x <> root -> y <> root ->
    ct_in E p x = Ok cx -> ct_in E p y = Ok cy ->
    lower (ext x) = lower (ext y) ->
    in_table (deftbl E) (lower (ext x)) cx = true ->
    in_table (deftbl E) (lower (ext y)) cy = true -> cx = cy.

(** two physical packages with the same members: same names, same bytes under each *)
Definition same_package {blob} (a b : phys blob) : Prop :=
  (forall n, In n (map fst a) <-> In n (map fst b)) /\ (forall n, lookup n a = lookup n b).

(** ---- decidable forms of the side conditions (sound, see proofs/Opc_proofs.v);
    used for the non-vacuity examples and printed by the runner so that the check can
    confirm that its well-formed stream meets the hypothesis of the theorems ---- *)

Fixpoint nodupb (l : list str) : bool :=
  match l with [] => true | x :: l' => negb (mem_str x l') && nodupb l' end.

Definition part_nameb (x : str) : bool :=
  match x with
  | [] => false
  | c0 :: r =>
      let P := split_on c_slash r in
      is_slash c0 && forallb wf_segb P && negb (str_eqb x ct_uri)
      && negb (match rev P with _ :: d :: _ => str_eqb d s_rels_dir | _ => false end)
  end.

Definition wfb {blob} (E : env blob) (p : phys blob) : bool :=
  let L := xml_rels_names E p in
  mem_str root L
  && forallb (fun x => forallb (fun y => mem_str y L) (succs E p x)) L
  && match lookup ct_uri p with
     | None => false
     | Some cb =>
       match dec_ct E cb with
       | None => false
       | Some c =>
           forallb (fun x => str_eqb x root ||
                      match ct_lookup c x, lookup x p with
                      | Ok ct, Some b => negb (is_xml_ct E ct)
                                         || match reser E b with Some _ => true | None => false end
                      | _, _ => false
                      end) L
       end
     end
  && forallb (fun x => match rels_for E p x with
                       | None => false
                       | Some rs =>
                           nodupb (map r_id rs)
                           && forallb (fun r => match r_mode r with MOther => false | _ => true end
                                                && (is_ext r || negb (str_eqb (resolve (baseURI x) (r_target r)) root))) rs
                       end) L
  && forallb (fun x => str_eqb x root || part_nameb x) L
  && nodupb (map lower L).

Definition no_default_clashb {blob} (E : env blob) (p : phys blob) : bool :=
  let L := xml_rels_names E p in
  forallb (fun x => forallb (fun y =>
    match ct_in E p x, ct_in E p y with
    | Ok cx, Ok cy =>
        negb (str_eqb (lower (ext x)) (lower (ext y))
              && in_table (deftbl E) (lower (ext x)) cx && in_table (deftbl E) (lower (ext y)) cy)
        || str_eqb cx cy
    | _, _ => true
    end) L) L.

(** ---- causes of refusal, as predicates on the physical package (C16) ---- *)

Definition cause_no_ct_item {blob} (p : phys blob) : Prop := lookup ct_uri p = None.
Definition cause_ct_undecodable {blob} (E : env blob) (p : phys blob) : Prop :=
  exists cb, lookup ct_uri p = Some cb /\ dec_ct E cb = None.
Definition cause_rels_undecodable {blob} (E : env blob) (p : phys blob) : Prop :=
  exists n, In n (xml_rels_names E p) /\ rels_for E p n = None.
(** a member the relationship graph reaches has no content type *)
Definition cause_untyped_part {blob} (E : env blob) (p : phys blob) : Prop :=
  exists n, In n (part_names E p) /\ ct_in E p n = Err KeyErr.
(** a part typed as one of the XML part classes does not parse *)
Definition cause_xml_unparseable {blob} (E : env blob) (p : phys blob) : Prop :=
  exists n ct b, In n (part_names E p) /\ ct_in E p n = Ok ct /\ lookup n p = Some b /\
                 is_xml_ct E ct = true /\ reser E b = None.
(** a relationship whose TargetMode is neither Internal nor External points nowhere *)
Definition cause_dangling_other_mode {blob} (E : env blob) (p : phys blob) : Prop :=
  exists n r, In n (root :: part_names E p) /\ In r (rels_or_nil E p n) /\ r_mode r = MOther /\
              mem_str (resolve (baseURI n) (r_target r)) (part_names E p) = false.

Definition od_rels {blob} (E : env blob) (k : pkg blob) : list lrel :=
  filter (fun r => str_eqb (l_type r) (rt_od E)) (k_rels k).
