(** C18 -- core document properties round-trip and stay valid.

    Statements over model/CoreProps.v (tied to python-pptx by the correspondence in
    checks/c18.py).  Spec-level vocabulary defined in proofs/CoreProps_proofs.v:
    w3c_full / w3c_date / w3c_ym (zero-padded W3CDTF text), off_str / off_seconds (zone
    designator and the seconds east of UTC it denotes), stored (text of the first child
    with the tag), run (fold_left of assignments), goodb / rejb (assignments the statement
    says must be accepted / refused), last_good, reading_of, date_guard, dec_len,
    rev_acceptable. *)
From V.lib Require Import Prelude Calendar.
From V.model Require Import CoreProps.
From V.proofs Require Import Calendar_proofs CoreProps_proofs.

(** ---- strings ---- *)

(** A string of at most 255 code points (XML characters) is accepted by every string
    property and read back unchanged, whatever the prior state. *)
Theorem C18_text : forall (p : prop) (s : str) (st : cpstate),
  kind_of p = KText -> (length s <= 255)%nat -> forallb xml_ok s = true ->
  snd (set_prop p (VStr s) st) = Ok tt /\
  get_prop (fst (set_prop p (VStr s) st)) p = Ok (OStr s).
Proof. exact text_roundtrip. Qed.
Print Assumptions C18_text.

(** Longer strings raise ValueError and the element is left exactly as it was. *)
Theorem C18_text_limit : forall (p : prop) (s : str) (st : cpstate),
  kind_of p = KText -> (255 < length s)%nat ->
  set_prop p (VStr s) st = (st, Err ValueErr).
Proof. exact text_limit. Qed.
Print Assumptions C18_text_limit.

(** ---- datetimes ---- *)

(** A datetime whose year is at least 1000 is accepted by every date property and read
    back as its wall-clock fields to the second (microsecond dropped; tzinfo plays no part,
    see C18_date_tzaware_refuted). *)
Theorem C18_date : forall (p : prop) (d : pydt) (st : cpstate),
  kind_of p = KDate -> valid_pydt d = true -> (1000 <= dt_year (p_dt d))%Z ->
  snd (set_prop p (VDt d) st) = Ok tt /\
  get_prop (fst (set_prop p (VDt d) st)) p = Ok (ODt (Some (p_dt d))).
Proof. exact date_roundtrip. Qed.
Print Assumptions C18_date.

(** Anything that is not a datetime raises ValueError, element untouched. *)
Theorem C18_date_type : forall (p : prop) (v : pyv) (st : cpstate),
  kind_of p = KDate -> (forall d, v <> VDt d) -> set_prop p v st = (st, Err ValueErr).
Proof. exact date_type. Qed.
Print Assumptions C18_date_type.

(** Below year 1000 the statement fails: datetime(999,1,2,3,4,5) is accepted, written as
    999-01-02T03:04:05Z, reads back None, and the part is no longer schema-valid. *)
Theorem C18_date_lt1000_refuted : exists d : pydt,
  valid_pydt d = true /\ (dt_year (p_dt d) < 1000)%Z /\
  snd (set_prop Created (VDt d) []) = Ok tt /\
  get_prop (fst (set_prop Created (VDt d) [])) Created = Ok (ODt None) /\
  valid_cp (fst (set_prop Created (VDt d) [])) = false.
Proof. exact date_lt1000_refuted. Qed.
Print Assumptions C18_date_lt1000_refuted.

(** An aware datetime is stored by its wall-clock fields with the suffix Z: 23:59:59+05:00
    reads back 23:59:59, whereas the equivalent UTC time is 18:59:59. *)
Theorem C18_date_tzaware_refuted : exists (d : pydt) (o : Z),
  valid_pydt d = true /\ p_tz d = Some o /\ o <> 0%Z /\
  get_prop (fst (set_prop Created (VDt d) [])) Created = Ok (ODt (Some (p_dt d))) /\
  add_seconds (p_dt d) (- o) <> p_dt d.
Proof. exact date_tzaware_refuted. Qed.
Print Assumptions C18_date_tzaware_refuted.

(** ---- reading W3CDTF text ---- *)

(** Complete date and time followed by a zone designator (any two digits each, which
    includes every offset from -14:00 to +14:00): the reading is the equivalent UTC time,
    i.e. the instant [to_seconds local - offset]; OverflowError when that falls outside
    years 1..9999. *)
Theorem C18_offset : forall (st : cpstate) (p : prop) (t : datetime) (neg : bool) (hh mm : Z),
  kind_of p = KDate -> stored st p (w3c_full t ++ off_str neg hh mm) ->
  valid_datetime t = true -> (1 <= dt_year t <= 9999)%Z -> (0 <= hh <= 99)%Z -> (0 <= mm <= 99)%Z ->
  let utc := add_seconds t (- off_seconds neg hh mm) in
  to_seconds utc = (to_seconds t - off_seconds neg hh mm)%Z /\
  valid_datetime utc = true /\
  get_prop st p = if in_py_range utc then Ok (ODt (Some utc)) else Err OverflowErr.
Proof. exact read_offset. Qed.
Print Assumptions C18_offset.

(** The other granularities the parser supports: complete date and time followed by anything
    that is not six characters long (nothing, Z, a fraction and Z ...), date, year-month, year. *)
Theorem C18_granularity : forall (st : cpstate) (p : prop), kind_of p = KDate ->
  (forall t z, stored st p (w3c_full t ++ z) -> length z <> 6%nat ->
     valid_datetime t = true -> (1 <= dt_year t <= 9999)%Z ->
     get_prop st p = Ok (ODt (Some t))) /\
  (forall y m d, stored st p (w3c_date y m d) -> valid_date (y, m, d) = true -> (1 <= y <= 9999)%Z ->
     get_prop st p = Ok (ODt (Some (mkDT y m d 0 0 0)))) /\
  (forall y m, stored st p (w3c_ym y m) -> (1 <= m <= 12)%Z -> (1 <= y <= 9999)%Z ->
     get_prop st p = Ok (ODt (Some (mkDT y m 1 0 0 0)))) /\
  (forall y, stored st p (pad4 y) -> (1 <= y <= 9999)%Z ->
     get_prop st p = Ok (ODt (Some (mkDT y 1 1 0 0 0)))).
Proof. exact granularity. Qed.
Print Assumptions C18_granularity.

(** W3CDTF granularities the parser gets wrong.  Hours and minutes with a designator
    (2003-12-31T10:14+01:00) are unreadable; with a fraction of a second the designator is
    ignored (2003-12-31T10:14:55.5+01:00 reads 10:14:55, not 09:14:55); a fraction and Z
    that make six characters (.1234Z) are unreadable. *)
Theorem C18_offset_minutes_refuted :
  parse_w3cdtf (w3c_date 2003 12 31 ++ c_T :: pad2 10 ++ c_colon :: pad2 14 ++ off_str false 1 0) = Err ValueErr.
Proof. exact minutes_granularity_witness. Qed.
Print Assumptions C18_offset_minutes_refuted.

Theorem C18_offset_fraction_refuted : exists (t : datetime) (frac : str),
  parse_w3cdtf (w3c_full t ++ frac ++ off_str false 1 0) = Ok t /\
  add_seconds t (- off_seconds false 1 0) <> t.
Proof. exact offset_fraction_refuted. Qed.
Print Assumptions C18_offset_fraction_refuted.

Theorem C18_fraction_z_refuted :
  parse_w3cdtf (w3c_full t2003 ++ [46; 49; 50; 51; 52; 90]%N) = Err ValueErr.
Proof. exact fraction_z_witness. Qed.
Print Assumptions C18_fraction_z_refuted.

(** ---- revision ---- *)

(** Positive integers (up to CPython's 4300-digit conversion limit) round-trip. *)
Theorem C18_revision : forall (z : Z) (st : cpstate), (1 <= z)%Z -> (dec_len z <= 4300)%N ->
  snd (set_prop Revision (VInt z) st) = Ok tt /\
  get_prop (fst (set_prop Revision (VInt z) st)) Revision = Ok (OInt z).
Proof. exact revision_roundtrip. Qed.
Print Assumptions C18_revision.

(** Integers below 1, False, None, strings, dates and other objects raise ValueError,
    element untouched. *)
Theorem C18_revision_reject : forall (v : pyv) (st : cpstate),
  rev_acceptable v = false -> set_prop Revision v st = (st, Err ValueErr).
Proof. exact revision_reject. Qed.
Print Assumptions C18_revision_reject.

(** Reading: absent element, text int() cannot parse, and negative numbers all give 0. *)
Theorem C18_revision_read : forall st : cpstate,
  get_prop st Revision =
  Ok (OInt match find_child st Revision with
           | None => 0%Z
           | Some c => match py_int (c_text c) with
                       | Some z => if (z <? 0)%Z then 0%Z else z
                       | None => 0%Z
                       end
           end).
Proof. exact revision_read. Qed.
Print Assumptions C18_revision_read.

(** True passes the isinstance(int) test: it is accepted, written as the text True, and
    reads back 0. *)
Theorem C18_revision_bool_refuted :
  snd (set_prop Revision (VBool true) []) = Ok tt /\
  get_text (fst (set_prop Revision (VBool true) [])) Revision = s_True /\
  get_prop (fst (set_prop Revision (VBool true) [])) Revision = Ok (OInt 0).
Proof. exact revision_bool_refuted. Qed.
Print Assumptions C18_revision_bool_refuted.

(** ---- independence and histories ---- *)

(** Assigning one property -- accepted or refused, any value -- leaves the readings of the
    other 14 unchanged. *)
Theorem C18_frame : forall (p q : prop) (v : pyv) (st : cpstate),
  p <> q -> get_prop (fst (set_prop p v st)) q = get_prop st q.
Proof. exact frame. Qed.
Print Assumptions C18_frame.

(** After any sequence of assignments, each of which the statement says is accepted
    (goodb) or refused (rejb), every property reads the value of the last accepted
    assignment to it, or what it read initially if there was none. *)
Theorem C18_history : forall (ops : list op) (st : cpstate) (q : prop),
  Forall (fun o => goodb o || rejb o = true) ops ->
  get_prop (run ops st) q =
  match last_good ops q with Some v => Ok (reading_of v) | None => get_prop st q end.
Proof. exact history. Qed.
Print Assumptions C18_history.

(** ---- validity against opc-coreProperties.xsd ---- *)

(** The schema (xsd:all) asks for each of the 15 children at most once, in any order, nothing
    else; cp:lastPrinted an xsd:dateTime; dcterms:created / modified typed W3CDTF a
    gYear, gYearMonth, date or dateTime (valid_cp).  Every assignment whatsoever keeps a
    valid element valid, except a datetime below year 1000 (C18_date_lt1000_refuted). *)
Theorem C18_valid_step : forall (p : prop) (v : pyv) (st : cpstate),
  valid_cp st = true ->
  (forall d, v = VDt d -> kind_of p = KDate -> valid_pydt d = true /\ (1000 <= dt_year (p_dt d))%Z) ->
  valid_cp (fst (set_prop p v st)) = true.
Proof. exact valid_step. Qed.
Print Assumptions C18_valid_step.

Theorem C18_valid_history : forall (ops : list op) (st : cpstate),
  valid_cp st = true -> Forall date_guard ops -> valid_cp (run ops st) = true.
Proof. exact valid_history. Qed.
Print Assumptions C18_valid_history.

(** ---- default part ---- *)

(** Package.core_properties returns the related part untouched when there is one; otherwise it
    creates, relates and returns a part that reads title, last_modified_by, revision 1 and
    modified = the clock reading to the second, everything else empty, and is schema-valid. *)
Theorem C18_default_part : forall now : pydt,
  (forall st, core_properties (Some st) now = (Some st, st)) /\
  core_properties None now = (Some (default_part now), default_part now) /\
  (valid_pydt now = true -> (1000 <= dt_year (p_dt now))%Z ->
   valid_cp (default_part now) = true /\
   forall q, get_prop (default_part now) q =
     match q with
     | Title => Ok (OStr s_default_title)
     | LastModifiedBy => Ok (OStr s_python_pptx)
     | Revision => Ok (OInt 1)
     | Modified => Ok (ODt (Some (p_dt now)))
     | Created | LastPrinted => Ok (ODt None)
     | _ => Ok (OStr [])
     end).
Proof. exact default_part_spec. Qed.
Print Assumptions C18_default_part.

(** ---- calendar (lib/Calendar.v, shared with C07/C08) ---- *)

Theorem C18_calendar_inverse :
  (forall dt, valid_date dt = true -> civil_of_ordinal (ordinal dt) = dt) /\
  (forall n, valid_date (civil_of_ordinal n) = true /\ ordinal (civil_of_ordinal n) = n).
Proof. exact calendar_inverse. Qed.
Print Assumptions C18_calendar_inverse.

Theorem C18_add_seconds : forall t k,
  to_seconds (add_seconds t k) = (to_seconds t + k)%Z /\ valid_datetime (add_seconds t k) = true /\
  (forall u, valid_datetime u = true -> to_seconds u = (to_seconds t + k)%Z -> u = add_seconds t k).
Proof. exact add_seconds_char. Qed.
Print Assumptions C18_add_seconds.

(** ---- non-vacuity ---- *)

Example C18_text_nonvacuous :
  kind_of Title = KText /\ (length [128512; 60; 38]%N <= 255)%nat /\ forallb xml_ok [128512; 60; 38]%N = true.
Proof. repeat split. vm_compute. lia. Qed.

Example C18_text_limit_nonvacuous : (255 < length (repeat 97%N 256))%nat.
Proof. vm_compute. lia. Qed.

Example C18_date_nonvacuous :
  let d := mkPydt (mkDT 2024 2 29 23 59 59) 999999 None in
  kind_of LastPrinted = KDate /\ valid_pydt d = true /\ (1000 <= dt_year (p_dt d))%Z.
Proof. vm_compute. repeat split; discriminate. Qed.

Example C18_offset_nonvacuous :
  let st := [mkChild (TProp Created) (w3c_full (mkDT 2020 3 1 0 30 0) ++ off_str false 1 0) true] in
  stored st Created (w3c_full (mkDT 2020 3 1 0 30 0) ++ off_str false 1 0) /\
  valid_datetime (mkDT 2020 3 1 0 30 0) = true /\
  get_prop st Created = Ok (ODt (Some (mkDT 2020 2 29 23 30 0))).
Proof. split; [eexists; split; reflexivity|]. vm_compute. split; reflexivity. Qed.

Example C18_revision_nonvacuous : (1 <= 4294967296)%Z /\ (dec_len 4294967296 <= 4300)%N.
Proof. vm_compute. split; discriminate. Qed.

Example C18_history_nonvacuous :
  let ops := [(Title, VStr [97]%N); (Revision, VInt 0); (Created, VDt (mkPydt (mkDT 2001 2 3 4 5 6) 7 None));
              (Title, VStr (repeat 98%N 256)); (Revision, VInt 7); (Title, VStr [99]%N); (Created, VNone)] in
  Forall (fun o => goodb o || rejb o = true) ops /\
  get_prop (run ops []) Title = Ok (OStr [99]%N) /\
  get_prop (run ops []) Revision = Ok (OInt 7) /\
  get_prop (run ops []) Created = Ok (ODt (Some (mkDT 2001 2 3 4 5 6))) /\
  valid_cp (run ops []) = true.
Proof. split; [repeat constructor|]. vm_compute. repeat split. Qed.

Example C18_default_part_nonvacuous :
  let now := mkPydt (mkDT 2024 1 2 3 4 5) 678 None in
  valid_pydt now = true /\ (1000 <= dt_year (p_dt now))%Z.
Proof. vm_compute. split; [reflexivity|discriminate]. Qed.
