(** Lemmas for C13 (model/Placeholder.v).  The statements used by props/C13.v are at the
    end of each section; everything is generic in the tables [cfg]. *)
From Coq Require Import Permutation Sorted FinFun.
From V.lib Require Import Prelude.
From V.gen Require Import GenC13.
From V.model Require Import Placeholder.

Lemma no_unmodelled : n_unmodelled = 0%nat.
Proof. vm_compute. reflexivity. Qed.

(** * Decimal rendering is injective *)
Lemma dec_value_snoc ds d : dec_value (ds ++ [d]) = (dec_value ds * 10 + (d - 48))%N.
Proof. unfold dec_value. rewrite fold_left_app. reflexivity. Qed.

Lemma dec_digits_fuel_spec : forall f n acc, (n < 2 ^ N.of_nat f)%N ->
  exists ds, dec_digits_fuel f n acc = ds ++ acc /\ dec_value ds = n.
Proof.
  induction f as [|f IH]; intros n acc Hn.
  - simpl in Hn. exists []. split; [reflexivity|]. unfold dec_value; simpl. lia.
  - cbn [dec_digits_fuel]. destruct (N.ltb_spec n 10) as [Hlt|Hge].
    + exists [(48 + n mod 10)%N]. split; [reflexivity|].
      unfold dec_value; cbn [fold_left]. rewrite N.mod_small by lia. lia.
    + assert (Hdiv : (n / 10 < 2 ^ N.of_nat f)%N).
      { rewrite Nat2N.inj_succ, N.pow_succ_r' in Hn.
        apply N.div_lt_upper_bound; [lia|]. clear - Hn. set (X := (2 ^ N.of_nat f)%N) in *. clearbody X. lia. }
      destruct (IH (n / 10)%N ((48 + n mod 10)%N :: acc) Hdiv) as [ds [E V]].
      exists (ds ++ [(48 + n mod 10)%N]). split.
      * rewrite E, <- app_assoc. reflexivity.
      * rewrite dec_value_snoc, V.
        pose proof (N.div_mod n 10 ltac:(lia)) as H. clear - H.
        set (q := (n / 10)%N) in *. set (r := (n mod 10)%N) in *. clearbody q r. lia.
Qed.

Lemma dec_value_dec_of_N n : dec_value (dec_of_N n) = n.
Proof.
  unfold dec_of_N.
  destruct (dec_digits_fuel_spec (S (N.to_nat (N.size n))) n []) as [ds [E V]].
  - rewrite Nat2N.inj_succ, N2Nat.id, N.pow_succ_r'.
    pose proof (N.size_gt n). lia.
  - rewrite E, app_nil_r. exact V.
Qed.

Lemma dec_of_N_inj a b : dec_of_N a = dec_of_N b -> a = b.
Proof. intros H. rewrite <- (dec_value_dec_of_N a), <- (dec_value_dec_of_N b), H. reflexivity. Qed.

Lemma cand_inj base a b : cand base a = cand base b -> a = b.
Proof.
  unfold cand. intros H. apply app_inv_head in H. apply app_inv_head in H.
  apply dec_of_N_inj; exact H.
Qed.

(** * The naming loop *)
Lemma next_num_some : forall f base n names k, next_num f base n names = Some k ->
  ~ In (cand base k) names /\ (n <= k)%N /\
  forall j, (n <= j < k)%N -> In (cand base j) names.
Proof.
  induction f as [|f IH]; intros base n names k H; [discriminate|].
  cbn [next_num] in H. destruct (mem_str (cand base n) names) eqn:E.
  - apply IH in H. destruct H as [H1 [H2 H3]]. split; [exact H1|]. split; [lia|].
    intros j Hj. destruct (N.eq_dec j n) as [->|Hne].
    + apply mem_str_In; exact E.
    + apply H3; lia.
  - inversion H; subst k. split.
    + intros Hin. apply mem_str_In in Hin. congruence.
    + split; [lia|]. intros j Hj; lia.
Qed.

Lemma next_num_none : forall f base n names, next_num f base n names = None ->
  forall j, (j < f)%nat -> In (cand base (n + N.of_nat j)) names.
Proof.
  induction f as [|f IH]; intros base n names H j Hj; [lia|].
  cbn [next_num] in H. destruct (mem_str (cand base n) names) eqn:E; [|discriminate].
  destruct j as [|j].
  - rewrite N.add_0_r. apply mem_str_In; exact E.
  - replace (n + N.of_nat (S j))%N with (n + 1 + N.of_nat j)%N by lia.
    apply IH; [exact H | lia].
Qed.

(** the fuel [S (length names)] always suffices (pigeonhole over distinct candidates) *)
Lemma next_num_fuel base n names : next_num (S (length names)) base n names <> None.
Proof.
  intros H.
  pose proof (next_num_none _ _ _ _ H) as Hall.
  set (g := fun j : nat => cand base (n + N.of_nat j)).
  assert (Hinj : Injective g).
  { intros a b Hab. unfold g in Hab. apply cand_inj in Hab. lia. }
  assert (Hnd : NoDup (map g (seq 0 (S (length names))))).
  { apply Injective_map_NoDup; [exact Hinj | apply seq_NoDup]. }
  assert (Hincl : incl (map g (seq 0 (S (length names)))) names).
  { intros x Hx. apply in_map_iff in Hx. destruct Hx as [j [<- Hj]].
    apply in_seq in Hj. apply Hall. lia. }
  pose proof (NoDup_incl_length Hnd Hincl) as Hlen.
  rewrite map_length, seq_length in Hlen. lia.
Qed.

Lemma dict_get_ok {B} k (l : list (N * B)) v : dict_get k l = Ok v <-> assoc k l = Some v.
Proof. unfold dict_get. destruct (assoc k l); split; intros H; inversion H; reflexivity. Qed.

Lemma dict_get_err {B} k (l : list (N * B)) e : dict_get k l = Err e -> e = KeyErr /\ has_key k l = false.
Proof. unfold dict_get, has_key. destruct (assoc k l); intros H; inversion H; auto. Qed.

Lemma dict_get_keyerr_iff {B} k (l : list (N * B)) : dict_get k l = Err KeyErr <-> has_key k l = false.
Proof. unfold dict_get, has_key. destruct (assoc k l); split; intros H; try discriminate; reflexivity. Qed.

Lemma has_key_true {B} k (l : list (N * B)) : has_key k l = true -> exists v, dict_get k l = Ok v.
Proof. unfold dict_get, has_key. destruct (assoc k l) as [v|]; [eauto | discriminate]. Qed.

Lemma assoc_In {B} k (l : list (N * B)) : has_key k l = true <-> In k (map fst l).
Proof.
  unfold has_key. induction l as [|[k' v] l IH]; simpl.
  - split; [discriminate | tauto].
  - destruct (N.eqb_spec k' k) as [->|Hne].
    + split; auto.
    + rewrite IH. split; [auto | intros [H|H]; [congruence | exact H]].
Qed.

(** _next_ph_name: the result is not among the existing names; it fails exactly when the
    table has no entry for the type, and then with KeyError *)
Lemma next_ph_name_fresh tbl t id o names nm :
  next_ph_name tbl t id o names = Ok nm -> ~ In nm names.
Proof.
  unfold next_ph_name, ph_base. destruct (dict_get t tbl) as [b|e]; [|discriminate].
  cbn [bind]. destruct (next_num _ _ _ names) as [k|] eqn:E; [|discriminate].
  intros H; inversion H; subst nm. apply next_num_some in E. tauto.
Qed.

Lemma next_ph_name_total tbl t id o names :
  has_key t tbl = true -> exists nm, next_ph_name tbl t id o names = Ok nm.
Proof.
  intros Hk. apply has_key_true in Hk. destruct Hk as [b Hb].
  unfold next_ph_name, ph_base. rewrite Hb. cbn [bind].
  destruct (next_num _ _ _ names) as [k|] eqn:E; [eauto|].
  exfalso. eapply next_num_fuel; exact E.
Qed.

Lemma next_ph_name_err tbl t id o names e :
  next_ph_name tbl t id o names = Err e -> e = KeyErr /\ has_key t tbl = false.
Proof.
  unfold next_ph_name, ph_base. destruct (dict_get t tbl) as [b|e'] eqn:Hd.
  - cbn [bind]. destruct (next_num _ _ _ names) as [k|] eqn:E; [discriminate|].
    exfalso. eapply next_num_fuel; exact E.
  - cbn [bind]. intros H; inversion H; subst e'. eapply dict_get_err; exact Hd.
Qed.

(** the name is the base name (with the Vertical prefix when vertical), a separator and the
    least number, starting at id - offset, whose candidate is unused *)
Lemma next_ph_name_shape tbl t id o names nm :
  next_ph_name tbl t id o names = Ok nm ->
  exists b k, assoc t tbl = Some b /\
    nm = cand (if N.eqb o orient_vert then vertical_prefix ++ b else b) k /\
    (id - numpart_offset <= k)%N /\
    forall j, (id - numpart_offset <= j < k)%N ->
      In (cand (if N.eqb o orient_vert then vertical_prefix ++ b else b) j) names.
Proof.
  unfold next_ph_name, ph_base. destruct (dict_get t tbl) as [b|e] eqn:Hd; [|discriminate].
  cbn [bind]. destruct (next_num _ _ _ names) as [k|] eqn:E; [|discriminate].
  intros H; inversion H; subst nm. apply next_num_some in E. destruct E as [_ [H2 H3]].
  exists b, k. apply dict_get_ok in Hd. auto.
Qed.

(** * Ids *)
Lemma fold_max_ge_acc : forall l a, (a <= fold_left N.max l a)%N.
Proof. induction l as [|x l IH]; intros a; simpl; [lia|]. specialize (IH (N.max a x)). lia. Qed.

Lemma fold_max_ge_in : forall l a x, In x l -> (x <= fold_left N.max l a)%N.
Proof.
  induction l as [|y l IH]; intros a x Hin; [contradiction|]. simpl.
  destruct Hin as [->|Hin].
  - pose proof (fold_max_ge_acc l (N.max a x)). lia.
  - apply IH; exact Hin.
Qed.

Lemma max_id_ge k t x : In x (tree_ids k t) -> (x <= max_id k t)%N.
Proof. apply fold_max_ge_in. Qed.

(** * Cloning one placeholder *)
Lemma norm_get d v : match norm d v with Some x => x | None => d end = v.
Proof. unfold norm. destruct (N.eqb_spec v d); congruence. Qed.

Lemma key_new_placeholder_sp c id name p :
  exists p', s_ph (new_placeholder_sp c id name (ph_type p) (ph_orient p) (ph_sz p) (ph_idx p)) = Some p'
             /\ key p' = key p.
Proof.
  eexists; split; [reflexivity|].
  unfold key, ph_type, ph_idx, ph_orient, ph_sz; cbn [a_type a_idx a_orient a_sz].
  rewrite !norm_get. reflexivity.
Qed.

Lemma clone_placeholder_ok c k t p t' :
  clone_placeholder c k t p = Ok t' ->
  exists s, t' = t ++ [s] /\ cloned c p s /\
            ~ In (s_name s) (tree_names k t) /\ ~ In (s_id s) (tree_ids k t) /\
            s_id s = (max_id k t + 1)%N /\ has_key (ph_type p) (base_table c k) = true.
Proof.
  unfold clone_placeholder.
  destruct (next_ph_name _ _ _ _ _) as [nm|e] eqn:E; [|discriminate].
  cbn [bind]. intros H; inversion H; subst t'. eexists; split; [reflexivity|].
  split; [|split; [|split; [|split]]].
  - split; [apply key_new_placeholder_sp|]. cbn. auto.
  - cbn [s_name new_placeholder_sp]. eapply next_ph_name_fresh; exact E.
  - cbn [s_id new_placeholder_sp]. intros Hin. apply max_id_ge in Hin. lia.
  - reflexivity.
  - destruct (has_key (ph_type p) (base_table c k)) eqn:Hk; [reflexivity|].
    exfalso. unfold next_ph_name, ph_base in E.
    apply dict_get_keyerr_iff in Hk. rewrite Hk in E. discriminate.
Qed.

Lemma clone_placeholder_total c k t p :
  has_key (ph_type p) (base_table c k) = true -> exists t', clone_placeholder c k t p = Ok t'.
Proof.
  intros Hk. unfold clone_placeholder.
  destruct (next_ph_name_total _ _ (max_id k t + 1)%N (ph_orient p) (tree_names k t) Hk) as [nm ->].
  cbn [bind]. eauto.
Qed.

Lemma clone_placeholder_err c k t p e :
  clone_placeholder c k t p = Err e -> e = KeyErr /\ has_key (ph_type p) (base_table c k) = false.
Proof.
  unfold clone_placeholder.
  destruct (next_ph_name _ _ _ _ _) as [nm|e'] eqn:E; [discriminate|].
  cbn [bind]. intros H; inversion H; subst e'. eapply next_ph_name_err; exact E.
Qed.

(** * Cloning a list of placeholders *)
Lemma NoDup_snoc {A} (l : list A) x : NoDup l -> ~ In x l -> NoDup (l ++ [x]).
Proof.
  intros Hnd Hx. apply NoDup_rev in Hnd. rewrite <- (rev_involutive (l ++ [x])).
  apply NoDup_rev. rewrite rev_app_distr. cbn. constructor; [|exact Hnd].
  intros Hin. apply Hx. apply in_rev. exact Hin.
Qed.

Lemma clone_all_ok : forall c k ps t t',
  clone_all c k t ps = (t', Ok tt) ->
  exists new, t' = t ++ new /\ Forall2 (cloned c) ps new /\
    Forall (fun p => has_key (ph_type p) (base_table c k) = true) ps /\
    (NoDup (map s_name t) -> NoDup (map s_name t')) /\
    (NoDup (map s_id t) -> NoDup (map s_id t')) /\
    (forall s, In s new -> ~ In (s_name s) (tree_names k t) /\ ~ In (s_id s) (tree_ids k t)).
Proof.
  induction ps as [|p ps IH]; intros t t' H.
  - cbn in H. inversion H; subst t'. exists []. rewrite app_nil_r.
    repeat split; auto; try constructor; contradiction.
  - cbn [clone_all] in H. destruct (clone_placeholder c k t p) as [t1|e] eqn:E; [|discriminate].
    apply clone_placeholder_ok in E. destruct E as [s [-> [Hc [Hn [Hi [_ Hk]]]]]].
    apply IH in H. destruct H as [new [-> [HF [Hks [HN [HI Hfresh]]]]]].
    assert (Eq : (t ++ [s]) ++ new = t ++ s :: new) by (rewrite <- app_assoc; reflexivity).
    rewrite Eq in *. clear Eq.
    exists (s :: new).
    split; [reflexivity|]. split; [constructor; assumption|]. split; [constructor; assumption|].
    assert (Hn' : ~ In (s_name s) (map s_name t)).
    { intros X; apply Hn; unfold tree_names; apply in_or_app; right; exact X. }
    assert (Hi' : ~ In (s_id s) (map s_id t)).
    { intros X; apply Hi; unfold tree_ids; apply in_or_app; right; exact X. }
    split; [|split].
    + intros Hnd. apply HN. rewrite map_app. cbn [map].
      apply NoDup_snoc; assumption.
    + intros Hnd. apply HI. rewrite map_app. cbn [map].
      apply NoDup_snoc; assumption.
    + intros s' [<-|Hin]; [split; assumption|].
      destruct (Hfresh s' Hin) as [A B]. split.
      * intros X; apply A. unfold tree_names in *. rewrite map_app.
        apply in_app_or in X. destruct X as [X|X]; apply in_or_app; [left; exact X|right].
        apply in_or_app; left; exact X.
      * intros X; apply B. unfold tree_ids in *. rewrite map_app.
        apply in_app_or in X. destruct X as [X|X]; apply in_or_app; [left; exact X|right].
        apply in_or_app; left; exact X.
Qed.

Lemma clone_all_total : forall c k ps t,
  Forall (fun p => has_key (ph_type p) (base_table c k) = true) ps ->
  exists t', clone_all c k t ps = (t', Ok tt).
Proof.
  induction ps as [|p ps IH]; intros t HF.
  - eexists; reflexivity.
  - inversion HF; subst. cbn [clone_all].
    destruct (clone_placeholder_total c k t p H1) as [t1 ->]. apply IH; assumption.
Qed.

(** the loop stops at the FIRST placeholder whose type has no base name, with KeyError, and
    leaves the clones of the placeholders before it in the tree *)
Lemma clone_all_err : forall c k ps t t' e,
  clone_all c k t ps = (t', Err e) ->
  e = KeyErr /\ exists pre p post, ps = pre ++ p :: post /\
    has_key (ph_type p) (base_table c k) = false /\
    clone_all c k t pre = (t', Ok tt).
Proof.
  induction ps as [|p ps IH]; intros t t' e H.
  - cbn in H. discriminate.
  - cbn [clone_all] in H. destruct (clone_placeholder c k t p) as [t1|e1] eqn:E.
    + apply IH in H. destruct H as [-> [pre [q [post [-> [Hq Hpre]]]]]].
      split; [reflexivity|]. exists (p :: pre), q, post. split; [reflexivity|]. split; [exact Hq|].
      cbn [clone_all]. rewrite E. exact Hpre.
    + inversion H; subst. apply clone_placeholder_err in E. destruct E as [-> Hk].
      split; [reflexivity|]. exists [], p, ps. auto.
Qed.

Lemma clone_all_err_when_missing : forall c k ps t,
  Exists (fun p => has_key (ph_type p) (base_table c k) = false) ps ->
  exists t', clone_all c k t ps = (t', Err KeyErr).
Proof.
  induction ps as [|p ps IH]; intros t HE; [inversion HE|].
  cbn [clone_all]. destruct (clone_placeholder c k t p) as [t1|e1] eqn:E.
  - apply IH. inversion HE; subst; [|assumption].
    apply clone_placeholder_ok in E. destruct E as [s [_ [_ [_ [_ [_ Hk]]]]]]. congruence.
  - apply clone_placeholder_err in E. destruct E as [-> _]. eauto.
Qed.

Lemma clone_all_res : forall c k ps t, exists t' r, clone_all c k t ps = (t', r).
Proof. intros. destruct (clone_all c k t ps) as [t' r]. eauto. Qed.

(** * Lists of placeholder records *)
Lemma phs_app a b : phs (a ++ b) = phs a ++ phs b.
Proof. unfold phs. apply flat_map_app. Qed.

Lemma Forall2_cloned_keys c : forall ps new, Forall2 (cloned c) ps new ->
  map key (phs new) = map key ps /\ forallb is_ph new = true /\ length new = length ps.
Proof.
  induction 1 as [|p s ps new Hc HF IH]; [auto|].
  destruct IH as [IH1 [IH2 IH3]]. destruct Hc as [[p' [Hp Hk]] _].
  unfold phs in *. cbn [flat_map]. rewrite Hp. cbn [app map forallb length]. unfold is_ph at 1. rewrite Hp.
  rewrite Hk, IH1, IH2, IH3. auto.
Qed.

Lemma cloneable_filter c L :
  cloneable c L = filter (fun s => negb (has_type (c_latent c) s)) (placeholders L).
Proof.
  unfold cloneable, placeholders. induction L as [|s L IH]; [reflexivity|].
  cbn [filter]. destruct (is_ph s); cbn [andb filter]; rewrite IH; reflexivity.
Qed.

Lemma cloneable_all_ph c L : forallb is_ph (cloneable c L) = true.
Proof.
  unfold cloneable. apply forallb_forall. intros s Hs. apply filter_In in Hs.
  destruct Hs as [_ Hs]. apply andb_true_iff in Hs. tauto.
Qed.

(** on a list of placeholder shapes, [phs] is a map *)
Lemma phs_of_placeholders : forall t, forallb is_ph t = true ->
  Forall2 (fun s p => s_ph s = Some p) t (phs t).
Proof.
  induction t as [|s t IH]; intros H; [constructor|].
  cbn in H. apply andb_true_iff in H. destruct H as [Hs Ht].
  unfold phs; cbn [flat_map]. unfold is_ph in Hs. destruct (s_ph s) as [p|] eqn:E; [|discriminate].
  cbn [app]. constructor; [exact E | apply IH; exact Ht].
Qed.

(** * add_slide *)
Lemma Forall2_comp {A B C} (R1 : A -> B -> Prop) (R2 : B -> C -> Prop) :
  forall a b c, Forall2 R1 a b -> Forall2 R2 b c ->
  Forall2 (fun x z => exists y, R1 x y /\ R2 y z) a c.
Proof.
  induction a as [|x a IH]; intros b c H1 H2; inversion H1; subst; inversion H2; subst; constructor; eauto.
Qed.

Lemma Forall2_impl_in {A B} (R Q : A -> B -> Prop) : forall a b,
  Forall2 R a b -> (forall x y, In x a -> In y b -> R x y -> Q x y) -> Forall2 Q a b.
Proof.
  induction 1 as [|x y a b HR HF IH]; intros HQ; constructor.
  - apply HQ; simpl; auto.
  - apply IH. intros; apply HQ; simpl; auto.
Qed.

Lemma new_tree_ok c k src t :
  forallb is_ph src = true ->
  clone_all c k [] (phs src) = (t, Ok tt) ->
  Forall2 (clone_of c) src t /\ NoDup (map s_name t) /\ NoDup (map s_id t) /\
  (forall s, In s t -> ~ In (s_name s) (tmpl_names k) /\ ~ In (s_id s) (tmpl_ids k)).
Proof.
  intros Hph H. apply clone_all_ok in H.
  destruct H as [new [-> [HF [_ [HN [HI Hfr]]]]]]. cbn [app].
  split; [|split; [|split]].
  - pose proof (Forall2_comp _ _ _ _ _ (phs_of_placeholders src Hph) HF) as HC.
    eapply Forall2_impl_in; [exact HC|]. intros x y _ _ [p [H1 H2]]. exists p; auto.
  - apply HN. constructor.
  - apply HI. constructor.
  - intros s Hs. destruct (Hfr s Hs) as [A B]. unfold tree_names, tree_ids in *.
    cbn [map] in *. rewrite app_nil_r in *. auto.
Qed.

Lemma add_slide_ok c d l d' :
  add_slide c d l = (d', Ok tt) ->
  exists L s, nth_error (d_layouts d) l = Some L /\
    d' = set_slides d (d_slides d ++ [s]) /\
    sl_layout s = l /\ sl_notes s = None /\
    Forall2 (clone_of c) (cloneable c (l_shapes L)) (sl_shapes s) /\
    NoDup (map s_name (sl_shapes s)) /\ NoDup (map s_id (sl_shapes s)).
Proof.
  unfold add_slide, new_slide_tree. destruct (nth_error (d_layouts d) l) as [L|] eqn:EL; [|discriminate].
  destruct (clone_all c KSlide [] (phs (cloneable c (l_shapes L)))) as [t r] eqn:E.
  destruct r as [[]|e]; intros H; inversion H; subst d'.
  apply new_tree_ok in E; [|apply cloneable_all_ph]. destruct E as [HF [HN [HI _]]].
  exists L, (mk_slide l t None). cbn. auto 10.
Qed.

Lemma add_slide_ok_iff c d l :
  (exists d', add_slide c d l = (d', Ok tt)) <->
  exists L, nth_error (d_layouts d) l = Some L /\
    Forall (fun p => has_key (ph_type p) (c_base_slide c) = true) (phs (cloneable c (l_shapes L))).
Proof.
  unfold add_slide, new_slide_tree. split.
  - intros [d' H]. destruct (nth_error (d_layouts d) l) as [L|]; [|discriminate].
    exists L. split; [reflexivity|].
    destruct (clone_all c KSlide [] (phs (cloneable c (l_shapes L)))) as [t r] eqn:E.
    destruct r as [[]|e]; [|discriminate].
    apply clone_all_ok in E. destruct E as [new [_ [_ [Hk _]]]]. exact Hk.
  - intros [L [-> HF]].
    destruct (clone_all_total c KSlide _ [] HF) as [t ->]. eauto.
Qed.

(** the failing case: KeyError for the first cloneable placeholder whose type has no base name;
    the deck keeps its slides, and gains a related but unlisted slide part holding the clones
    made so far, numbered as the next slide *)
Lemma add_slide_err c d l d' e :
  add_slide c d l = (d', Err e) ->
  (e = IndexErr /\ nth_error (d_layouts d) l = None /\ d' = d) \/
  (e = KeyErr /\ exists L s pre p post,
     nth_error (d_layouts d) l = Some L /\
     d' = set_orphans d (d_orphans d ++ [((N.of_nat (length (d_slides d)) + 1)%N, s)]) /\
     sl_layout s = l /\
     phs (cloneable c (l_shapes L)) = pre ++ p :: post /\
     has_key (ph_type p) (c_base_slide c) = false /\
     Forall2 (cloned c) pre (sl_shapes s)).
Proof.
  unfold add_slide, new_slide_tree. destruct (nth_error (d_layouts d) l) as [L|] eqn:EL.
  - destruct (clone_all c KSlide [] (phs (cloneable c (l_shapes L)))) as [t r] eqn:E.
    destruct r as [[]|e0]; intros H; inversion H; subst d' e0. right.
    apply clone_all_err in E. destruct E as [-> [pre [p [post [Hps [Hk Hpre]]]]]].
    split; [reflexivity|]. exists L, (mk_slide l t None), pre, p, post.
    apply clone_all_ok in Hpre. destruct Hpre as [new [-> [HF _]]]. cbn. auto 10.
  - intros H; inversion H; subst. left. auto.
Qed.

Lemma add_slide_keyerr_when_missing c d l L :
  nth_error (d_layouts d) l = Some L ->
  Exists (fun p => has_key (ph_type p) (c_base_slide c) = false) (phs (cloneable c (l_shapes L))) ->
  exists d', add_slide c d l = (d', Err KeyErr) /\ d_slides d' = d_slides d /\
             length (d_orphans d') = S (length (d_orphans d)).
Proof.
  intros EL HE. unfold add_slide, new_slide_tree. rewrite EL.
  destruct (clone_all_err_when_missing c KSlide _ [] HE) as [t ->].
  eexists; split; [reflexivity|]. cbn. rewrite app_length. cbn. split; [reflexivity|lia].
Qed.

(** frame: whatever the outcome, layouts, masters and the notes master are untouched and the
    slides already present stay, in order, at the front *)
Lemma add_slide_frame c d l d' r :
  add_slide c d l = (d', r) ->
  d_layouts d' = d_layouts d /\ d_masters d' = d_masters d /\ d_notes_master d' = d_notes_master d /\
  firstn (length (d_slides d)) (d_slides d') = d_slides d /\
  (forall e, r = Err e -> d_slides d' = d_slides d) /\
  (r = Ok tt -> d_orphans d' = d_orphans d /\ length (d_slides d') = S (length (d_slides d))).
Proof.
  unfold add_slide, new_slide_tree. destruct (nth_error (d_layouts d) l) as [L|].
  - destruct (clone_all c KSlide [] (phs (cloneable c (l_shapes L)))) as [t [[]|e0]];
      intros H; inversion H; subst; cbn.
    + rewrite firstn_app, Nat.sub_diag, firstn_all, app_length. cbn. rewrite app_nil_r.
      repeat split; auto; try discriminate; lia.
    + rewrite firstn_all. repeat split; auto; discriminate.
  - intros H; inversion H; subst. rewrite firstn_all. repeat split; auto; discriminate.
Qed.

(** * Inherited geometry *)
Lemma layout_get_find L i : layout_get L i = find (idx_pred i) L.
Proof. reflexivity. Qed.

Lemma find_first {A} (f : A -> bool) : forall l x, find f l = Some x ->
  exists pre post, l = pre ++ x :: post /\ f x = true /\ forallb (fun y => negb (f y)) pre = true.
Proof.
  induction l as [|y l IH]; intros x H; [discriminate|]. cbn in H.
  destruct (f y) eqn:E.
  - inversion H; subst. exists [], l. auto.
  - destruct (IH x H) as [pre [post [-> [Hx Hp]]]]. exists (y :: pre), post.
    cbn. rewrite E. auto.
Qed.

Lemma find_none_in {A} (f : A -> bool) l x : find f l = None -> In x l -> f x = false.
Proof. intros H Hin. eapply find_none; eauto. Qed.

Lemma first_with_idx_spec Ls lp :
  In lp Ls -> is_ph lp = true ->
  exists pre post, Ls = pre ++ first_with_idx Ls lp :: post /\
    is_ph (first_with_idx Ls lp) = true /\ sh_idx (first_with_idx Ls lp) = sh_idx lp /\
    forall y, In y pre -> is_ph y = true -> sh_idx y <> sh_idx lp.
Proof.
  intros Hin Hph. unfold first_with_idx. rewrite layout_get_find.
  destruct (find (idx_pred (sh_idx lp)) Ls) as [x|] eqn:E.
  - apply find_first in E. destruct E as [pre [post [-> [Hx Hpre]]]].
    exists pre, post. split; [reflexivity|].
    unfold idx_pred in Hx. unfold is_ph, sh_idx at 1.
    destruct (s_ph x) as [p|]; [|discriminate]. apply N.eqb_eq in Hx.
    split; [reflexivity|]. split; [exact Hx|].
    intros y Hy Hyph Heq. rewrite forallb_forall in Hpre. specialize (Hpre y Hy).
    unfold idx_pred, is_ph, sh_idx in *. destruct (s_ph y) as [q|]; [|discriminate].
    rewrite Heq, N.eqb_refl in Hpre. discriminate.
  - exfalso. pose proof (find_none_in _ _ _ E Hin) as Hf.
    unfold idx_pred, is_ph, sh_idx in *. destruct (s_ph lp); [|discriminate].
    rewrite N.eqb_refl in Hf. discriminate.
Qed.

Lemma NoDup_map_eq {A B} (f : A -> B) : forall l x y,
  NoDup (map f l) -> In x l -> In y l -> f x = f y -> x = y.
Proof.
  induction l as [|z l IH]; intros x y Hnd Hx Hy Hf; [contradiction|].
  cbn in Hnd. inversion Hnd as [|? ? Hz Hnd']; subst.
  destruct Hx as [->|Hx]; destruct Hy as [->|Hy]; auto.
  - exfalso. apply Hz. rewrite Hf. apply in_map; exact Hy.
  - exfalso. apply Hz. rewrite <- Hf. apply in_map; exact Hx.
Qed.

(** with idx values unique among the placeholders of the layout, that first match is the
    placeholder itself *)
Lemma first_with_idx_unique Ls lp :
  NoDup (map sh_idx (placeholders Ls)) -> In lp Ls -> is_ph lp = true ->
  first_with_idx Ls lp = lp.
Proof.
  intros Hnd Hin Hph. destruct (first_with_idx_spec Ls lp Hin Hph) as [pre [post [E [Hx [Hi _]]]]].
  apply (NoDup_map_eq sh_idx (placeholders Ls)); auto.
  - unfold placeholders. apply filter_In. split; [|exact Hx]. rewrite E at 2.
    apply in_or_app; right; left; reflexivity.
  - unfold placeholders. apply filter_In. auto.
Qed.

Lemma cloned_own c p sp a : cloned c p sp -> own a sp = None.
Proof. intros [_ [Ho [He _]]]. destruct a; cbn; rewrite ?Ho, ?He; reflexivity. Qed.

Lemma key_idx p q : key p = key q -> ph_idx p = ph_idx q.
Proof. unfold key. intros H; inversion H; reflexivity. Qed.
Lemma key_type p q : key p = key q -> ph_type p = ph_type q.
Proof. unfold key. intros H; inversion H; reflexivity. Qed.

(** a fresh clone of [lp] on a slide whose layout tree is [Ls] reports, for every attribute,
    the effective value of the first placeholder of [Ls] with the idx of [lp] *)
Lemma clone_inherits c a M Ls lp sp :
  In lp Ls -> clone_of c lp sp ->
  slide_eff c a M Ls sp = layout_eff c a M (first_with_idx Ls lp).
Proof.
  intros Hin [p [Hlp Hc]]. unfold slide_eff, slide_inh. rewrite (cloned_own c p sp a Hc).
  destruct Hc as [[p' [Hsp Hk]] _]. rewrite Hsp.
  unfold first_with_idx, sh_idx. rewrite Hlp, (key_idx _ _ Hk).
  destruct (layout_get Ls (ph_idx p)) as [x|] eqn:E; [reflexivity|].
  exfalso. rewrite layout_get_find in E. pose proof (find_none_in _ _ _ E Hin) as Hf.
  unfold idx_pred in Hf. rewrite Hlp, N.eqb_refl in Hf. discriminate.
Qed.

Lemma cloneable_in c L s : In s (cloneable c L) -> In s L /\ is_ph s = true.
Proof.
  unfold cloneable. intros H. apply filter_In in H. destruct H as [H1 H2].
  apply andb_true_iff in H2. tauto.
Qed.

Lemma layout_tree_frame d d' l : d_layouts d' = d_layouts d -> layout_tree d' l = layout_tree d l.
Proof. unfold layout_tree. intros ->. reflexivity. Qed.
Lemma master_tree_frame d d' l : d_layouts d' = d_layouts d -> d_masters d' = d_masters d ->
  master_tree d' l = master_tree d l.
Proof. unfold master_tree. intros -> ->. reflexivity. Qed.

Lemma add_slide_inherit c d l d' :
  add_slide c d l = (d', Ok tt) ->
  exists L s, nth_error (d_layouts d) l = Some L /\ d_slides d' = d_slides d ++ [s] /\
    Forall2 (fun lp sp => forall a,
               slide_geom c d' s a sp =
               layout_eff c a (master_tree d l) (first_with_idx (l_shapes L) lp))
            (cloneable c (l_shapes L)) (sl_shapes s).
Proof.
  intros H. destruct (add_slide_ok _ _ _ _ H) as [L [s [EL [-> [Hl [_ [HF _]]]]]]].
  exists L, s. split; [exact EL|]. split; [reflexivity|].
  eapply Forall2_impl_in; [exact HF|]. intros lp sp Hin _ Hc a.
  unfold slide_geom. rewrite Hl.
  unfold layout_tree, master_tree. cbn [d_layouts d_masters set_slides]. rewrite EL.
  apply clone_inherits; [|exact Hc]. apply (cloneable_in c); exact Hin.
Qed.

(** reading of [layout_eff]: own value, else the master placeholder of the mapped type; the
    dict lookup is done before the master is consulted *)
Lemma layout_eff_own c a M lp v : own a lp = Some v -> layout_eff c a M lp = Ok (Some v).
Proof. unfold layout_eff. intros ->. reflexivity. Qed.

Lemma layout_eff_master c a M lp p bt :
  own a lp = None -> s_ph lp = Some p -> assoc (ph_type p) (c_lmmap c) = Some bt ->
  layout_eff c a M lp = Ok (match master_get M bt with Some mp => own a mp | None => None end).
Proof.
  unfold layout_eff, layout_inh, dict_get. intros -> -> ->. cbn [bind]. destruct (master_get M bt); reflexivity.
Qed.

Lemma layout_eff_keyerr c a M lp p :
  own a lp = None -> s_ph lp = Some p -> has_key (ph_type p) (c_lmmap c) = false ->
  layout_eff c a M lp = Err KeyErr.
Proof.
  unfold layout_eff, layout_inh. intros -> -> Hk. apply dict_get_keyerr_iff in Hk. rewrite Hk. reflexivity.
Qed.

Lemma layout_eff_err c a M lp e : layout_eff c a M lp = Err e ->
  e = KeyErr /\ own a lp = None /\ exists p, s_ph lp = Some p /\ has_key (ph_type p) (c_lmmap c) = false.
Proof.
  unfold layout_eff, layout_inh. destruct (own a lp); [discriminate|]. destruct (s_ph lp) as [p|]; [|discriminate].
  destruct (dict_get (ph_type p) (c_lmmap c)) as [bt|e'] eqn:E; cbn [bind].
  - destruct (master_get M bt); discriminate.
  - intros H; inversion H; subst. apply dict_get_err in E. destruct E as [-> Hk]. eauto.
Qed.

(** live inheritance, in any deck state: while a slide placeholder has no own value for an
    attribute it reports what the current layout tree gives for its idx *)
Lemma slide_eff_unset c a M Ls sp p :
  s_ph sp = Some p -> own a sp = None ->
  slide_eff c a M Ls sp =
  match layout_get Ls (ph_idx p) with Some lp => layout_eff c a M lp | None => Ok None end.
Proof. unfold slide_eff, slide_inh. intros -> ->. reflexivity. Qed.

Lemma slide_eff_own c a M Ls sp v : own a sp = Some v -> slide_eff c a M Ls sp = Ok (Some v).
Proof. unfold slide_eff. intros ->. reflexivity. Qed.

(** * Setting a dimension *)
Lemma set_attr_ok a v s s' :
  set_attr a v s = (s', Ok tt) ->
  coord_ok a v = true /\ own a s' = Some v /\
  s_ph s' = s_ph s /\ s_id s' = s_id s /\ s_name s' = s_name s /\
  (forall b, same_pair a b = false -> own b s' = own b s) /\
  (forall b, same_pair a b = true -> b <> a ->
     own b s' = Some (match own b s with Some x => x | None => 0%Z end)).
Proof.
  unfold set_attr. destruct (coord_ok a v) eqn:E; intros H; inversion H; subst s'; clear H.
  split; [reflexivity|].
  destruct s as [i n p [[x y]|] [[w h]|] t]; destruct a; cbn;
    (split; [reflexivity|]); repeat (split; [reflexivity|]);
    (split; [intros b Hb; destruct b; cbn in *; try discriminate; reflexivity
            |intros b Hb Hne; destruct b; cbn in *; try discriminate; try reflexivity; congruence]).
Qed.

(** a rejected value changes nothing at all *)
Lemma set_attr_err a v s s' e :
  set_attr a v s = (s', Err e) ->
  e = ValueErr /\ coord_ok a v = false /\ s' = s.
Proof.
  unfold set_attr. destruct (coord_ok a v) eqn:E; intros H; inversion H; subst. auto.
Qed.

Lemma set_attr_rejected a v s : coord_ok a v = false -> set_attr a v s = (s, Err ValueErr).
Proof. unfold set_attr. intros ->. reflexivity. Qed.

(** * Notes slides *)
Lemma memN_In c l : memN c l = true <-> In c l.
Proof.
  unfold memN. rewrite existsb_exists. split.
  - intros [x [Hx He]]. apply N.eqb_eq in He. subst; exact Hx.
  - intros H. exists c. split; [exact H | apply N.eqb_refl].
Qed.

Lemma first_with_type_spec NM mp :
  In mp NM -> is_ph mp = true ->
  exists pre post, NM = pre ++ first_with_type NM mp :: post /\
    is_ph (first_with_type NM mp) = true /\ sh_type (first_with_type NM mp) = sh_type mp /\
    forall y, In y pre -> is_ph y = true -> sh_type y <> sh_type mp.
Proof.
  intros Hin Hph. unfold first_with_type, master_get.
  change (fun s : shape => match s_ph s with Some p => N.eqb (ph_type p) (sh_type mp) | None => false end)
    with (type_pred (sh_type mp)).
  destruct (find (type_pred (sh_type mp)) NM) as [x|] eqn:E.
  - apply find_first in E. destruct E as [pre [post [-> [Hx Hpre]]]].
    exists pre, post. split; [reflexivity|].
    unfold type_pred in Hx. unfold is_ph, sh_type at 1.
    destruct (s_ph x) as [p|]; [|discriminate]. apply N.eqb_eq in Hx.
    split; [reflexivity|]. split; [exact Hx|].
    intros y Hy Hyph Heq. rewrite forallb_forall in Hpre. specialize (Hpre y Hy).
    unfold type_pred, is_ph, sh_type in *. destruct (s_ph y) as [q|]; [|discriminate].
    rewrite Heq, N.eqb_refl in Hpre. discriminate.
  - exfalso. pose proof (find_none_in _ _ _ E Hin) as Hf.
    unfold type_pred, is_ph, sh_type in *. destruct (s_ph mp); [|discriminate].
    rewrite N.eqb_refl in Hf. discriminate.
Qed.

Lemma first_with_type_unique NM mp :
  NoDup (map sh_type (placeholders NM)) -> In mp NM -> is_ph mp = true ->
  first_with_type NM mp = mp.
Proof.
  intros Hnd Hin Hph. destruct (first_with_type_spec NM mp Hin Hph) as [pre [post [E [Hx [Hi _]]]]].
  apply (NoDup_map_eq sh_type (placeholders NM)); auto.
  - unfold placeholders. apply filter_In. split; [|exact Hx]. rewrite E at 2.
    apply in_or_app; right; left; reflexivity.
  - unfold placeholders. apply filter_In. auto.
Qed.

Lemma notes_clone_inherits c a NM mp sp :
  In mp NM -> clone_of c mp sp -> notes_eff a NM sp = own a (first_with_type NM mp).
Proof.
  intros Hin [p [Hmp Hc]]. unfold notes_eff, notes_inh. rewrite (cloned_own c p sp a Hc).
  destruct Hc as [[p' [Hsp Hk]] _]. rewrite Hsp.
  unfold first_with_type, sh_type. rewrite Hmp, (key_type _ _ Hk).
  destruct (master_get NM (ph_type p)) as [x|] eqn:E; [reflexivity|].
  exfalso. unfold master_get in E. pose proof (find_none_in _ _ _ E Hin) as Hf.
  cbn in Hf. rewrite Hmp, N.eqb_refl in Hf. discriminate.
Qed.

Lemma notes_cloneable_in c NM s : In s (notes_cloneable_of c NM) ->
  In s NM /\ is_ph s = true /\ has_type (c_notes_cloneable c) s = true.
Proof.
  unfold notes_cloneable_of. intros H. apply filter_In in H. destruct H as [H1 H2].
  apply andb_true_iff in H2. tauto.
Qed.

Lemma notes_cloneable_all_ph c NM : forallb is_ph (notes_cloneable_of c NM) = true.
Proof. apply forallb_forall. intros s Hs. apply notes_cloneable_in in Hs. tauto. Qed.

Lemma notes_cloneable_filter c NM :
  notes_cloneable_of c NM = filter (has_type (c_notes_cloneable c)) (placeholders NM).
Proof.
  unfold notes_cloneable_of, placeholders. induction NM as [|s L IH]; [reflexivity|].
  cbn [filter]. destruct (is_ph s); cbn [andb filter]; rewrite IH; reflexivity.
Qed.

Lemma notes_types_have_names c NM :
  Forall (fun t => has_key t (c_base_notes c) = true) (c_notes_cloneable c) ->
  Forall (fun p => has_key (ph_type p) (c_base_notes c) = true) (phs (notes_cloneable_of c NM)).
Proof.
  intros Htot. pose proof (phs_of_placeholders _ (notes_cloneable_all_ph c NM)) as HF.
  assert (Hall : Forall (fun s => has_type (c_notes_cloneable c) s = true) (notes_cloneable_of c NM)).
  { apply Forall_forall. intros s Hs. apply notes_cloneable_in in Hs. tauto. }
  revert Hall. induction HF as [|s p ss ps Hs HF IH]; intros Hall; [constructor|].
  inversion Hall; subst. constructor; [|apply IH; assumption].
  unfold has_type in H1. rewrite Hs in H1. apply memN_In in H1.
  rewrite Forall_forall in Htot. apply Htot; exact H1.
Qed.

(** creating the notes slide of slide number [s] (it has none yet): never fails when the
    notes base-name table covers the cloneable types; the result is explicit, so the frame
    (other slides, layouts, masters untouched; notes master created from the default
    template when absent) can be read off *)
Lemma notes_slide_new c d s sl :
  nth_error (d_slides d) s = Some sl -> sl_notes sl = None ->
  Forall (fun t => has_key t (c_base_notes c) = true) (c_notes_cloneable c) ->
  exists nt,
    notes_slide c d s =
      (set_slides (ensure_notes_master d)
         (upd_nth s (fun x => mk_slide (sl_layout x) (sl_shapes x) (Some nt)) (d_slides d)), Ok tt) /\
    Forall2 (clone_of c) (notes_cloneable_of c (the_notes_master d)) nt /\
    NoDup (map s_name nt) /\ NoDup (map s_id nt) /\
    Forall2 (fun mp sp => forall a, notes_eff a (the_notes_master d) sp =
                                    own a (first_with_type (the_notes_master d) mp))
            (notes_cloneable_of c (the_notes_master d)) nt.
Proof.
  intros Hs Hn Htot. unfold notes_slide, new_notes_tree. rewrite Hs, Hn.
  destruct (clone_all_total c KNotes _ [] (notes_types_have_names c (the_notes_master d) Htot)) as [t E].
  rewrite E. exists t. split; [reflexivity|].
  apply new_tree_ok in E; [|apply notes_cloneable_all_ph]. destruct E as [HF [HN [HI _]]].
  repeat split; auto.
  eapply Forall2_impl_in; [exact HF|]. intros mp sp Hin _ Hc a.
  apply (notes_clone_inherits c); [|exact Hc]. apply notes_cloneable_in in Hin. tauto.
Qed.

Lemma notes_slide_existing c d s sl nt :
  nth_error (d_slides d) s = Some sl -> sl_notes sl = Some nt -> notes_slide c d s = (d, Ok tt).
Proof. intros Hs Hn. unfold notes_slide. rewrite Hs, Hn. reflexivity. Qed.

Lemma nth_error_upd_nth_same {A} (f : A -> A) : forall l n,
  nth_error (upd_nth n f l) n = option_map f (nth_error l n).
Proof. induction l as [|x l IH]; intros [|n]; cbn; auto. Qed.

Lemma nth_error_upd_nth_other {A} (f : A -> A) : forall l n m, n <> m ->
  nth_error (upd_nth n f l) m = nth_error l m.
Proof.
  induction l as [|x l IH]; intros [|n] [|m] H; cbn; auto; try congruence.
Qed.

Lemma length_upd_nth {A} (f : A -> A) : forall l n, length (upd_nth n f l) = length l.
Proof. induction l as [|x l IH]; intros [|n]; cbn; auto. Qed.

Lemma map_upd_nth_preserve {A B} (g : A -> B) (f : A -> A) :
  (forall x, g (f x) = g x) -> forall l n, map g (upd_nth n f l) = map g l.
Proof.
  intros H. induction l as [|x l IH]; intros [|n]; cbn; auto; rewrite ?H, ?IH; reflexivity.
Qed.

(** * Histories *)
Lemma step_slides_prefix c d o d' r :
  step c d o = (d', r) ->
  exists suf, map sl_layout (d_slides d') = map sl_layout (d_slides d) ++ suf /\ (length suf <= 1)%nat.
Proof.
  assert (Hsame : forall d2 : deck, d_slides d2 = d_slides d ->
            exists suf, map sl_layout (d_slides d2) = map sl_layout (d_slides d) ++ suf /\ (length suf <= 1)%nat).
  { intros d2 ->. exists []. rewrite app_nil_r. split; [reflexivity | cbn; lia]. }
  assert (Hupd : forall (d2 : deck) n f, (forall x, sl_layout (f x) = sl_layout x) ->
            d_slides d2 = upd_nth n f (d_slides d) ->
            exists suf, map sl_layout (d_slides d2) = map sl_layout (d_slides d) ++ suf /\ (length suf <= 1)%nat).
  { intros d2 n f Hf ->. exists []. rewrite app_nil_r, map_upd_nth_preserve by exact Hf.
    split; [reflexivity | cbn; lia]. }
  destruct o as [l|s|tg e|s x y cx cy|s l i]; cbn [step].
  - unfold add_slide. destruct (nth_error (d_layouts d) l) as [L|].
    + destruct (new_slide_tree c (l_shapes L)) as [t [[]|e0]]; intros H; inversion H; subst; cbn.
      * exists [l]. rewrite map_app. cbn. split; [reflexivity|lia].
      * apply Hsame; reflexivity.
    + intros H; inversion H; subst. apply Hsame; reflexivity.
  - unfold notes_slide. destruct (nth_error (d_slides d) s) as [sl|]; [|intros H; inversion H; subst; apply Hsame; reflexivity].
    destruct (sl_notes sl); [intros H; inversion H; subst; apply Hsame; reflexivity|].
    destruct (new_notes_tree c (the_notes_master d)) as [t [[]|e0]]; intros H; inversion H; subst.
    + eapply Hupd; [|reflexivity]. reflexivity.
    + apply Hsame; reflexivity.
  - destruct tg as [s i|s i|l i|m i|i].
    + destruct (nth_error (d_slides d) s) as [sl|]; [|intros H; inversion H; subst; apply Hsame; reflexivity].
      destruct (edit_tree _ (sl_shapes sl) i e) as [t r0]. intros H; inversion H; subst.
      eapply Hupd; [|reflexivity]. reflexivity.
    + destruct (nth_error (d_slides d) s) as [sl|]; [|intros H; inversion H; subst; apply Hsame; reflexivity].
      destruct (sl_notes sl) as [nt|]; [|intros H; inversion H; subst; apply Hsame; reflexivity].
      destruct (edit_tree _ nt i e) as [t r0]. intros H; inversion H; subst.
      eapply Hupd; [|reflexivity]. reflexivity.
    + destruct (nth_error (d_layouts d) l) as [L|]; [|intros H; inversion H; subst; apply Hsame; reflexivity].
      destruct (edit_tree _ (l_shapes L) i e) as [t r0]. intros H; inversion H; subst. apply Hsame; reflexivity.
    + destruct (nth_error (d_masters d) m) as [M|]; [|intros H; inversion H; subst; apply Hsame; reflexivity].
      destruct (edit_tree _ M i e) as [t r0]. intros H; inversion H; subst. apply Hsame; reflexivity.
    + destruct (edit_tree _ (the_notes_master d) i e) as [t r0]. intros H; inversion H; subst. apply Hsame; reflexivity.
  - destruct (nth_error (d_slides d) s) as [sl|]; intros H; inversion H; subst.
    + eapply Hupd; [|reflexivity]. reflexivity.
    + apply Hsame; reflexivity.
  - destruct (nth_error (d_slides d) s) as [sl|]; [|intros H; inversion H; subst; apply Hsame; reflexivity].
    destruct (nth_error (d_layouts d) l) as [L|]; [|intros H; inversion H; subst; apply Hsame; reflexivity].
    destruct (nth_error (phs (l_shapes L)) i) as [p|]; [|intros H; inversion H; subst; apply Hsame; reflexivity].
    destruct (clone_placeholder c KSlide (sl_shapes sl) p) as [t|e0]; intros H; inversion H; subst.
    + eapply Hupd; [|reflexivity]. reflexivity.
    + apply Hsame; reflexivity.
Qed.

(** over any history: slides are only ever appended; the slides present at the start stay
    at the front in their order and every slide keeps its layout *)
Lemma history_slides_prefix c : forall ops d,
  exists suf, map sl_layout (d_slides (final c d ops)) = map sl_layout (d_slides d) ++ suf /\
              (length suf <= length ops)%nat.
Proof.
  unfold final. induction ops as [|o ops IH]; intros d.
  - exists []. cbn. rewrite app_nil_r. auto.
  - cbn [run_ops]. destruct (step c d o) as [d1 r] eqn:E.
    destruct (step_slides_prefix _ _ _ _ _ E) as [s1 [H1 L1]].
    destruct (IH d1) as [s2 [H2 L2]].
    destruct (run_ops c d1 ops) as [d2 rs]. cbn [fst] in *.
    exists (s1 ++ s2). rewrite H2, H1, <- app_assoc, app_length. split; [reflexivity|cbn; lia].
Qed.

(** * slide.placeholders: the shape-tree placeholders, stably sorted by idx *)
Lemma ins_idx_perm x : forall l, Permutation (ins_idx x l) (x :: l).
Proof.
  induction l as [|y l IH]; cbn; [reflexivity|].
  destruct (sh_idx y <? sh_idx x)%N; [|reflexivity].
  rewrite IH. apply perm_swap.
Qed.

Lemma slide_placeholders_perm t : Permutation (slide_placeholders t) (placeholders t).
Proof.
  unfold slide_placeholders. induction (placeholders t) as [|x l IH]; cbn; [reflexivity|].
  rewrite ins_idx_perm. constructor. exact IH.
Qed.

Lemma ins_idx_hd x y l : idx_le y x -> HdRel idx_le y l -> HdRel idx_le y (ins_idx x l).
Proof.
  intros Hyx H. destruct l as [|z l]; cbn; [constructor; exact Hyx|].
  destruct (sh_idx z <? sh_idx x)%N; constructor; [|exact Hyx].
  inversion H; assumption.
Qed.

Lemma ins_idx_sorted x : forall l, Sorted idx_le l -> Sorted idx_le (ins_idx x l).
Proof.
  induction l as [|y l IH]; intros H; cbn; [repeat constructor|].
  inversion H as [|? ? Hs Hh]; subst.
  destruct (N.ltb_spec (sh_idx y) (sh_idx x)) as [Hlt|Hge].
  - constructor; [apply IH; exact Hs|]. apply ins_idx_hd; [unfold idx_le; lia | exact Hh].
  - constructor; [exact H|]. constructor. unfold idx_le; lia.
Qed.

Lemma slide_placeholders_sorted t : Sorted idx_le (slide_placeholders t).
Proof.
  unfold slide_placeholders. induction (placeholders t) as [|x l IH]; cbn; [constructor|].
  apply ins_idx_sorted; exact IH.
Qed.

(** when the tree order is already non-decreasing in idx the view IS the tree order *)
Lemma sort_sorted_id : forall l, Sorted idx_le l -> fold_right ins_idx [] l = l.
Proof.
  induction l as [|x l IH]; intros H; [reflexivity|]. cbn.
  inversion H as [|? ? Hs Hh]; subst. rewrite (IH Hs).
  destruct l as [|y l]; [reflexivity|]. cbn. inversion Hh as [|? ? Hxy]; subst.
  unfold idx_le in Hxy. destruct (N.ltb_spec (sh_idx y) (sh_idx x)); [lia | reflexivity].
Qed.

Lemma slide_placeholders_id t : Sorted idx_le (placeholders t) -> slide_placeholders t = placeholders t.
Proof. apply sort_sorted_id. Qed.

(** * The literal dicts are partial *)
Lemma missing_spec {B} (tbl : list (N * B)) t :
  In t (missing tbl) <-> In t all_ph_types /\ has_key t tbl = false.
Proof.
  unfold missing. rewrite filter_In. split; intros [H1 H2]; split; auto.
  - apply negb_true_iff in H2; exact H2.
  - rewrite H2; reflexivity.
Qed.

Lemma partial_exact :
  missing basename_slide = py_missing_basename_slide /\
  missing basename_notes = py_missing_basename_notes /\
  missing layout_master_map = py_missing_layout_master_map.
Proof. vm_compute. repeat split; reflexivity. Qed.

Lemma gen_basename_total t :
  In t all_ph_types -> ~ In t py_missing_basename_slide -> has_key t (c_base_slide gen_cfg) = true.
Proof.
  intros Hin Hnot. destruct (has_key t (c_base_slide gen_cfg)) eqn:E; [reflexivity|].
  exfalso. apply Hnot. destruct partial_exact as [<- _]. apply missing_spec. auto.
Qed.

Lemma gen_lmmap_total t :
  In t all_ph_types -> ~ In t py_missing_layout_master_map -> has_key t (c_lmmap gen_cfg) = true.
Proof.
  intros Hin Hnot. destruct (has_key t (c_lmmap gen_cfg)) eqn:E; [reflexivity|].
  exfalso. apply Hnot. destruct partial_exact as [_ [_ <-]]. apply missing_spec. auto.
Qed.

Lemma gen_notes_total :
  Forall (fun t => has_key t (c_base_notes gen_cfg) = true) (c_notes_cloneable gen_cfg).
Proof.
  apply Forall_forall. apply forallb_forall. vm_compute. reflexivity.
Qed.

Lemma gen_sane_ok : gen_sane = true.
Proof. vm_compute. reflexivity. Qed.

(** with the generated tables: a slide can be added from every layout whose cloneable
    placeholders avoid exactly the listed types *)
Lemma gen_add_slide_total d l L :
  nth_error (d_layouts d) l = Some L ->
  Forall (fun p => In (ph_type p) all_ph_types /\ ~ In (ph_type p) py_missing_basename_slide)
         (phs (cloneable gen_cfg (l_shapes L))) ->
  exists d', add_slide gen_cfg d l = (d', Ok tt).
Proof.
  intros EL HF. apply add_slide_ok_iff. exists L. split; [exact EL|].
  eapply Forall_impl; [|exact HF]. intros p [H1 H2]. apply gen_basename_total; assumption.
Qed.

Lemma wit_cloneable c t : memN t (c_latent c) = false -> cloneable c [wit_shape t] = [wit_shape t].
Proof. intros H. unfold cloneable, has_type. cbn. unfold ph_type. cbn. rewrite H. reflexivity. Qed.

(** whenever the slide base-name table misses a non-latent type, the mirror statement is
    refuted by a layout holding one placeholder of that type: KeyError, no slide added, one
    unlisted slide part left related to the presentation *)
Lemma mirror_refuted_when_partial c t :
  has_key t (c_base_slide c) = false -> memN t (c_latent c) = false ->
  exists d', add_slide c (wit_deck t) 0 = (d', Err KeyErr) /\
             d_slides d' = [] /\ length (d_orphans d') = 1%nat.
Proof.
  intros Hk Hl.
  destruct (add_slide_keyerr_when_missing c (wit_deck t) 0 (mk_layout 0 [wit_shape t]) eq_refl) as [d' [H1 [H2 H3]]].
  - cbn [l_shapes]. rewrite (wit_cloneable c t Hl). cbn. constructor. exact Hk.
  - exists d'. auto.
Qed.

(** whenever the layout-to-master map misses a type that can be cloned, the inheritance
    statement is refuted: the slide is added, and every dimension of its placeholder raises
    KeyError *)
Lemma inherit_refuted_when_partial c t :
  has_key t (c_lmmap c) = false -> has_key t (c_base_slide c) = true -> memN t (c_latent c) = false ->
  exists d' s sp, add_slide c (wit_deck t) 0 = (d', Ok tt) /\ d_slides d' = [s] /\ sl_shapes s = [sp] /\
    forall a, slide_geom c d' s a sp = Err KeyErr.
Proof.
  intros Hm Hk Hl.
  assert (Hok : exists d', add_slide c (wit_deck t) 0 = (d', Ok tt)).
  { apply add_slide_ok_iff. exists (mk_layout 0 [wit_shape t]). split; [reflexivity|].
    cbn [l_shapes]. rewrite (wit_cloneable c t Hl). cbn. constructor; [exact Hk | constructor]. }
  destruct Hok as [d' H]. destruct (add_slide_inherit _ _ _ _ H) as [L [s [EL [Hs HF]]]].
  cbn in EL. inversion EL; subst L. cbn [l_shapes] in HF. rewrite (wit_cloneable c t Hl) in HF.
  inversion HF as [|lp sp ? tl Hg Htl]; subst. inversion Htl; subst.
  exists d', s, sp. split; [exact H|]. split; [exact Hs|]. split; [symmetry; assumption|].
  intros a. rewrite Hg. unfold first_with_idx. cbn.
  apply (layout_eff_keyerr c a _ (wit_shape t) (mk_ph (Some t) None None None));
    [destruct a; reflexivity | reflexivity | exact Hm].
Qed.

(** * Statements in the form used by props/C13.v *)
Lemma clone_of_keys c : forall src t, Forall2 (clone_of c) src t ->
  map key (phs t) = map key (phs src) /\ forallb is_ph t = true /\ length t = length src /\
  Forall (fun sp => s_off sp = None /\ s_ext sp = None) t /\
  Forall2 (fun lp sp => s_txbody sp = memN (sh_type lp) (c_txbody c)) src t.
Proof.
  induction 1 as [|lp sp src t Hc HF IH]; [cbn; auto|].
  destruct IH as [I1 [I2 [I3 [I4 I5]]]].
  destruct Hc as [p [Hlp [[p' [Hsp Hk]] [Ho [He Ht]]]]].
  unfold phs in *. cbn [flat_map]. rewrite Hlp, Hsp. cbn [app map forallb length].
  unfold is_ph at 1. rewrite Hsp, Hk, I1, I2, I3.
  repeat split; auto. constructor; [|exact I5]. unfold sh_type. rewrite Hlp. exact Ht.
Qed.

Lemma mirror c d l d' :
  add_slide c d l = (d', Ok tt) ->
  exists L s, nth_error (d_layouts d) l = Some L /\ d_slides d' = d_slides d ++ [s] /\
    let src := filter (fun x => negb (has_type (c_latent c) x)) (placeholders (l_shapes L)) in
    map key (phs (sl_shapes s)) = map key (phs src) /\
    forallb is_ph (sl_shapes s) = true /\
    length (sl_shapes s) = length src /\
    NoDup (map s_name (sl_shapes s)) /\ NoDup (map s_id (sl_shapes s)) /\
    Forall (fun sp => s_off sp = None /\ s_ext sp = None) (sl_shapes s) /\
    Forall2 (fun lp sp => s_txbody sp = memN (sh_type lp) (c_txbody c)) src (sl_shapes s).
Proof.
  intros H. destruct (add_slide_ok _ _ _ _ H) as [L [s [EL [-> [_ [_ [HF [HN HI]]]]]]]].
  exists L, s. split; [exact EL|]. split; [reflexivity|]. cbn zeta.
  rewrite <- cloneable_filter. destruct (clone_of_keys c _ _ HF) as [K1 [K2 [K3 [K4 K5]]]].
  auto 10.
Qed.

Lemma notes_mirror c d s sl :
  nth_error (d_slides d) s = Some sl -> sl_notes sl = None ->
  Forall (fun t => has_key t (c_base_notes c) = true) (c_notes_cloneable c) ->
  exists nt,
    notes_slide c d s =
      (set_slides (ensure_notes_master d)
         (upd_nth s (fun x => mk_slide (sl_layout x) (sl_shapes x) (Some nt)) (d_slides d)), Ok tt) /\
    let NM := the_notes_master d in
    let src := filter (has_type (c_notes_cloneable c)) (placeholders NM) in
    map key (phs nt) = map key (phs src) /\ forallb is_ph nt = true /\ length nt = length src /\
    NoDup (map s_name nt) /\ NoDup (map s_id nt) /\
    Forall2 (fun mp sp => forall a, notes_eff a NM sp = own a (first_with_type NM mp)) src nt.
Proof.
  intros Hs Hn Htot. destruct (notes_slide_new c d s sl Hs Hn Htot) as [nt [E [HF [HN [HI HG]]]]].
  exists nt. split; [exact E|]. cbn zeta. rewrite <- notes_cloneable_filter.
  destruct (clone_of_keys c _ _ HF) as [K1 [K2 [K3 _]]]. auto 10.
Qed.

(** duplicate idx values in one layout: the second clone inherits from the first layout
    placeholder with that idx, not from the placeholder it was cloned from.  Witness: two
    title placeholders without idx attribute at different positions. *)

Lemma inherit_dup_idx_refuted :
  exists d' L s lp sp,
    add_slide gen_cfg dup_deck 0 = (d', Ok tt) /\ nth_error (d_layouts dup_deck) 0 = Some L /\
    d_slides d' = [s] /\
    nth_error (cloneable gen_cfg (l_shapes L)) 1 = Some lp /\ nth_error (sl_shapes s) 1 = Some sp /\
    clone_of gen_cfg lp sp /\
    slide_geom gen_cfg d' s ALeft sp = Ok (Some 10%Z) /\
    layout_eff gen_cfg ALeft (master_tree dup_deck 0) lp = Ok (Some 50%Z).
Proof.
  destruct (add_slide gen_cfg dup_deck 0) as [d' r] eqn:E.
  vm_compute in E. inversion E; subst d' r; clear E.
  do 5 eexists. split; [reflexivity|]. split; [reflexivity|]. split; [reflexivity|].
  split; [vm_compute; reflexivity|]. split; [vm_compute; reflexivity|].
  split; [|split; vm_compute; reflexivity].
  eexists. split; [reflexivity|]. repeat split; try reflexivity.
  eexists. split; reflexivity.
Qed.

Lemma set_own c a v M Ls s s' :
  set_attr a v s = (s', Ok tt) ->
  slide_eff c a M Ls s' = Ok (Some v) /\ s_ph s' = s_ph s /\ s_name s' = s_name s /\
  (forall b, same_pair a b = false -> own b s' = own b s) /\
  (forall b, same_pair a b = true -> b <> a ->
     own b s' = Some (match own b s with Some x => x | None => 0%Z end)).
Proof.
  intros H. destruct (set_attr_ok a v s s' H) as [_ [H1 [H2 [_ [H3 [H4 H5]]]]]].
  split; [apply slide_eff_own; exact H1 | auto].
Qed.

(** * Assignment through _InheritsDimensions._set_dimension (slide, layout and notes-slide
      placeholders): [set_dim].  Structural lemmas for the two loops, a closed form of the
      accepted case, then the statements used in props/C13.v *)
Lemma set_attr_put a v s :
  set_attr a v s = if coord_ok a v then (put a v s, Ok tt) else (s, Err ValueErr).
Proof. reflexivity. Qed.

Lemma attr_eqb_eq a b : attr_eqb a b = true <-> a = b.
Proof. destruct a, b; cbn; split; intros H; try reflexivity; try discriminate. Qed.

Lemma attr_eqb_neq a b : attr_eqb a b = false <-> a <> b.
Proof. destruct a, b; cbn; split; intros H; try reflexivity; try discriminate; try congruence. Qed.

Lemma in_dim_order b : In b dim_order.
Proof. destruct b; cbn; auto. Qed.

(** the list comprehension: which entries it holds *)
Lemma collect_inh_ok inh a s : forall bs l,
  collect_inh inh a s bs = Ok l ->
  (forall b, In b bs -> b <> a -> own b s = None -> exists w, inh b = Ok w /\ In (b, w) l) /\
  (forall b w, In (b, w) l -> In b bs /\ b <> a /\ own b s = None /\ inh b = Ok w).
Proof.
  induction bs as [|b0 bs IH]; intros l; cbn [collect_inh].
  - intros H; inversion H; subst. split; [intros b []|intros b w []].
  - destruct (attr_eqb b0 a) eqn:Ea; cbn [negb andb].
    + apply attr_eqb_eq in Ea. subst b0. intros H. destruct (IH l H) as [H1 H2]. split.
      * intros b [->|Hin] Hne Ho; [congruence|]. apply H1; auto.
      * intros b w Hin. destruct (H2 b w Hin) as [? ?]. split; [right; auto|auto].
    + apply attr_eqb_neq in Ea. destruct (own b0 s) as [x|] eqn:Eo.
      * intros H. destruct (IH l H) as [H1 H2]. split.
        -- intros b [->|Hin] Hne Ho; [congruence|]. apply H1; auto.
        -- intros b w Hin. destruct (H2 b w Hin) as [? ?]. split; [right; auto|auto].
      * destruct (inh b0) as [w0|e0] eqn:Ei; cbn [bind]; [|discriminate].
        destruct (collect_inh inh a s bs) as [r|e1] eqn:Ec; cbn [bind]; [|discriminate].
        intros H; inversion H; subst l. destruct (IH r eq_refl) as [H1 H2]. split.
        -- intros b [->|Hin] Hne Ho.
           ++ exists w0. split; [exact Ei|left; reflexivity].
           ++ destruct (H1 b Hin Hne Ho) as [w [Hw Hin']]. exists w. split; [exact Hw|right; exact Hin'].
        -- intros b w [Heq|Hin].
           ++ inversion Heq; subst. repeat split; auto. left; reflexivity.
           ++ destruct (H2 b w Hin) as [? ?]. split; [right; auto|auto].
Qed.

Lemma collect_inh_err inh a s : forall bs e,
  collect_inh inh a s bs = Err e ->
  exists b, In b bs /\ b <> a /\ own b s = None /\ inh b = Err e.
Proof.
  induction bs as [|b0 bs IH]; intros e; cbn [collect_inh]; [discriminate|].
  destruct (attr_eqb b0 a) eqn:Ea; cbn [negb andb].
  - intros H. destruct (IH e H) as [b [? ?]]. exists b. split; [right; auto|auto].
  - apply attr_eqb_neq in Ea. destruct (own b0 s) as [x|] eqn:Eo.
    + intros H. destruct (IH e H) as [b [? ?]]. exists b. split; [right; auto|auto].
    + destruct (inh b0) as [w0|e0] eqn:Ei; cbn [bind].
      * destruct (collect_inh inh a s bs) as [r|e1] eqn:Ec; cbn [bind]; [discriminate|].
        intros H; inversion H; subst e1. destruct (IH e eq_refl) as [b [? ?]]. exists b. split; [right; auto|auto].
      * intros H; inversion H; subst e0. exists b0. repeat split; auto. left; reflexivity.
Qed.

Lemma collect_inh_total inh a s : forall bs,
  (forall b, In b bs -> b <> a -> own b s = None -> exists w, inh b = Ok w) ->
  exists l, collect_inh inh a s bs = Ok l.
Proof.
  induction bs as [|b0 bs IH]; intros H; cbn [collect_inh]; [eexists; reflexivity|].
  destruct IH as [l Hl]; [intros b Hin; apply H; right; exact Hin|].
  destruct (attr_eqb b0 a) eqn:Ea; cbn [negb andb]; [exists l; exact Hl|].
  apply attr_eqb_neq in Ea. destruct (own b0 s) as [x|] eqn:Eo; [exists l; exact Hl|].
  destruct (H b0 (or_introl eq_refl) Ea Eo) as [w Hw]. rewrite Hw, Hl. cbn [bind]. eexists; reflexivity.
Qed.

(** the for-loop *)
Lemma apply_inh_ok : forall l s s',
  apply_inh l s = (s', Ok tt) -> forall b x, In (b, Some x) l -> coord_ok b x = true.
Proof.
  induction l as [|[b0 [x0|]] l IH]; intros s s'; cbn [apply_inh].
  - intros _ b x [].
  - rewrite set_attr_put. destruct (coord_ok b0 x0) eqn:E.
    + intros H b x [Heq|Hin]; [inversion Heq; subst; exact E|]. eapply IH; eauto.
    + discriminate.
  - intros H b x [Heq|Hin]; [discriminate|]. eapply IH; eauto.
Qed.

Lemma apply_inh_total : forall l s,
  (forall b x, In (b, Some x) l -> coord_ok b x = true) -> exists s', apply_inh l s = (s', Ok tt).
Proof.
  induction l as [|[b0 [x0|]] l IH]; intros s H; cbn [apply_inh].
  - eexists; reflexivity.
  - rewrite set_attr_put, (H b0 x0 (or_introl eq_refl)). apply IH. intros b x Hin. apply H. right; exact Hin.
  - apply IH. intros b x Hin. apply H. right; exact Hin.
Qed.

Lemma apply_inh_err : forall l s s' e,
  apply_inh l s = (s', Err e) ->
  exists pre b w post, l = pre ++ (b, Some w) :: post /\ apply_inh pre s = (s', Ok tt) /\
                       coord_ok b w = false /\ e = ValueErr.
Proof.
  induction l as [|[b0 [x0|]] l IH]; intros s s' e; cbn [apply_inh]; [discriminate| |].
  - rewrite set_attr_put. destruct (coord_ok b0 x0) eqn:E.
    + intros H. destruct (IH _ _ _ H) as [pre [b [w [post [-> [Hp [Hc He]]]]]]].
      exists ((b0, Some x0) :: pre), b, w, post. split; [reflexivity|]. split; [|auto].
      cbn [apply_inh]. rewrite set_attr_put, E. exact Hp.
    + intros H; inversion H; subst. exists [], b0, x0, l. repeat split; auto.
  - intros H. destruct (IH _ _ _ H) as [pre [b [w [post [-> [Hp [Hc He]]]]]]].
    exists ((b0, None) :: pre), b, w, post. split; [reflexivity|]. split; [exact Hp|auto].
Qed.

Lemma put_meta a v s : s_ph (put a v s) = s_ph s /\ s_id (put a v s) = s_id s /\
  s_name (put a v s) = s_name s /\ s_txbody (put a v s) = s_txbody s.
Proof. unfold put. cbn. auto. Qed.

Lemma apply_inh_meta : forall l s s' r, apply_inh l s = (s', r) ->
  s_ph s' = s_ph s /\ s_id s' = s_id s /\ s_name s' = s_name s /\ s_txbody s' = s_txbody s.
Proof.
  induction l as [|[b0 [x0|]] l IH]; intros s s' r; cbn [apply_inh].
  - intros H; inversion H; subst; auto.
  - rewrite set_attr_put. destruct (coord_ok b0 x0).
    + intros H. destruct (IH _ _ _ H) as [H1 [H2 [H3 H4]]]. destruct (put_meta b0 x0 s) as [G1 [G2 [G3 G4]]].
      repeat split; congruence.
    + intros H; inversion H; subst; auto.
  - apply IH.
Qed.

Definition plan (inh : attr -> res (option Z)) (a : attr) (v : Z) (s : shape) (b : attr) : option Z :=
  if attr_eqb b a then Some v else
  match own b s with
  | Some _ => None
  | None => match inh b with Ok (Some w) => Some w | _ => None end
  end.
Definition putopt (b : attr) (o : option Z) (s : shape) : shape :=
  match o with Some w => put b w s | None => s end.
Definition put_all (f : attr -> option Z) (s : shape) : shape :=
  putopt AHeight (f AHeight) (putopt AWidth (f AWidth) (putopt ATop (f ATop) (putopt ALeft (f ALeft) s))).

Lemma set_dim_closed inh a v s s' :
  set_dim inh a v s = (s', Ok tt) -> s' = put_all (plan inh a v s) s.
Proof.
  unfold set_dim, plan, put_all.
  destruct s as [i n p [[x y]|] [[w h]|] t]; destruct a;
    cbn [collect_inh dim_order attr_eqb negb andb own option_map s_off s_ext fst snd];
    repeat match goal with |- context [inh ?b] => destruct (inh b) as [[?|]|?] end;
    cbn [bind apply_inh]; rewrite ?set_attr_put;
    repeat match goal with
           | |- context [coord_ok ?b ?w] => destruct (coord_ok b w); cbn [apply_inh]; rewrite ?set_attr_put
           end;
    intros H; try discriminate H; inversion H; reflexivity.
Qed.

Lemma own_put_all f s b :
  own b (put_all f s) =
  match f b with
  | Some w => Some w
  | None => match own b s with
            | Some x => Some x
            | None => match f (partner b) with Some _ => Some 0%Z | None => None end
            end
  end.
Proof.
  unfold put_all.
  destruct s as [i n p [[x y]|] [[w h]|] t]; destruct b; cbn [partner];
    destruct (f ALeft), (f ATop), (f AWidth), (f AHeight); reflexivity.
Qed.

Lemma put_all_meta f s : s_ph (put_all f s) = s_ph s /\ s_id (put_all f s) = s_id s /\
  s_name (put_all f s) = s_name s /\ s_txbody (put_all f s) = s_txbody s.
Proof.
  unfold put_all. destruct (f ALeft), (f ATop), (f AWidth), (f AHeight); cbn; auto.
Qed.

Lemma own_partner_none b s : own b s = None -> own (partner b) s = None.
Proof. destruct s as [i n p [[x y]|] [[w h]|] t]; destruct b; cbn; congruence. Qed.

Lemma attr_eqb_refl a : attr_eqb a a = true.
Proof. destruct a; reflexivity. Qed.

Lemma set_dim_guard inh a v s s' : set_dim inh a v s = (s', Ok tt) -> dim_guard inh a v s.
Proof.
  unfold set_dim. destruct (collect_inh inh a s dim_order) as [l|e] eqn:Ec; [|discriminate].
  rewrite set_attr_put. destruct (coord_ok a v) eqn:Ev; [|discriminate].
  intros H. split; [exact Ev|]. intros b Hne Ho.
  destruct (collect_inh_ok _ _ _ _ _ Ec) as [H1 _].
  destruct (H1 b (in_dim_order b) Hne Ho) as [w [Hw Hin]]. exists w. split; [exact Hw|].
  intros x ->. eapply apply_inh_ok; eauto.
Qed.

Lemma set_dim_accepts inh a v s : dim_guard inh a v s -> exists s', set_dim inh a v s = (s', Ok tt).
Proof.
  intros [Hv Hg]. unfold set_dim.
  destruct (collect_inh_total inh a s dim_order) as [l Hl].
  { intros b _ Hne Ho. destruct (Hg b Hne Ho) as [w [Hw _]]. eauto. }
  rewrite Hl, set_attr_put, Hv. apply apply_inh_total.
  intros b x Hin. destruct (collect_inh_ok _ _ _ _ _ Hl) as [_ H2].
  destruct (H2 b (Some x) Hin) as [_ [Hne [Ho Hi]]].
  destruct (Hg b Hne Ho) as [w [Hw Hc]]. rewrite Hi in Hw. inversion Hw; subst. apply Hc; reflexivity.
Qed.

Lemma set_dim_ok_iff inh a v s : (exists s', set_dim inh a v s = (s', Ok tt)) <-> dim_guard inh a v s.
Proof. split; [intros [s' H]; eapply set_dim_guard; eauto | apply set_dim_accepts]. Qed.

(** the state after an accepted assignment, dimension by dimension *)
Lemma set_dim_ok inh a v s s' :
  set_dim inh a v s = (s', Ok tt) ->
  dim_guard inh a v s /\ own a s' = Some v /\
  s_ph s' = s_ph s /\ s_id s' = s_id s /\ s_name s' = s_name s /\ s_txbody s' = s_txbody s /\
  (forall b, b <> a ->
     own b s' =
     match own b s with
     | Some x => Some x
     | None =>
         match inh b with
         | Ok (Some w) => Some w
         | _ => if attr_eqb (partner b) a then Some 0%Z
                else match inh (partner b) with Ok (Some _) => Some 0%Z | _ => None end
         end
     end).
Proof.
  intros H. split; [eapply set_dim_guard; eauto|].
  pose proof (set_dim_closed _ _ _ _ _ H) as ->.
  destruct (put_all_meta (plan inh a v s) s) as [M1 [M2 [M3 M4]]].
  split; [rewrite own_put_all; unfold plan; rewrite attr_eqb_refl; reflexivity|].
  repeat (split; [assumption|]).
  intros b Hne. rewrite own_put_all. unfold plan at 1.
  apply attr_eqb_neq in Hne. rewrite Hne.
  destruct (own b s) as [x|] eqn:Eo; [reflexivity|].
  assert (Hp : plan inh a v s (partner b) =
               if attr_eqb (partner b) a then Some v
               else match inh (partner b) with Ok (Some w) => Some w | _ => None end).
  { unfold plan. rewrite (own_partner_none _ _ Eo). reflexivity. }
  destruct (inh b) as [[w|]|e]; [reflexivity| |]; rewrite Hp;
    destruct (attr_eqb (partner b) a); try reflexivity;
    destruct (inh (partner b)) as [[w'|]|e']; reflexivity.
Qed.

(** in terms of what the placeholder REPORTS *)
Lemma set_dim_eff inh a v s s' :
  set_dim inh a v s = (s', Ok tt) ->
  eff_with inh a s' = Ok (Some v) /\
  (forall b, b <> a -> exists w, eff_with inh b s = Ok w) /\
  (forall b x, b <> a -> eff_with inh b s = Ok (Some x) -> eff_with inh b s' = Ok (Some x)) /\
  (forall b, b <> a -> eff_with inh b s = Ok None ->
     eff_with inh b s' =
     Ok (if attr_eqb (partner b) a then Some 0%Z
         else match eff_with inh (partner b) s with Ok (Some _) => Some 0%Z | _ => None end)).
Proof.
  intros H. destruct (set_dim_ok _ _ _ _ _ H) as [[_ Hg] [Ha [_ [_ [_ [_ Hb]]]]]].
  split; [unfold eff_with; rewrite Ha; reflexivity|]. split; [|split].
  - intros b Hne. unfold eff_with. destruct (own b s) as [x|] eqn:Eo; [eauto|].
    destruct (Hg b Hne Eo) as [w [Hw _]]. eauto.
  - intros b x Hne. unfold eff_with. rewrite (Hb b Hne).
    destruct (own b s) as [y|] eqn:Eo; [auto|]. intros ->. reflexivity.
  - intros b Hne. unfold eff_with. rewrite (Hb b Hne).
    destruct (own b s) as [y|] eqn:Eo; [discriminate|]. intros Hi. rewrite Hi.
    rewrite (own_partner_none _ _ Eo).
    destruct (attr_eqb (partner b) a); [reflexivity|].
    destruct (inh (partner b)) as [[w'|]|e']; try reflexivity; exact Hi.
Qed.

Lemma own_put_other a b v w s : b <> a -> own a s = Some v -> own a (put b w s) = Some v.
Proof.
  destruct s as [i n p [[x y]|] [[cx cy]|] t]; destruct a, b; cbn; intros Hne H;
    try congruence; try discriminate.
Qed.

Lemma apply_inh_keeps_own a v : forall l s s',
  apply_inh l s = (s', Ok tt) -> own a s = Some v ->
  (forall b w, In (b, w) l -> b <> a) -> own a s' = Some v.
Proof.
  induction l as [|[b0 [x0|]] l IH]; intros s s'; cbn [apply_inh].
  - intros H; inversion H; subst; auto.
  - rewrite set_attr_put. destruct (coord_ok b0 x0); [|discriminate].
    intros H Ho Hl. eapply IH; [exact H| |intros b w Hin; apply (Hl b w); right; exact Hin].
    apply own_put_other; [apply (Hl b0 (Some x0)); left; reflexivity|exact Ho].
  - intros H Ho Hl. eapply IH; eauto. intros b w Hin; apply (Hl b w); right; exact Hin.
Qed.

Lemma own_put_same a v s : own a (put a v s) = Some v.
Proof. destruct s as [i n p [[x y]|] [[cx cy]|] t]; destruct a; reflexivity. Qed.

(** every way an assignment through _set_dimension can fail *)
Lemma set_dim_err inh a v s s' e :
  set_dim inh a v s = (s', Err e) ->
  (s' = s /\ exists b, b <> a /\ own b s = None /\ inh b = Err e) \/
  (s' = s /\ e = ValueErr /\ coord_ok a v = false /\
   forall b, b <> a -> own b s = None -> exists w, inh b = Ok w) \/
  (e = ValueErr /\ coord_ok a v = true /\
   exists pre b w post,
     collect_inh inh a s dim_order = Ok (pre ++ (b, Some w) :: post) /\
     b <> a /\ own b s = None /\ inh b = Ok (Some w) /\ coord_ok b w = false /\
     apply_inh pre (put a v s) = (s', Ok tt) /\ own a s' = Some v /\
     s_ph s' = s_ph s /\ s_id s' = s_id s /\ s_name s' = s_name s /\ s_txbody s' = s_txbody s).
Proof.
  unfold set_dim. destruct (collect_inh inh a s dim_order) as [l|e0] eqn:Ec.
  - destruct (collect_inh_ok _ _ _ _ _ Ec) as [H1 H2].
    rewrite set_attr_put. destruct (coord_ok a v) eqn:Ev.
    + intros H. right; right.
      destruct (apply_inh_err _ _ _ _ H) as [pre [b [w [post [-> [Hp [Hc ->]]]]]]].
      split; [reflexivity|]. split; [reflexivity|].
      exists pre, b, w, post.
      destruct (H2 b (Some w)) as [_ [Hne [Ho Hi]]]; [apply in_or_app; right; left; reflexivity|].
      split; [reflexivity|]. do 4 (split; [assumption|]). split; [exact Hp|].
      split.
      * eapply apply_inh_keeps_own; [exact Hp|apply own_put_same|].
        intros b' w' Hin. apply (H2 b' w'). apply in_or_app; left; exact Hin.
      * destruct (apply_inh_meta _ _ _ _ Hp) as [G1 [G2 [G3 G4]]].
        destruct (put_meta a v s) as [P1 [P2 [P3 P4]]]. repeat split; congruence.
    + intros H; inversion H; subst. right; left. repeat split; auto.
      intros b Hne Ho. destruct (H1 b (in_dim_order b) Hne Ho) as [w [Hw _]]. eauto.
  - intros H; inversion H; subst. left. split; [reflexivity|].
    destruct (collect_inh_err _ _ _ _ _ Ec) as [b [_ Hb]]. exists b. exact Hb.
Qed.

(** a raising lookup wins over everything else, validation of the assigned value included,
    and nothing is written *)
Lemma set_dim_lookup_raises inh a v s b e :
  b <> a -> own b s = None -> inh b = Err e ->
  exists b' e', set_dim inh a v s = (s, Err e') /\ b' <> a /\ own b' s = None /\ inh b' = Err e'.
Proof.
  intros Hne Ho Hi. unfold set_dim.
  destruct (collect_inh inh a s dim_order) as [l|e0] eqn:Ec.
  - destruct (collect_inh_ok _ _ _ _ _ Ec) as [H1 _].
    destruct (H1 b (in_dim_order b) Hne Ho) as [w [Hw _]]. congruence.
  - destruct (collect_inh_err _ _ _ _ _ Ec) as [b' [_ Hb]]. exists b', e0. split; [reflexivity|exact Hb].
Qed.

Lemma set_dim_refused inh a v s :
  coord_ok a v = false ->
  (forall b, b <> a -> own b s = None -> exists w, inh b = Ok w) ->
  set_dim inh a v s = (s, Err ValueErr).
Proof.
  intros Hv Hg. unfold set_dim.
  destruct (collect_inh_total inh a s dim_order) as [l Hl]; [intros b _; apply Hg|].
  rewrite Hl, set_attr_put, Hv. reflexivity.
Qed.

(** * the proxies *)
Lemma slide_eff_with c b M L s : slide_eff c b M L s = eff_with (fun b => slide_inh c b M L s) b s.
Proof. reflexivity. Qed.
Lemma layout_eff_with c b M s : layout_eff c b M s = eff_with (fun b => layout_inh c b M s) b s.
Proof. reflexivity. Qed.
Lemma notes_eff_with b NM s : Ok (notes_eff b NM s) = eff_with (fun b => Ok (notes_inh b NM s)) b s.
Proof. unfold notes_eff, eff_with. destruct (own b s); reflexivity. Qed.

Lemma slide_inh_ph c b M L s s' : s_ph s' = s_ph s -> slide_inh c b M L s' = slide_inh c b M L s.
Proof. unfold slide_inh. intros ->. reflexivity. Qed.
Lemma layout_inh_ph c b M s s' : s_ph s' = s_ph s -> layout_inh c b M s' = layout_inh c b M s.
Proof. unfold layout_inh. intros ->. reflexivity. Qed.
Lemma notes_inh_ph b NM s s' : s_ph s' = s_ph s -> notes_inh b NM s' = notes_inh b NM s.
Proof. unfold notes_inh. intros ->. reflexivity. Qed.

Lemma shape_setter_ph inh a v s : is_ph s = true -> shape_setter inh a v s = set_dim (inh s) a v s.
Proof. unfold shape_setter. intros ->. reflexivity. Qed.
Lemma shape_setter_plain inh a v s : is_ph s = false -> shape_setter inh a v s = set_attr a v s.
Proof. unfold shape_setter. intros ->. reflexivity. Qed.

(** slide placeholder: after an accepted assignment it reports the assigned value, the other three
    report exactly what they reported before (whenever they reported a value), none of them was
    raising, and one that reported None now reports 0 exactly when its partner was written *)
Lemma slide_set_keeps c M L a v s s' :
  set_dim (fun b => slide_inh c b M L s) a v s = (s', Ok tt) ->
  slide_eff c a M L s' = Ok (Some v) /\
  s_ph s' = s_ph s /\ s_id s' = s_id s /\ s_name s' = s_name s /\ s_txbody s' = s_txbody s /\
  (forall b, b <> a -> exists w, slide_eff c b M L s = Ok w) /\
  (forall b x, b <> a -> slide_eff c b M L s = Ok (Some x) -> slide_eff c b M L s' = Ok (Some x)) /\
  (forall b, b <> a -> slide_eff c b M L s = Ok None ->
     slide_eff c b M L s' =
     Ok (if attr_eqb (partner b) a then Some 0%Z
         else match slide_eff c (partner b) M L s with Ok (Some _) => Some 0%Z | _ => None end)).
Proof.
  intros H. destruct (set_dim_ok _ _ _ _ _ H) as [_ [_ [P1 [P2 [P3 [P4 _]]]]]].
  destruct (set_dim_eff _ _ _ _ _ H) as [E1 [E2 [E3 E4]]].
  assert (Hs : forall b, slide_eff c b M L s' = eff_with (fun b => slide_inh c b M L s) b s').
  { intros b. rewrite slide_eff_with. unfold eff_with. rewrite (slide_inh_ph _ _ _ _ _ _ P1). reflexivity. }
  split; [rewrite Hs; exact E1|]. do 4 (split; [assumption|]).
  split; [exact E2|]. split.
  - intros b x Hne Hb. rewrite Hs. apply E3; assumption.
  - intros b Hne Hb. rewrite Hs. apply E4; assumption.
Qed.

Lemma layout_set_keeps c M a v s s' :
  set_dim (fun b => layout_inh c b M s) a v s = (s', Ok tt) ->
  layout_eff c a M s' = Ok (Some v) /\
  s_ph s' = s_ph s /\ s_id s' = s_id s /\ s_name s' = s_name s /\ s_txbody s' = s_txbody s /\
  (forall b, b <> a -> exists w, layout_eff c b M s = Ok w) /\
  (forall b x, b <> a -> layout_eff c b M s = Ok (Some x) -> layout_eff c b M s' = Ok (Some x)) /\
  (forall b, b <> a -> layout_eff c b M s = Ok None ->
     layout_eff c b M s' =
     Ok (if attr_eqb (partner b) a then Some 0%Z
         else match layout_eff c (partner b) M s with Ok (Some _) => Some 0%Z | _ => None end)).
Proof.
  intros H. destruct (set_dim_ok _ _ _ _ _ H) as [_ [_ [P1 [P2 [P3 [P4 _]]]]]].
  destruct (set_dim_eff _ _ _ _ _ H) as [E1 [E2 [E3 E4]]].
  assert (Hs : forall b, layout_eff c b M s' = eff_with (fun b => layout_inh c b M s) b s').
  { intros b. rewrite layout_eff_with. unfold eff_with. rewrite (layout_inh_ph _ _ _ _ _ P1). reflexivity. }
  split; [rewrite Hs; exact E1|]. do 4 (split; [assumption|]).
  split; [exact E2|]. split.
  - intros b x Hne Hb. rewrite Hs. apply E3; assumption.
  - intros b Hne Hb. rewrite Hs. apply E4; assumption.
Qed.

Lemma notes_set_keeps NM a v s s' :
  set_dim (fun b => Ok (notes_inh b NM s)) a v s = (s', Ok tt) ->
  notes_eff a NM s' = Some v /\
  s_ph s' = s_ph s /\ s_id s' = s_id s /\ s_name s' = s_name s /\ s_txbody s' = s_txbody s /\
  (forall b x, b <> a -> notes_eff b NM s = Some x -> notes_eff b NM s' = Some x) /\
  (forall b, b <> a -> notes_eff b NM s = None ->
     notes_eff b NM s' =
     if attr_eqb (partner b) a then Some 0%Z
     else match notes_eff (partner b) NM s with Some _ => Some 0%Z | None => None end).
Proof.
  intros H. destruct (set_dim_ok _ _ _ _ _ H) as [_ [_ [P1 [P2 [P3 [P4 _]]]]]].
  destruct (set_dim_eff _ _ _ _ _ H) as [E1 [_ [E3 E4]]].
  assert (Hs : forall b, Ok (notes_eff b NM s') = eff_with (fun b => Ok (notes_inh b NM s)) b s').
  { intros b. rewrite notes_eff_with. unfold eff_with. rewrite (notes_inh_ph _ _ _ _ P1). reflexivity. }
  assert (Hinj : forall x y : option Z, @Ok (option Z) x = Ok y -> x = y) by (intros x y Hxy; inversion Hxy; reflexivity).
  split; [apply Hinj; rewrite Hs; exact E1|]. do 4 (split; [assumption|]). split.
  - intros b x Hne Hb. apply Hinj. rewrite Hs. apply E3; [assumption|]. rewrite <- notes_eff_with, Hb. reflexivity.
  - intros b Hne Hb. apply Hinj. rewrite Hs, (E4 b Hne); [|rewrite <- notes_eff_with, Hb; reflexivity].
    rewrite <- notes_eff_with. destruct (attr_eqb (partner b) a); [reflexivity|].
    destruct (notes_eff (partner b) NM s); reflexivity.
Qed.

Lemma set_dim_unchanged inh a v s :
  coord_ok a v = false \/ (exists b e, b <> a /\ own b s = None /\ inh b = Err e) ->
  exists e, set_dim inh a v s = (s, Err e).
Proof.
  intros H. unfold set_dim. destruct (collect_inh inh a s dim_order) as [l|e0] eqn:Ec; [|eauto].
  destruct H as [Hv|[b [e [Hne [Ho Hi]]]]].
  - rewrite set_attr_put, Hv. eauto.
  - destruct (collect_inh_ok _ _ _ _ _ Ec) as [H1 _].
    destruct (H1 b (in_dim_order b) Hne Ho) as [w [Hw _]]. congruence.
Qed.

(** * which setter [step] uses *)
Lemma step_set_slide c d s i a v sl sh :
  nth_error (d_slides d) s = Some sl -> nth_error (sl_shapes sl) i = Some sh ->
  step c d (Edit (TSlide s i) (ESet a v)) =
  let '(sh', r) :=
    if is_ph sh
    then set_dim (fun b => slide_inh c b (master_tree d (sl_layout sl)) (layout_tree d (sl_layout sl)) sh) a v sh
    else set_attr a v sh in
  (set_slides d (upd_nth s (fun x => mk_slide (sl_layout x) (upd_nth i (fun _ => sh') (sl_shapes sl)) (sl_notes x))
                         (d_slides d)), r).
Proof.
  intros H1 H2. cbn [step]. rewrite H1. unfold edit_tree. rewrite H2.
  unfold slide_setter, shape_setter. destruct (is_ph sh).
  - destruct (set_dim _ a v sh) as [sh' r]. reflexivity.
  - destruct (set_attr a v sh) as [sh' r]. reflexivity.
Qed.

Lemma step_set_notes c d s i a v sl nt sh :
  nth_error (d_slides d) s = Some sl -> sl_notes sl = Some nt -> nth_error nt i = Some sh ->
  step c d (Edit (TNotes s i) (ESet a v)) =
  let '(sh', r) :=
    if is_ph sh then set_dim (fun b => Ok (notes_inh b (the_notes_master d) sh)) a v sh else set_attr a v sh in
  (set_slides d (upd_nth s (fun x => mk_slide (sl_layout x) (sl_shapes x) (Some (upd_nth i (fun _ => sh') nt)))
                         (d_slides d)), r).
Proof.
  intros H1 H2 H3. cbn [step]. rewrite H1, H2. unfold edit_tree. rewrite H3.
  unfold notes_setter, shape_setter. destruct (is_ph sh).
  - destruct (set_dim _ a v sh) as [sh' r]. reflexivity.
  - destruct (set_attr a v sh) as [sh' r]. reflexivity.
Qed.

Lemma step_set_layout c d l i a v L sh :
  nth_error (d_layouts d) l = Some L -> nth_error (l_shapes L) i = Some sh ->
  step c d (Edit (TLayout l i) (ESet a v)) =
  let '(sh', r) :=
    if is_ph sh then set_dim (fun b => layout_inh c b (nth (l_master L) (d_masters d) []) sh) a v sh
    else set_attr a v sh in
  (set_layouts d (upd_nth l (fun x => mk_layout (l_master x) (upd_nth i (fun _ => sh') (l_shapes L))) (d_layouts d)), r).
Proof.
  intros H1 H2. cbn [step]. rewrite H1. unfold edit_tree. rewrite H2.
  unfold layout_setter, shape_setter. destruct (is_ph sh).
  - destruct (set_dim _ a v sh) as [sh' r]. reflexivity.
  - destruct (set_attr a v sh) as [sh' r]. reflexivity.
Qed.

(** master and notes-master placeholders are MasterPlaceholder objects: the plain element setter *)
Lemma step_set_masters c d a v :
  (forall m i M sh, nth_error (d_masters d) m = Some M -> nth_error M i = Some sh ->
     step c d (Edit (TMaster m i) (ESet a v)) =
     (set_masters d (upd_nth m (fun _ => upd_nth i (fun _ => fst (set_attr a v sh)) M) (d_masters d)),
      snd (set_attr a v sh))) /\
  (forall i sh, nth_error (the_notes_master d) i = Some sh ->
     step c d (Edit (TNotesMaster i) (ESet a v)) =
     (set_notes_master (ensure_notes_master d)
        (Some (upd_nth i (fun _ => fst (set_attr a v sh)) (the_notes_master d))),
      snd (set_attr a v sh))).
Proof.
  split.
  - intros m i M sh H1 H2. cbn [step]. rewrite H1. unfold edit_tree. rewrite H2.
    destruct (set_attr a v sh) as [sh' r]. reflexivity.
  - intros i sh H2. cbn [step]. unfold edit_tree. rewrite H2.
    destruct (set_attr a v sh) as [sh' r]. reflexivity.
Qed.

Lemma upd_nth_id {A} (f : A -> A) : forall l n x, nth_error l n = Some x -> f x = x -> upd_nth n f l = l.
Proof.
  induction l as [|y l IH]; intros [|n] x; cbn; try discriminate.
  - intros H Hf; inversion H; subst. rewrite Hf. reflexivity.
  - intros H Hf. rewrite (IH n x H Hf). reflexivity.
Qed.

(** deck level, slide placeholder: an accepted assignment changes the reported value of that one
    dimension of that one shape; every other reported value of the deck is what it was *)
Lemma step_set_slide_geom c d s i a v sl sh d' :
  nth_error (d_slides d) s = Some sl -> nth_error (sl_shapes sl) i = Some sh -> is_ph sh = true ->
  step c d (Edit (TSlide s i) (ESet a v)) = (d', Ok tt) ->
  exists sl' sh',
    nth_error (d_slides d') s = Some sl' /\ nth_error (sl_shapes sl') i = Some sh' /\
    sl_layout sl' = sl_layout sl /\ sl_notes sl' = sl_notes sl /\
    length (sl_shapes sl') = length (sl_shapes sl) /\
    (forall j, j <> i -> nth_error (sl_shapes sl') j = nth_error (sl_shapes sl) j) /\
    length (d_slides d') = length (d_slides d) /\
    (forall t, t <> s -> nth_error (d_slides d') t = nth_error (d_slides d) t) /\
    d_layouts d' = d_layouts d /\ d_masters d' = d_masters d /\
    d_notes_master d' = d_notes_master d /\ d_orphans d' = d_orphans d /\
    s_ph sh' = s_ph sh /\ s_id sh' = s_id sh /\ s_name sh' = s_name sh /\ s_txbody sh' = s_txbody sh /\
    slide_geom c d' sl' a sh' = Ok (Some v) /\
    (forall b, b <> a -> exists w, slide_geom c d sl b sh = Ok w) /\
    (forall b x, b <> a -> slide_geom c d sl b sh = Ok (Some x) -> slide_geom c d' sl' b sh' = Ok (Some x)).
Proof.
  intros H1 H2 Hph. rewrite (step_set_slide c d s i a v sl sh H1 H2), Hph.
  destruct (set_dim _ a v sh) as [sh' r] eqn:E. intros H; inversion H; subst d' r; clear H.
  destruct (slide_set_keeps _ _ _ _ _ _ _ E) as [K1 [K2 [K3 [K4 [K5 [K6 [K7 _]]]]]]].
  exists (mk_slide (sl_layout sl) (upd_nth i (fun _ => sh') (sl_shapes sl)) (sl_notes sl)), sh'.
  cbn [d_slides set_slides d_layouts d_masters d_notes_master d_orphans sl_layout sl_shapes sl_notes].
  split; [rewrite nth_error_upd_nth_same, H1; reflexivity|].
  split; [rewrite nth_error_upd_nth_same, H2; reflexivity|].
  split; [reflexivity|]. split; [reflexivity|].
  split; [apply length_upd_nth|].
  split; [intros j Hj; apply nth_error_upd_nth_other; congruence|].
  split; [apply length_upd_nth|].
  split; [intros t Ht; apply nth_error_upd_nth_other; congruence|].
  do 4 (split; [reflexivity|]). do 4 (split; [assumption|]).
  unfold slide_geom, layout_tree, master_tree.
  cbn [d_slides set_slides d_layouts d_masters sl_layout].
  split; [exact K1|]. split; [exact K6|exact K7].
Qed.

Lemma step_set_slide_unchanged c d s i a v sl sh :
  nth_error (d_slides d) s = Some sl -> nth_error (sl_shapes sl) i = Some sh -> is_ph sh = true ->
  coord_ok a v = false \/
  (exists b e, b <> a /\ own b sh = None /\
     slide_inh c b (master_tree d (sl_layout sl)) (layout_tree d (sl_layout sl)) sh = Err e) ->
  exists e, step c d (Edit (TSlide s i) (ESet a v)) = (d, Err e).
Proof.
  intros H1 H2 Hph Hc. rewrite (step_set_slide c d s i a v sl sh H1 H2), Hph.
  destruct (set_dim_unchanged _ a v sh Hc) as [e ->]. exists e. f_equal.
  rewrite (upd_nth_id _ _ _ sl H1).
  - destruct d; reflexivity.
  - cbv beta. rewrite (upd_nth_id (fun _ => sh) _ _ sh H2 eq_refl). destruct sl; reflexivity.
Qed.

Lemma partial_maps {B} (tbl : list (N * B)) t :
  In t all_ph_types -> (dict_get t tbl = Err KeyErr <-> In t (missing tbl)).
Proof. intros Hin. rewrite dict_get_keyerr_iff, missing_spec. tauto. Qed.

Lemma placeholders_view t :
  Permutation (slide_placeholders t) (placeholders t) /\ Sorted idx_le (slide_placeholders t) /\
  (Sorted idx_le (placeholders t) -> slide_placeholders t = placeholders t).
Proof.
  split; [apply slide_placeholders_perm|]. split; [apply slide_placeholders_sorted|].
  apply slide_placeholders_id.
Qed.
