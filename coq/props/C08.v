(** C08 — the chart's cached values and its embedded workbook agree cell for cell.
    Statements over model/Xlsx.v; proofs in proofs/Xlsx_proofs.v.

    Reading guide.  [get sh r c] is the cell of Sheet1 at 0-based row r, column c.
    A structured reference [rng] has 1-based columns c1..c2 and rows r1..r2;
    [render_rng] is its text (Sheet1!$B$2:$B$5).  [agree_cat_ser sh e] / [agree_xy_ser sh e]
    (model/Xlsx.v) is the property for one c:ser: every reference is a well-formed
    range with as many rows as its c:ptCount, every c:pt idx lies inside, and every row
    of the range holds exactly what the cache says at that index (no cached point =
    empty cell); level i of a multi-level category cache reads column c2 - i; the c:f
    texts are the renderings of the structured references. *)
From V.lib Require Import Prelude.
From V.model Require Import Xlsx.
From V.proofs Require Import Xlsx_proofs.
Open Scope N_scope.

(** Column references: reading the letters back gives the number, for every n >= 1
    (no upper bound); letters are A..Z; at least one letter. *)
Theorem C08_colref : forall n, 1 <= n ->
  parse_col (column_letters n) = n /\
  Forall (fun ch => 65 <= ch <= 90) (column_letters n) /\
  column_letters n <> [].
Proof. exact (fun n H => conj (column_letters_inverse n H) (conj (column_letters_AZ n) (column_letters_nonempty n H))). Qed.
Print Assumptions C08_colref.

(** The guard of _column_reference: ValueError exactly outside 1..16384, the letters inside. *)
Theorem C08_colref_guard : forall n,
  (column_reference n = Err ValueErr <-> (n < 1 \/ 16384 < n)) /\
  (1 <= n <= 16384 -> column_reference n = Ok (column_letters n)).
Proof. exact column_reference_guard. Qed.
Print Assumptions C08_colref_guard.

(** The series references raise exactly when the series column (1 + depth + index,
    so category depth is accounted for) is beyond column 16384 = XFD, which is also
    the last column XlsxWriter stores. *)
Theorem C08_series_ref_guard : forall depth idx len,
  (values_ref_text depth idx len = Err ValueErr <-> 16384 < series_col_number depth idx) /\
  (series_name_ref_text depth idx = Err ValueErr <-> 16384 < series_col_number depth idx).
Proof. exact series_ref_text_guard. Qed.
Print Assumptions C08_series_ref_guard.

(** Category chart, series j: the name cell and the cell of every value, addressed
    through the structured references; range height = c:ptCount.  No hypothesis on the
    data beyond the sheet limits. *)
Theorem C08_cat_cells : forall d depth sh j s,
  forest_depth (cd_cats d) = Ok depth -> cat_sheet d = Ok sh ->
  nth_error (cd_series d) j = Some s ->
  series_col_number depth (N.of_nat j) <= xl_colmax ->
  let nr := series_name_rng depth (N.of_nat j) in
  let vr := values_rng depth (N.of_nat j) (len_N (s_vals s)) in
  get sh (r_r1 nr - 1) (r_c1 nr - 1) = xl_write_str (name_of (s_name s)) /\
  r_c1 vr = r_c2 vr /\ r_c1 vr = r_c1 nr /\
  r_r2 vr + 1 - r_r1 vr = pt_count (val_cache (s_vals s)) /\
  (forall k v, nth_error (s_vals s) k = Some v -> r_r1 vr - 1 + N.of_nat k < xl_rowmax ->
     get sh (r_r1 vr - 1 + N.of_nat k) (r_c1 vr - 1) = xl_cell (pv_of_val v)).
Proof. exact cat_cells_by_ref. Qed.
Print Assumptions C08_cat_cells.

(** Category chart, hierarchy level i (0 = leaves): as many levels as columns of the
    categories reference; the level's idx values are distinct and below the leaf count
    (= range height); the cell at row r1 + k of column c2 - i holds the label whose
    idx is k (a datetime label as the date of its day), and is empty when no category of
    that level has idx k. *)
Theorem C08_cat_levels : forall d depth sh i l k,
  forest_depth (cd_cats d) = Ok depth -> cat_sheet d = Ok sh -> 1 <= depth -> depth <= xl_colmax ->
  nth_error (levels (cd_cats d)) i = Some l ->
  let cr := categories_rng depth (forest_leaf_count (cd_cats d)) in
  k < forest_leaf_count (cd_cats d) -> forest_leaf_count (cd_cats d) < xl_rowmax ->
  r_c1 cr + N.of_nat i <= r_c2 cr /\
  r_r2 cr + 1 - r_r1 cr = forest_leaf_count (cd_cats d) /\
  len_N (levels (cd_cats d)) = r_c2 cr + 1 - r_c1 cr /\
  (forall e, In e l -> fst e < forest_leaf_count (cd_cats d)) /\
  NoDup (map fst l) /\
  get sh (r_r1 cr - 1 + k) (r_c2 cr - N.of_nat i - 1) =
    match lookup k l with Some lab => xl_cell (date_only lab) | None => Empty end.
Proof. exact cat_levels_by_ref. Qed.
Print Assumptions C08_cat_levels.

(** Category chart, the property: for all chart data in [cat_domain] (strings stored
    verbatim by XlsxWriter, no empty series, date or datetime labels only under date
    system 1900, rows within the sheet; any depth, None labels, datetime labels with a
    time of day are inside) every c:ser of the XML agrees with the sheet, for either
    value b of the chart's date1904 flag that [cat_domain b] allows. *)
Theorem C08_cat_chart : forall b d es sh,
  cat_domain b d = true -> cat_xml b d = Ok es -> cat_sheet d = Ok sh ->
  forallb (agree_cat_ser sh) es = true.
Proof. exact cat_chart_agrees. Qed.
Print Assumptions C08_cat_chart.

(** XY / bubble, series j of arbitrary lengths: what its table holds (offset = 2 j +
    points of all earlier series). *)
Theorem C08_xy_cells : forall b all j s,
  nth_error all j = Some s -> table_facts b (xy_sheet b all) (row_offset all j) s.
Proof. exact xy_sheet_facts. Qed.
Print Assumptions C08_xy_cells.

(** Tables of different series do not overlap: within a series name row <= first value
    row, X and Y ranges share rows; the last row series j refers to, plus a spacer row,
    lies before the first row a later series k refers to.  Any lengths, including 0. *)
Theorem C08_xy_tables_disjoint : forall b all j k sj sk,
  (j < k)%nat -> nth_error all j = Some sj -> nth_error all k = Some sk ->
  let ej := xy_ser_of b all j sj in
  let ek := xy_ser_of b all k sk in
  r_r1 (xs_name_rng ej) <= r_r1 (xs_x_rng ej) /\
  r_r1 (xs_x_rng ej) = r_r1 (xs_y_rng ej) /\ r_r2 (xs_x_rng ej) = r_r2 (xs_y_rng ej) /\
  r_r2 (xs_y_rng ej) + 1 < r_r1 (xs_name_rng ek) /\
  r_r1 (xs_name_rng ej) = row_offset all j + 1 /\
  r_r2 (xs_y_rng ej) = row_offset all j + 1 + xy_len sj.
Proof. exact xy_tables_disjoint. Qed.
Print Assumptions C08_xy_tables_disjoint.

Theorem C08_xy : forall all,
  xy_domain all = true -> forallb (agree_xy_ser (xy_sheet false all)) (xy_xml false all) = true.
Proof. exact (xy_chart_agrees false). Qed.
Print Assumptions C08_xy.

Theorem C08_bubble : forall all,
  xy_domain all = true -> forallb (agree_xy_ser (xy_sheet true all)) (xy_xml true all) = true.
Proof. exact (xy_chart_agrees true). Qed.
Print Assumptions C08_bubble.

(** Histories: after a new chart and any sequence of replace_data (and of changes of
    the chart's date1904 flag) that raises nothing, the XML and the sheet are those of
    the data written last, with the date system in force at that moment; one embedded
    workbook part; and the property holds whenever that data is in the domain. *)
Theorem C08_replace : forall d0 ops st,
  run_ops (new_chart d0) ops = Ok st ->
  let last := track d0 false false ops in
  xml_of (snd last) (fst last) = Ok (ch_xml st) /\ sheet_of (fst last) = Ok (ch_sheet st) /\
  ch_parts st = 1 /\
  (data_domain (snd last) (fst last) = true -> agree_chart st = true).
Proof. exact history_agrees. Qed.
Print Assumptions C08_replace.

(** The texts written into c:f are the renderings of the structured references, for
    every depth and column within the sheet limits. *)
Theorem C08_ref_texts :
  (forall depth idx len t, values_ref_text depth idx len = Ok t -> t = render_rng (values_rng depth idx len)) /\
  (forall depth idx t, series_name_ref_text depth idx = Ok t ->
     t = render_cell (column_letters (r_c1 (series_name_rng depth idx))) (r_r1 (series_name_rng depth idx))) /\
  (forall depth leafs t, categories_ref_text depth leafs = Ok t ->
     t = render_rng (categories_rng depth leafs)) /\
  (forall col off len, 1 <= col <= 26 -> xy_col_ref_text col off len = render_rng (xy_col_rng col off len)) /\
  (forall off, xy_name_ref_text off = render_cell (column_letters (r_c1 (xy_name_rng off))) (r_r1 (xy_name_rng off))).
Proof.
  exact (conj values_ref_text_render (conj series_name_ref_text_render
        (conj categories_ref_text_render (conj xy_ref_text_render xy_name_ref_text_render)))).
Qed.
Print Assumptions C08_ref_texts.

(** categories_ref raises exactly without categories or beyond column 16384, and is
    the rendering of the structured reference for every depth inside. *)
Theorem C08_categories_ref_guard : forall depth leafs,
  (categories_ref_text depth leafs = Err ValueErr <-> (depth = 0 \/ 16384 < depth)) /\
  (1 <= depth <= 16384 -> categories_ref_text depth leafs = Ok (render_rng (categories_rng depth leafs))).
Proof. exact categories_ref_text_guard. Qed.
Print Assumptions C08_categories_ref_guard.

(** Edge the proof forces: an empty series gets a reversed range ($B$2:$B$1). *)
Theorem C08_empty_series_range : forall depth idx col off,
  r_r2 (values_rng depth idx 0) < r_r1 (values_rng depth idx 0) /\
  r_r2 (xy_col_rng col off 0) < r_r1 (xy_col_rng col off 0).
Proof. exact empty_series_range. Qed.
Print Assumptions C08_empty_series_range.

Theorem C08_empty_series_ref_text :
  values_ref_text 1 0 0 = Ok [83; 104; 101; 101; 116; 49; 33; 36; 66; 36; 50; 58; 36; 66; 36; 49].
Proof. exact empty_series_ref_text. Qed.
Print Assumptions C08_empty_series_ref_text.

(** Outside the domain the faithful model refutes the property (cat_verdict = Some
    false: XML and sheet are produced and disagree): a name starting with =, an empty
    series, a date label on a chart whose XML says date1904 (the same data agrees under
    1900); XY and bubble data with an empty series. *)
Theorem C08_outside_domain_refuted :
  cat_verdict false w_formula = Some false /\ cat_verdict false w_empty = Some false /\
  cat_verdict true w_date = Some false /\ cat_verdict false w_date = Some true /\
  xy_verdict false w_xy_empty = false /\ xy_verdict true w_xy_empty = false.
Proof. exact witnesses_refuted. Qed.
Print Assumptions C08_outside_domain_refuted.

Theorem C08_long_string_refuted : forall s,
  formula_like s = false -> array_formula_like s = false -> url_like s = false ->
  xl_strmax < len_N s ->
  exists s', xl_write_str s = Str s' /\ len_N s' = xl_strmax /\ s' <> s /\
             cell_agrees (Some (CStr s)) (xl_write_str s) = false.
Proof. exact long_string_truncated. Qed.
Print Assumptions C08_long_string_refuted.

(** Non-vacuity: concrete data inside the domains (three-level ragged hierarchy with
    None and number labels; dates either side of 1900-03-01 and a midnight datetime;
    XY / bubble series of lengths 2, 1, 3), a history, column references. *)
Example C08_examples_in_domain :
  cat_domain false ex_cat = true /\ cat_verdict false ex_cat = Some true /\
  cat_domain false ex_dates = true /\ cat_verdict false ex_dates = Some true /\
  xy_domain ex_xy = true /\ xy_verdict false ex_xy = true /\ xy_verdict true ex_xy = true.
Proof. exact examples_in_domain. Qed.

Example C08_example_history :
  exists st, run_ops (new_chart (CatD ex_cat)) [OpReplace (CatD ex_dates); OpDate1904 true; OpReplace (CatD ex_cat)] = Ok st
             /\ agree_chart st = true /\ ch_parts st = 1.
Proof. exact example_history. Qed.

Example C08_example_long_string :
  formula_like w_long = false /\ array_formula_like w_long = false /\ url_like w_long = false /\
  xl_strmax < len_N w_long.
Proof. exact w_long_hyps. Qed.

(** Regression: the witnesses that refuted the property before the fixes of
    _write_cat_column, categories_ref and numeric_str_val (datetime label with a time of
    day, datetime(1900,1,1), None among numeric labels, 27 category levels) are in the
    domain and agree. *)
Example C08_former_witnesses_agree :
  cat_domain false w_time = true /\ cat_verdict false w_time = Some true /\
  cat_domain false w_1900 = true /\ cat_verdict false w_1900 = Some true /\
  cat_domain false w_none = true /\ cat_verdict false w_none = Some true /\
  cat_domain false w_depth27 = true /\ cat_verdict false w_depth27 = Some true /\
  categories_ref_text 27 1 = Ok [83; 104; 101; 101; 116; 49; 33; 36; 65; 36; 50; 58; 36; 65; 65; 36; 50].
Proof. exact former_witnesses_agree. Qed.

Example C08_example_colref :
  column_reference 703 = Ok [65; 65; 65] /\ column_reference 16384 = Ok [88; 70; 68] /\
  column_reference 16385 = Err ValueErr /\ column_reference 0 = Err ValueErr /\ parse_col [88; 70; 68] = 16384.
Proof. exact example_colref. Qed.
