(** C06 -- the id and part-name allocators of python-pptx as functions of the
    population they scan.  Executable definitions only (no proofs).

    Sources mirrored (python-pptx, src/pptx):
    - oxml/shapes/groupshape.py  CT_GroupShape.max_shape_id, _next_shape_id (first gap)
    - shapes/shapetree.py        _BaseShapes._next_shape_id, turbo_add_enabled (cache)
    - oxml/slide.py              CT_TimeNodeList._next_cTn_id
    - oxml/presentation.py       CT_SlideIdList._next_id
    - opc/package.py             _Relationships._next_rId, get_or_add, pop, load_from_xml,
                                 XmlPart.drop_rel, OpcPackage.next_partname
    - package.py                 Package.next_image_partname, next_media_partname
    - parts/presentation.py      rename_slide_parts, _next_slide_partname
    and the CPython 3.12 builtins they lean on: str.isdigit, int of a str, sorted, max. *)
From V.lib Require Import Prelude Wire.
From V.model Require Import PackUri.

(* ------------------------------------------------------------------------------ *)
(** * CPython 3.12 (Unicode 15.0) character classes used by str.isdigit and int *)

(** Code point of the digit zero of every block of ten decimal digits (category Nd);
    the ten digits of a block are consecutive and have the values 0 to 9. *)
Definition decimal_zeros : list N :=
  [48; 1632; 1776; 1984; 2406; 2534; 2662; 2790; 2918; 3046; 3174; 3302; 3430; 3558;
   3664; 3792; 3872; 4160; 4240; 6112; 6160; 6470; 6608; 6784; 6800; 6992; 7088; 7232;
   7248; 42528; 43216; 43264; 43472; 43504; 43600; 44016; 65296; 66720; 68912; 69734;
   69872; 69942; 70096; 70384; 70736; 70864; 71248; 71360; 71472; 71904; 72016; 72784;
   73040; 73120; 73552; 92768; 92864; 93008; 120782; 120792; 120802; 120812; 120822;
   123200; 123632; 124144; 125264; 130032]%N.

(** Characters with Numeric_Type=Digit that are not decimal (superscripts, subscripts,
    circled digits, Ethiopic, Kharoshthi, Rumi, Brahmi, ...): str.isdigit accepts them,
    int rejects them. *)
Definition digit_only_ranges : list (N * N) :=
  [(178, 179); (185, 185); (4969, 4977); (6618, 6618); (8304, 8304); (8308, 8313);
   (8320, 8329); (9312, 9320); (9332, 9340); (9352, 9360); (9450, 9450); (9461, 9469);
   (9471, 9471); (10102, 10110); (10112, 10120); (10122, 10130); (68160, 68163);
   (69216, 69224); (69714, 69722); (127232, 127242)]%N.

(** Non-ASCII characters that int treats as white space (Py_UNICODE_ISSPACE). *)
Definition uni_space_ranges : list (N * N) :=
  [(133, 133); (160, 160); (5760, 5760); (8192, 8202); (8232, 8233); (8239, 8239);
   (8287, 8287); (12288, 12288)]%N.

Definition in_rng (c : N) (r : N * N) : bool := (fst r <=? c)%N && (c <=? snd r)%N.

Fixpoint decimal_in (zs : list N) (c : N) : option N :=
  match zs with
  | [] => None
  | z :: zs' => if (z <=? c)%N && (c <=? z + 9)%N then Some (c - z)%N else decimal_in zs' c
  end.
Definition py_decimal (c : N) : option N := decimal_in decimal_zeros c.

Definition py_isdigit_char (c : N) : bool :=
  match py_decimal c with
  | Some _ => true
  | None => existsb (in_rng c) digit_only_ranges
  end.

(** str.isdigit: non-empty and every character is a digit character. *)
Definition py_isdigit (s : str) : bool :=
  match s with [] => false | _ => forallb py_isdigit_char s end.

(** str.isdecimal: non-empty and every character is a decimal digit (category Nd).  This
    is the filter of the two //@id scans since the repair of the isdigit defect. *)
Definition is_dec (c : N) : bool := match py_decimal c with Some _ => true | None => false end.
Definition py_isdecimal (s : str) : bool :=
  match s with [] => false | _ => forallb is_dec s end.

(** ** int of a str, base 10 (PyLong_FromUnicodeObject + PyLong_FromString) *)
Inductive tok := TSpace | TDigit (d : N) | TPlus | TMinus | TUnder | TBad.

Definition is_ascii_space (c : N) : bool := ((9 <=? c)%N && (c <=? 13)%N) || N.eqb c 32.

Definition tok_of (c : N) : tok :=
  if (c <? 127)%N then
    if is_ascii_space c then TSpace
    else if is_digit c then TDigit (c - 48)%N
    else if N.eqb c 43 then TPlus
    else if N.eqb c 45 then TMinus
    else if N.eqb c 95 then TUnder
    else TBad
  else if existsb (in_rng c) uni_space_ranges then TSpace
  else match py_decimal c with Some d => TDigit d | None => TBad end.

Definition is_tspace (t : tok) : bool := match t with TSpace => true | _ => false end.

(** digits with single underscores between them; returns value, digit count, rest *)
Fixpoint scan_digits (l : list tok) (prev_us : bool) (acc : Z) (cnt : N)
  : option (Z * N * list tok) :=
  match l with
  | TDigit d :: r => scan_digits r false (acc * 10 + Z.of_N d)%Z (cnt + 1)%N
  | TUnder :: r => if prev_us then None else scan_digits r true acc cnt
  | _ => if prev_us then None else Some (acc, cnt, l)
  end.

Definition max_str_digits : N := 4300%N.

Definition parse_unsigned (l : list tok) : res Z :=
  match l with
  | TDigit _ :: _ =>
      match scan_digits l false 0%Z 0%N with
      | Some (v, cnt, rest) =>
          if forallb is_tspace rest
          then if (max_str_digits <? cnt)%N then Err ValueErr else Ok v
          else Err ValueErr
      | None => Err ValueErr
      end
  | _ => Err ValueErr
  end.

Definition py_int (s : str) : res Z :=
  match drop_while is_tspace (map tok_of s) with
  | TPlus :: r => parse_unsigned r
  | TMinus :: r => bind (parse_unsigned r) (fun v => Ok (- v)%Z)
  | l => parse_unsigned l
  end.

(* ------------------------------------------------------------------------------ *)
(** * Small list utilities *)

Fixpoint mapM {A B} (f : A -> res B) (l : list A) : res (list B) :=
  match l with
  | [] => Ok []
  | x :: l' => bind (f x) (fun y => bind (mapM f l') (fun ys => Ok (y :: ys)))
  end.

Definition memZ (x : Z) (l : list Z) : bool := existsb (Z.eqb x) l.

(** Python max of a non-empty list given as head and tail *)
Definition max_from (x : Z) (l : list Z) : Z := fold_left Z.max l x.

Fixpoint insertZ (x : Z) (l : list Z) : list Z :=
  match l with
  | [] => [x]
  | y :: l' => if (x <=? y)%Z then x :: l else y :: insertZ x l'
  end.
(** sorted (ascending; equal elements all kept) *)
Definition sortZ (l : list Z) : list Z := fold_right insertZ [] l.

(** keys of a dict built by inserting the given keys in order *)
Fixpoint dedup (l : list str) : list str :=
  match l with
  | [] => []
  | x :: l' => x :: filter (fun y => negb (str_eqb x y)) (dedup l')
  end.

(* ------------------------------------------------------------------------------ *)
(** * Shape ids *)

(** [ids]: every value found by the xpath //@id in the slide document, document order.
    used_ids = [int(s) for s in ids if s.isdecimal()] ; int may raise ValueError (only
    beyond 4300 digits, see the proofs). *)
Definition used_ids (ids : list str) : res (list Z) := mapM py_int (filter py_isdecimal ids).

Definition max_of_used (u : list Z) : Z :=
  match u with [] => 0%Z | x :: r => max_from x r end.

(** CT_GroupShape.max_shape_id *)
Definition max_shape_id (ids : list str) : res Z :=
  bind (used_ids ids) (fun u => Ok (max_of_used u)).

(** _BaseShapes._next_shape_id with turbo off *)
Definition next_shape_id_max (ids : list str) : res Z :=
  bind (max_shape_id ids) (fun m => Ok (m + 1)%Z).

(** for n in range(start, ...) taking [fuel] values: first n not in used *)
Fixpoint first_gap (fuel : nat) (n : Z) (u : list Z) : option Z :=
  match fuel with
  | O => None
  | S f => if memZ n u then first_gap f (n + 1)%Z u else Some n
  end.

(** CT_GroupShape._next_shape_id : range(1, len(used)+2); falling off the loop returns
    None and the caller then evaluates None - 1, a TypeError. *)
Definition next_shape_id_gap (ids : list str) : res Z :=
  bind (used_ids ids) (fun u =>
    match first_gap (S (length u)) 1%Z u with
    | Some n => Ok n
    | None => Err TypeErr
    end).

(** CT_TimeNodeList._next_cTn_id : no isdigit filter, max of an empty list raises *)
Definition next_cTn_id (ids : list str) : res Z :=
  bind (mapM py_int ids) (fun u =>
    match u with
    | [] => Err ValueErr
    | x :: r => Ok (max_from x r + 1)%Z
    end).

(** _BaseShapes._next_ph_name: basename, a space, and a number starting at id-1 that is
    incremented while the name is taken (names = //p:cNvPr/@name).  The loop is a while
    True in the code; here it runs on fuel and the proofs show the fuel suffices. *)
Definition ph_name (base : str) (n : N) : str := base ++ [32%N] ++ dec_of_N n.
Fixpoint ph_name_search (fuel : nat) (base : str) (n : N) (names : list str) : option str :=
  match fuel with
  | O => None
  | S f => if mem_str (ph_name base n) names
           then ph_name_search f base (n + 1)%N names
           else Some (ph_name base n)
  end.
Definition next_ph_name (base : str) (numpart : N) (names : list str) : option str :=
  ph_name_search (S (length names)) base numpart names.

(** ** The slide-like part as a state machine.
    [shape_ids]: the p:cNvPr/@id values (shape identities); [other_ids]: every other
    attribute named id in the document (connection references, time nodes, extension
    data); [caches]: the _cached_max_shape_id of each live shape-collection proxy
    (handle 0 = slide.shapes, handle k = the shapes proxy of the k-th group). *)
Record sstate := mkS { shape_ids : list str; other_ids : list str; caches : list (option Z) }.

Definition all_ids (st : sstate) : list str := shape_ids st ++ other_ids st.

Inductive sop :=
| AddMax (h : nat)          (* add_shape, add_textbox, add_picture, add_connector, add_table,
                               add_chart, clone_placeholder ... through proxy h *)
| AddGap                    (* add_group_shape, freeform: CT_GroupShape._next_shape_id *)
| SetTurbo (h : nat) (b : bool)
| NewHandle                 (* a further proxy object (group.shapes, or a second Slide) *)
| Connect (i : nat).        (* begin_connect/end_connect to the i-th shape: a:stCxn/@id *)

Fixpoint set_nth {A} (n : nat) (x : A) (l : list A) : list A :=
  match n, l with
  | _, [] => []
  | O, _ :: r => x :: r
  | S k, y :: r => y :: set_nth k x r
  end.

(** _BaseShapes._next_shape_id through proxy h *)
Definition alloc_via (h : nat) (st : sstate) : res (Z * sstate) :=
  match nth_error (caches st) h with
  | None => Err IndexErr
  | Some (Some c) =>
      Ok ((c + 1)%Z, mkS (shape_ids st) (other_ids st) (set_nth h (Some (c + 1)%Z) (caches st)))
  | Some None => bind (next_shape_id_max (all_ids st)) (fun n => Ok (n, st))
  end.

Definition push_shape (n : Z) (st : sstate) : sstate :=
  mkS (shape_ids st ++ [show_Z n]) (other_ids st) (caches st).

Definition step (st : sstate) (op : sop) : sstate * res Z :=
  match op with
  | AddMax h =>
      match alloc_via h st with
      | Ok (n, st') => (push_shape n st', Ok n)
      | Err e => (st, Err e)
      end
  | AddGap =>
      match next_shape_id_gap (all_ids st) with
      | Ok n => (push_shape n st, Ok n)
      | Err e => (st, Err e)
      end
  | SetTurbo h b =>
      match nth_error (caches st) h with
      | None => (st, Err IndexErr)
      | Some _ =>
          if b then
            match max_shape_id (all_ids st) with
            | Ok m => (mkS (shape_ids st) (other_ids st) (set_nth h (Some m) (caches st)), Ok m)
            | Err e => (st, Err e)
            end
          else (mkS (shape_ids st) (other_ids st) (set_nth h None (caches st)), Ok 0%Z)
      end
  | NewHandle => (mkS (shape_ids st) (other_ids st) (caches st ++ [None]), Ok 0%Z)
  | Connect i =>
      match nth_error (shape_ids st) i with
      | None => (st, Err IndexErr)
      | Some s =>
          match py_int s with
          | Ok v =>
              (* the stCxn/@id setter validates xsd:unsignedInt *)
              if (0 <=? v)%Z && (v <=? 4294967295)%Z
              then (mkS (shape_ids st) (other_ids st ++ [show_Z v]) (caches st), Ok v)
              else (st, Err ValueErr)
          | Err e => (st, Err e)
          end
      end
  end.

Fixpoint run_ops (st : sstate) (ops : list sop) : sstate * list (res Z) :=
  match ops with
  | [] => (st, [])
  | op :: r => let '(st1, o) := step st op in
               let '(st2, os) := run_ops st1 r in (st2, o :: os)
  end.

(** numeric values of the identifiers that int accepts (the ids the allocators see) *)
Fixpoint num_ids (l : list str) : list Z :=
  match l with
  | [] => []
  | s :: r => if py_isdecimal s
              then match py_int s with Ok v => v :: num_ids r | Err _ => num_ids r end
              else num_ids r
  end.

(* ------------------------------------------------------------------------------ *)
(** * Slide ids : CT_SlideIdList._next_id *)

Definition MIN_SLIDE_ID : Z := 256%Z.
Definition MAX_SLIDE_ID : Z := 2147483647%Z.

Definition slide_id_valid (i : Z) : bool := (MIN_SLIDE_ID <=? i)%Z && (i <=? MAX_SLIDE_ID)%Z.

(** next(c for c, u in enumerate(valid, start) if c != u) *)
Fixpoint enum_first_neq (c : Z) (l : list Z) : res Z :=
  match l with
  | [] => Err StopIter
  | u :: r => if (c =? u)%Z then enum_first_neq (c + 1)%Z r else Ok c
  end.

Definition next_slide_id_Z (used : list Z) : res Z :=
  let simple_next := (max_from (MIN_SLIDE_ID - 1)%Z used + 1)%Z in
  if (simple_next <=? MAX_SLIDE_ID)%Z then Ok simple_next
  else
    let valid := sortZ (filter slide_id_valid used) in
    match valid with
    | [] => Ok 256%Z
    | _ => enum_first_neq MIN_SLIDE_ID valid
    end.

(** [ids]: the p:sldId/@id strings in document order; int is applied to every one *)
Definition next_slide_id (ids : list str) : res Z :=
  bind (mapM py_int ids) next_slide_id_Z.

(** add_sldId appends a p:sldId carrying the new id (written with str of an int); the
    ST_SlideId setter re-validates the range and raises ValueError outside it *)
Definition add_sldId (ids : list str) : res (list str) :=
  bind (next_slide_id ids) (fun n =>
    if slide_id_valid n then Ok (ids ++ [show_Z n]) else Err ValueErr).

Fixpoint add_slides (n : nat) (ids : list str) : list str * list (res Z) :=
  match n with
  | O => (ids, [])
  | S k =>
      match add_sldId ids with
      | Ok ids' => let '(f, os) := add_slides k ids' in (f, next_slide_id ids :: os)
      | Err e => let '(f, os) := add_slides k ids in (f, Err e :: os)
      end
  end.

(* ------------------------------------------------------------------------------ *)
(** * Relationship ids *)

Definition s_rId : str := [114; 73; 100]%N.                       (* rId *)
Definition rId_name (n : N) : str := s_rId ++ dec_of_N n.

(** for n in range(len+1, 0, -1): first candidate not among the keys; else raise Exception *)
Fixpoint rid_down (n : nat) (keys : list str) : res str :=
  match n with
  | O => Err OtherErr
  | S k => let cand := rId_name (N.of_nat n) in
           if mem_str cand keys then rid_down k keys else Ok cand
  end.

(** [keys]: the keys of the _rels dict (distinct by construction of a dict) *)
Definition next_rId (keys : list str) : res str := rid_down (S (length keys)) keys.

(** load_from_xml: dict.update over the Relationship elements, later duplicates overwrite
    the value of an earlier key; the key set is the de-duplicated Id list *)
Definition load_keys (xml_ids : list str) : list str := dedup xml_ids.

(** A relationship collection: (rId, target-identity) in dict order, and the r:id
    references present in the part XML. *)
Record rstate := mkR { rels : list (str * str); refs : list str }.
Definition rkeys (st : rstate) : list str := map fst (rels st).

Fixpoint find_target (t : str) (l : list (str * str)) : option str :=
  match l with
  | [] => None
  | (k, t') :: r => if str_eqb t t' then Some k else find_target t r
  end.

Fixpoint remove_nth {A} (i : nat) (l : list A) : list A :=
  match i, l with
  | _, [] => []
  | O, _ :: r => r
  | S k, y :: r => y :: remove_nth k r
  end.

Definition count_str (x : str) (l : list str) : nat := length (filter (str_eqb x) l).

Inductive rop :=
| Relate (t : str)     (* part.relate_to(target): get_or_add, then the caller writes r:id *)
| DropRef (i : nat).   (* drop_rel(rId of the i-th reference) then remove that reference *)

Definition rstep (st : rstate) (op : rop) : rstate * res str :=
  match op with
  | Relate t =>
      match find_target t (rels st) with
      | Some k => (mkR (rels st) (refs st ++ [k]), Ok k)
      | None =>
          match next_rId (rkeys st) with
          | Ok k => (mkR (rels st ++ [(k, t)]) (refs st ++ [k]), Ok k)
          | Err e => (st, Err e)
          end
      end
  | DropRef i =>
      match nth_error (refs st) i with
      | None => (st, Err IndexErr)
      | Some k =>
          if Nat.ltb (count_str k (refs st)) 2 then
            if mem_str k (rkeys st)
            then (mkR (filter (fun p => negb (str_eqb k (fst p))) (rels st))
                      (remove_nth i (refs st)), Ok k)
            else (st, Err KeyErr)          (* dict.pop of a missing key *)
          else (mkR (rels st) (remove_nth i (refs st)), Ok k)
      end
  end.

Fixpoint rrun (st : rstate) (ops : list rop) : rstate * list (res str) :=
  match ops with
  | [] => (st, [])
  | op :: r => let '(st1, o) := rstep st op in
               let '(st2, os) := rrun st1 r in (st2, o :: os)
  end.

(* ------------------------------------------------------------------------------ *)
(** * Part names *)

Definition s_42 : str := [52; 50]%N.
Definition s_pct_d : str := [37; 100]%N.

(** str.find for a two-character needle: index of the first occurrence, or None (-1) *)
Fixpoint find2 (a b : N) (s : str) (i : nat) : option nat :=
  match s with
  | x :: ((y :: _) as r) => if N.eqb x a && N.eqb y b then Some i else find2 a b r (S i)
  | _ => None
  end.

(** template pre ++ %d ++ post applied to n *)
Definition tmpl_apply (pre post : str) (n : N) : str := pre ++ dec_of_N n ++ post.

(** prefix = tmpl[: (tmpl % 42).find(42)] ; a find result of -1 slices off the last char *)
Definition tmpl_prefix (pre post : str) : str :=
  let tmpl := pre ++ s_pct_d ++ post in
  match find2 52 50 (tmpl_apply pre post 42) 0 with
  | Some k => firstn k tmpl
  | None => removelast tmpl
  end.

Fixpoint pn_down (n : nat) (pre post : str) (names : list str) : res str :=
  match n with
  | O => Err OtherErr
  | S k => let cand := tmpl_apply pre post (N.of_nat n) in
           if mem_str cand names then pn_down k pre post names else packuri_new cand
  end.

(** OpcPackage.next_partname over the part names reachable in the package *)
Definition next_partname (pre post : str) (names : list str) : res str :=
  let prefix := tmpl_prefix pre post in
  let partnames := dedup (filter (starts_with prefix) names) in
  pn_down (S (length partnames)) pre post partnames.

Definition s_img_prefix : str :=
  [47; 112; 112; 116; 47; 109; 101; 100; 105; 97; 47; 105; 109; 97; 103; 101]%N.  (* /ppt/media/image *)
Definition s_med_prefix : str :=
  [47; 112; 112; 116; 47; 109; 101; 100; 105; 97; 47; 109; 101; 100; 105; 97]%N.  (* /ppt/media/media *)

(** for i, x in enumerate(sorted): if i+1 < x: return i+1 ; return len+1 *)
Fixpoint first_below (i : Z) (l : list Z) : Z :=
  match l with
  | [] => i
  | x :: r => if (i <? x)%Z then i else first_below (i + 1)%Z r
  end.

Fixpoint opts_some {A} (l : list (option A)) : list A :=
  match l with
  | [] => []
  | Some x :: r => x :: opts_some r
  | None :: r => opts_some r
  end.

Definition image_idxs (names : list str) : list Z :=
  map Z.of_N (opts_some (map idx (filter (starts_with s_img_prefix) names))).

Definition next_image_idx (names : list str) : Z := first_below 1%Z (sortZ (image_idxs names)).

Definition next_image_partname (ext : str) (names : list str) : res str :=
  packuri_new (s_img_prefix ++ show_Z (next_image_idx names) ++ [c_dot] ++ ext).

(** next_media_partname has no None filter: sorting or comparing None raises TypeError *)
Definition next_media_idx (names : list str) : res Z :=
  let l := map idx (filter (starts_with s_med_prefix) names) in
  if forallb (fun o => match o with Some _ => true | None => false end) l
  then Ok (first_below 1%Z (sortZ (map Z.of_N (opts_some l))))
  else Err TypeErr.

Definition next_media_partname (ext : str) (names : list str) : res str :=
  bind (next_media_idx names) (fun i =>
    packuri_new (s_med_prefix ++ show_Z i ++ [c_dot] ++ ext)).

(** ** Slide part names *)
Definition s_slide_pre : str :=
  [47; 112; 112; 116; 47; 115; 108; 105; 100; 101; 115; 47; 115; 108; 105; 100; 101]%N. (* /ppt/slides/slide *)
Definition s_xml_post : str := [46; 120; 109; 108]%N.                                    (* .xml *)
Definition slide_name (n : N) : str := tmpl_apply s_slide_pre s_xml_post n.

Fixpoint lookup_rel (rId : str) (l : list (str * nat)) : option nat :=
  match l with
  | [] => None
  | (k, p) :: r => if str_eqb rId k then Some p else lookup_rel rId r
  end.

(** rename_slide_parts: [prels] = relationships of the presentation part (rId, index
    of the target part); [names] = the part name of every part of the package by
    index.  A missing rId raises KeyError after the earlier renames have happened
    (the model returns the error only). *)
Fixpoint rename_from (i : N) (prels : list (str * nat)) (rIds : list str) (names : list str)
  : res (list str) :=
  match rIds with
  | [] => Ok names
  | rId :: r =>
      match lookup_rel rId prels with
      | None => Err KeyErr
      | Some p => rename_from (i + 1)%N prels r (set_nth p (slide_name i) names)
      end
  end.
Definition rename_slide_parts prels rIds names := rename_from 1%N prels rIds names.

(** the part names in the package once rename_slide_parts has returned or raised: the
    renames that precede the first rId that does not resolve have happened *)
Fixpoint rename_effect_from (i : N) (prels : list (str * nat)) (rIds : list str) (names : list str)
  : list str :=
  match rIds with
  | [] => names
  | rId :: r =>
      match lookup_rel rId prels with
      | None => names
      | Some p => rename_effect_from (i + 1)%N prels r (set_nth p (slide_name i) names)
      end
  end.
Definition rename_effect prels rIds names := rename_effect_from 1%N prels rIds names.

(** _next_slide_partname (since repair 086e8ef1): the conventional name, one more than the
    number of p:sldId entries, unless a part reachable in the package ([names]: the part
    name of every part OpcPackage.iter_parts yields) already carries it; then
    OpcPackage.next_partname over the same parts, with its downward search.  A part
    object always has its package (the None test of the code never fires). *)
Definition next_slide_partname (n_sldId : nat) (names : list str) : res str :=
  let cand := slide_name (N.of_nat n_sldId + 1)%N in
  if mem_str cand names then next_partname s_slide_pre s_xml_post names
  else packuri_new cand.
