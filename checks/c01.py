"""C01 — opening and saving a package preserves every reachable part and relationship.

translate (tx/tx_c01.py: default_content_types, part-class map, accepted main types)
-> prove (props/C01.v over model/Opc.v + gen/GenC01.v)
-> correspond: packages from a random graph generator written by an independent OPC
   writer (checks/opc_common.py), delivered as zip path, file-like object and directory,
   opened with pptx.opc.package.OpcPackage.open and saved; loaded graph, saved members,
   content types, decoded rels, payloads and second-save identity against the extracted
   model (coq/extract/run_c01); every corpus deck likewise.
   codec: the concrete codec of model/OpcCodec.v (proofs/OpcCodec_proofs.v: dec (enc l) = Some l
   for every list of XML strings) against lxml: the text _Relationships.xml / serialize_part_xml
   of CT_Types really write, and what _Relationships.load_from_xml / _ContentTypeMap.from_xml
   read back from those bytes, on generated relationship lists and content-type tables; for one
   list in three also a variant of the same document (other reference forms, literal white space
   in attribute values, explicit TargetMode) read by the loader and by the model reader.
-> oracle: the property's statement evaluated on the saved bytes with an independent
   reading of OPC (zipfile + lxml + posixpath), no model involved.
"""
import base64
import glob
import io
import json
import os
import re
import shutil
import tempfile

from checks import opc_common as oc
from corr.harness import COQ, REPO, VERIF, _run, coq_build, dec, run_model

TB = [
    "tx/tx_c01.py (transcribes opc/spec.py default_content_types, the content-type -> part-class map after import pptx, the initial defaults of _ContentTypesItem, api._is_pptx_package and the main-part relationship type; fail-closed via `unmodelled`)",
    "zipfile (member list and bytes; a duplicated member name resolves to its last entry), os.path / open for the directory form, lxml parse and serialise of [Content_Types].xml, rels items and XML payloads: modelled structurally (env fields dec/enc/reser), tied by this correspondence",
    "checks/opc_common.py: independent OPC writer/reader used to build inputs and to decode outputs",
    "model/PackUri.v for part-name arithmetic (C19)",
    "model/OpcCodec.v: text-level writer and reader of the rels item and the content types item (attribute values through sax_escape_qw / lex_attr of model/Escape.v, C05), tied to lxml by the codec phase of this check (byte-for-byte on what _Relationships.xml / serialize_part_xml write, and on what load_from_xml / _ContentTypeMap.from_xml read back); UTF-8 between bytes and code points is Python's codec",
]
ASSUME = [
    "dec_rels (enc_rels l) = Some l, dec_ct (enc_ct c) = Some c, reser idempotent: premises of the abstract-env theorems (codec_ok), observed on every generated package (second-save byte identity); the first two are PROVED for the concrete codec of model/OpcCodec.v on every list / table of XML-character strings (proofs/OpcCodec_proofs.v dec_enc_rels, dec_enc_ct) and the theorems are re-proved under that restricted hypothesis (c01_rels_xml, c01_payload_type_xml, c01_idem_xml); codec_ok itself, quantified over all lists, is refuted for any XML reader (codec_ok_too_strong); reser idempotent stays a premise of the second-save theorem only",
    "str.lower / str.isdigit are modelled on ASCII only; generated names flip the case of ASCII letters only and relationship ids use ASCII digits",
    "a relationship target that names [Content_Types].xml or a rels item, and member names that are not normalised part names, are outside wf (the writer would emit a duplicated zip member)",
    "Python recursion depth (about 1000 frames) is not modelled: the model's fuel always suffices, the implementation raises RecursionError on relationship chains several hundred parts deep",
    "Relationship / Default / Override elements lacking a required attribute are outside the structural decoding (InvalidXmlError is raised lazily by the implementation)",
]


def corpus():
    out = []
    for d in ("src/pptx/templates", "tests/test_files", "features/steps/test_files"):
        out += sorted(glob.glob(os.path.join(REPO, d, "*.pptx")))
    return out


def dedupe(members):
    return list(oc.as_dict(members).items())


def features(g):
    """Shape of the generated graph, for the measured input distribution."""
    f = []
    lg = oc.logical(g.members)
    if lg is None:
        return ["no-ct"], 0
    krels, parts = lg
    tcount = {}
    for src_rels in [krels] + [p[2] for p in parts.values()]:
        for _rid, _t, ext, tgt in src_rels:
            if ext:
                f.append("external")
            else:
                tcount[tgt] = tcount.get(tgt, 0) + 1
    if any(v > 1 for v in tcount.values()):
        f.append("shared-target")
    # cycle: a part that reaches itself
    def reach(a):
        seen, st = set(), [t for _r, _t, e, t in parts[a][2] if not e]
        while st:
            x = st.pop()
            if x in seen:
                continue
            seen.add(x)
            st += [t for _r, _t, e, t in parts[x][2] if not e]
        return seen
    if any(a in reach(a) for a in parts):
        f.append("cycle")
    if any(n.count("/") >= 4 for n in parts):
        f.append("deep")
    exts = {}
    for n, (ct, _b, _r) in parts.items():
        e = n.rsplit("/", 1)[-1]
        e = e.rsplit(".", 1)[1].lower() if "." in e else ""
        exts.setdefault(e, set()).add(ct)
    if any(len(v) > 1 for v in exts.values()):
        f.append("ext-shared-by-types")
    return sorted(set(f)), len(parts)


def has_default_clash(parts, table):
    """Two reachable parts share a lower-cased extension, both carry a type the default table
    lists for it, and the types differ."""
    seen = {}
    for n, (ct, _b, _r) in parts.items():
        e = n.rsplit("/", 1)[-1]
        e = e.rsplit(".", 1)[1].lower() if "." in e else ""
        if [e, ct] in table or (e, ct) in table:
            seen.setdefault(e, set()).add(ct)
    return any(len(v) > 1 for v in seen.values())


def oracle(ck, members, r, meta, rec):
    """The statement of C01 on the implementation's output.  `members`: the input package."""
    exp = oc.logical(members)
    if exp is None or r[0] != "ok":
        if r[0] != "ok":
            ck.violation("open-failed", "a well-formed package did not open/save: %s" % (r[2],), rec)
        return
    krels, parts = exp
    m1 = r[2]
    got = oc.logical(m1)
    names1 = [n for n, _ in m1]
    if got is None:
        ck.violation("output-unreadable", "saved package has no readable content types item", rec)
        return
    gk, gparts = got
    want_members = {oc.CT_NAME, "_rels/.rels"} | {p[1:] for p in parts} | {oc.rels_name(p) for p, v in parts.items() if v[2]}
    if set(names1) != want_members or len(names1) != len(set(names1)):
        ck.violation("member-set", "saved members %r, expected exactly %r" % (sorted(names1), sorted(want_members)), rec)
        return
    clash = has_default_clash(parts, [tuple(x) for x in meta["default_table"]])
    for pn, (ct, blob, rels) in parts.items():
        if pn not in gparts:
            ck.violation("part-lost", "reachable part %s not reachable in the saved package" % pn, rec)
            return
        gct, gblob, grels = gparts[pn]
        if gct != ct:
            ck.violation("default-clash" if clash else "content-type-changed",
                         "content type of %s was %r, saved package declares %r%s" % (
                             pn, ct, gct, " (two parts share an extension with different default-table types: _ContentTypesItem overwrites defaults[ext])" if clash else ""), rec)
            return
        if gblob != blob:
            xmlish = ct.endswith("xml")
            ok = False
            if xmlish and oc.well_formed(blob) and oc.well_formed(gblob):
                ok = oc.canon(blob) == oc.canon(gblob)
            if not ok:
                ck.violation("payload", "payload of %s changed (%d -> %d bytes)" % (pn, len(blob), len(gblob)), rec)
                return
        if sorted(grels) != sorted(rels):
            ck.violation("rels", "relationships of %s: input %r, saved %r" % (pn, sorted(rels), sorted(grels)), rec)
            return
    if sorted(gk) != sorted(krels):
        ck.violation("rels", "package relationships: input %r, saved %r" % (sorted(krels), sorted(gk)), rec)
        return
    if r[3] != "same":
        ck.violation("second-save", "opening and saving the output again gives %s" % r[3], rec)


def rec_for(members, form, extra=None):
    rec = {"entry_point": "pptx.opc.package.OpcPackage.open(%s).save" % form,
           "input": {"form": form, "members_b64": [[n, base64.b64encode(b).decode()] for n, b in members]}}
    if extra:
        rec.update(extra)
    return rec


def run_impl(members, form, tmp):
    if form == "stream":
        return oc.impl_roundtrip(io.BytesIO(oc.zip_bytes(members)))
    if form == "path":
        path = os.path.join(tmp, "p.pptx")
        with open(path, "wb") as f:
            f.write(oc.zip_bytes(members))
        return oc.impl_roundtrip(path)
    root = os.path.join(tmp, "d")
    shutil.rmtree(root, ignore_errors=True)
    os.makedirs(root)
    oc.write_dir(members, root)
    return oc.impl_roundtrip(root)


def compare(model, r, pay):
    """Differences between the model's line and the implementation's result."""
    if model[0] == "err" or r[0] == "err":
        if model[0] == "err" and r[0] == "err" and model[1] == r[1]:
            return []
        return ["outcome: model %r impl %r" % (model[:2], r[:3] if r[0] == "err" else "ok")]
    if model[0] != "ok":
        return ["model output unreadable: %r" % (model,)]
    d = oc.diff_graph(model[1], r[1], pay) + oc.diff_saved(model[2], r[2], pay)
    if model[3] != r[3]:
        d.append("second save: model %s impl %s" % (model[3], r[3]))
    return d


# ----------------------------------------------------------------------------- concrete codec
# characters the generated attribute values are drawn from: the five markup characters, the
# three white-space controls, blanks, ASCII, DEL and C1 controls, line/paragraph separators,
# the ends of the XML Char ranges, beyond-BMP characters; pieces that look like references
CODEC_CHARS = ["&", "<", ">", '"', "'", "\t", "\n", "\r", " ", "a", "Z", "0", "/", ".", ";", "#", "]", "=",
               "\x7f", "\x85", "\xa0", "\xe9", "\u2028", "\u2029", "\ud7ff", "\ue000", "\ufffd",
               "\U00010000", "\U0001f600", "\U0010ffff"]
CODEC_WORDS = ["&amp;", "&#10;", "&#x9;", "]]>", "<!--", "<![CDATA[", "\r\n", "External", "Internal",
               "http://schemas.openxmlformats.org/officeDocument/2006/relationships/slide",
               "../slides/slide1.xml", "/ppt/media/image1.png", "rId"]


def codec_str(rng, plain=False):
    k = rng.random()
    if k < 0.12:
        return ""
    if plain or k < 0.3:
        return rng.choice(CODEC_WORDS[7:])
    out = []
    for _ in range(rng.randint(1, 12)):
        out.append(rng.choice(CODEC_WORDS) if rng.random() < 0.15 else rng.choice(CODEC_CHARS))
    return "".join(out)


def gen_codec_rels(rng):
    """0..40 relationships with distinct ids (the collection is keyed by rId)."""
    n = rng.choice([0, 1, 1, 2, 3, 5, 8, 13, 21, 40]) if rng.random() < 0.7 else rng.randint(0, 40)
    rels, seen = [], set()
    for i in range(n):
        rid = "rId%d" % rng.randint(1, 60) if rng.random() < 0.6 else codec_str(rng)
        while rid in seen:
            rid += rng.choice(CODEC_CHARS)
        seen.add(rid)
        rels.append((rid, codec_str(rng), codec_str(rng), rng.random() < 0.4))
    return rels


class _StubName(object):
    """stands for the PackURI of a target part: relative_ref gives the wanted reference text"""

    def __init__(self, ref):
        self._ref = ref

    def relative_ref(self, base_uri):
        return self._ref


class _AnyParts(dict):
    """a parts mapping in which every partname is present"""

    def __contains__(self, key):
        return True

    def __missing__(self, key):
        from pptx.opc.package import Part
        self[key] = Part(key, "application/x-stub", None)
        return self[key]


def impl_rels_text(rels):
    """the bytes _Relationships.xml writes for these relationships, and the order written"""
    from pptx.opc.constants import RELATIONSHIP_TARGET_MODE as RTM
    from pptx.opc.package import Part, _Relationship, _Relationships
    coll = _Relationships("/")
    for rid, rtype, target, ext in rels:
        tgt = target if ext else Part(_StubName(target), "application/x-stub", None)
        coll._rels[rid] = _Relationship("/", rid, rtype, RTM.EXTERNAL if ext else RTM.INTERNAL, tgt)
    written = sorted(rels, key=lambda r: (int(r[0][3:]) if r[0].startswith("rId") and r[0][3:].isdigit() else 0, r[0]))
    return coll.xml, written


def impl_rels_read(data):
    """what the loader reads from a rels item: the element attributes it consults, and the
    collection _Relationships.load_from_xml builds from them (targets resolved against /)"""
    from pptx.opc.constants import RELATIONSHIP_TARGET_MODE as RTM
    from pptx.opc.package import _Relationships
    from pptx.oxml import parse_xml
    elm = parse_xml(data)
    raw = [(r.rId, r.reltype, r.target_ref, r.targetMode) for r in elm.relationship_lst]
    coll = _Relationships("/")
    coll.load_from_xml("/", elm, _AnyParts())
    loaded = [(rid, rel.reltype, rel.is_external,
               rel._target if rel.is_external else str(rel._target.partname)) for rid, rel in coll.items()]
    return raw, loaded


def impl_ct_text(ds, os_):
    from pptx.opc.oxml import CT_Types, serialize_part_xml
    t = CT_Types.new()
    for a, b in ds:
        t.add_default(a, b)
    for a, b in os_:
        t.add_override(a, b)
    return serialize_part_xml(t)


def impl_ct_read(data):
    from pptx.opc.package import _ContentTypeMap
    from pptx.oxml import parse_xml
    elm = parse_xml(data)
    raw = ([(d.extension, d.contentType) for d in elm.default_lst],
           [(o.partName, o.contentType) for o in elm.override_lst])
    m = _ContentTypeMap.from_xml(data)
    return raw, (dict(m._defaults), dict(m._overrides))


def codec_variant(text, rng):
    """The same rels item written the way another producer might: other reference forms,
    literal white space inside attribute values (normalised by the parser), an apostrophe
    as a reference, an explicit TargetMode on internal relationships.  Same document shape."""
    subs = [("&amp;", ["&#38;", "&#x26;"]), ("&lt;", ["&#60;", "&#x3C;"]), ("&gt;", [">", "&#62;"]),
            ("&quot;", ["&#34;", "&#x22;"]), ("&#9;", ["\t", "&#x9;"]), ("&#10;", ["\n", "&#xA;"]),
            ("&#13;", ["\r", "&#xd;"]), ("'", ["&apos;", "&#39;"])]
    head, body = text.split("?>\n", 1)
    for old, news in subs:
        if rng.random() < 0.6:
            body = body.replace(old, rng.choice(news))
    if rng.random() < 0.7:
        mode = rng.choice(["Internal", "Internal", "Other", "external", ""])
        body = re.sub(r'( Target="[^"]*")/>', lambda m: m.group(1) + ' TargetMode="%s"/>' % mode, body)
    return head + "?>\n" + body


def _judge_rels_read(dec_line, raw, loaded, d):
    from pptx.opc.packuri import PackURI
    if dec_line == "none":
        d.append("model reader refuses a document the loader reads")
        return None
    cur = oc.Cursor(dec_line.split("|"))
    got = [(cur.s(), cur.s(), cur.s(), cur.raw()) for _ in range(cur.n())]
    want = [(a, b, c, oc.MODE_CODE.get(m, "2")) for a, b, c, m in raw]
    if got != want:
        d.append("attributes read: model %r lxml %r" % (got[:3], want[:3]))
    by_id = {}      # the collection is a dict keyed by rId (a variant can make two ids equal)
    for a, b, c, m in got:
        by_id[a] = (a, b, m == "1", c if m == "1" else str(PackURI.from_rel_ref("/", c)))
    mload = list(by_id.values())
    if mload != loaded:
        d.append("load_from_xml: model %r impl %r" % (mload[:3], loaded[:3]))
    return got


def codec_rels_case(rels, variant_rng=None):
    """(model cases, judge over their output lines) for one relationship list"""
    data, written = impl_rels_text(rels)
    text = data.decode("utf-8")
    raw, loaded = impl_rels_read(data)
    enc_case = ["encrels", str(len(written))]
    for rid, rtype, target, ext in written:
        enc_case += [rid, rtype, target, "1" if ext else "0"]
    cases = [enc_case, ["decrels", text]]
    vtext = vraw = vloaded = None
    if variant_rng is not None:
        vtext = codec_variant(text, variant_rng)
        vraw, vloaded = impl_rels_read(vtext.encode("utf-8"))
        cases.append(["decrels", vtext])

    def judge(lines):
        d = []
        mtext = dec(lines[0])
        if mtext != text:
            i = next((j for j, (x, y) in enumerate(zip(mtext, text)) if x != y), min(len(mtext), len(text)))
            d.append("written text differs at %d: model %r lxml %r" % (i, mtext[max(0, i - 20):i + 30], text[max(0, i - 20):i + 30]))
        got = _judge_rels_read(lines[1], raw, loaded, d)
        if got is not None and [(a, b, c, "1" if e else "0") for a, b, c, e in written] != got:
            d.append("round trip through lxml changed the list: %r -> %r" % (written[:3], got[:3]))
        if vtext is not None:
            dv = []
            _judge_rels_read(lines[2], vraw, vloaded, dv)
            d += ["variant %r: %s" % (vtext[-120:], x) for x in dv]
        return d

    return cases, judge


def codec_ct_case(ds, os_):
    data = impl_ct_text(ds, os_)
    text = data.decode("utf-8")
    raw, maps = impl_ct_read(data)
    enc_case = ["encct", str(len(ds))] + [x for kv in ds for x in kv] + [str(len(os_))] + [x for kv in os_ for x in kv]

    def judge(lines):
        enc_line, dec_line = lines
        d = []
        mtext = dec(enc_line)
        if mtext != text:
            i = next((j for j, (x, y) in enumerate(zip(mtext, text)) if x != y), min(len(mtext), len(text)))
            d.append("written text differs at %d: model %r lxml %r" % (i, mtext[max(0, i - 20):i + 30], text[max(0, i - 20):i + 30]))
        if dec_line == "none":
            d.append("model reader refuses lxml's own output")
            return d
        cur = oc.Cursor(dec_line.split("|"))
        gd = [(cur.s(), cur.s()) for _ in range(cur.n())]
        go = [(cur.s(), cur.s()) for _ in range(cur.n())]
        if (gd, go) != raw:
            d.append("attributes read: model %r lxml %r" % ((gd[:3], go[:3]), (raw[0][:3], raw[1][:3])))
        if (dict((k.lower(), v) for k, v in gd), dict((k.lower(), v) for k, v in go)) != maps:
            d.append("_ContentTypeMap.from_xml: model %r impl %r" % ((gd[:3], go[:3]), maps))
        if (gd, go) != (list(ds), list(os_)):
            d.append("round trip through lxml changed the table")
        return d

    return [enc_case, ["decct", text]], judge


def codec_phase(ck, tier, rng):
    """model/OpcCodec.v against lxml as python-pptx drives it.  Returns the number of diffs."""
    n_rels = 1500 if tier == "quick" else 15000
    n_ct = 300 if tier == "quick" else 3000
    cases, judges, inputs = [], [], []      # judges: (first case index, number of cases, judge)
    for i in range(n_rels):
        rels = gen_codec_rels(rng)
        cs, j = codec_rels_case(rels, rng if i % 3 == 0 else None)
        judges.append((len(cases), len(cs), j))
        cases += cs
        inputs.append({"codec": "rels", "rels": [list(r) for r in rels], "variant": cs[2][1] if len(cs) > 2 else None})
        ck.count(("codec-rels", rels), any(c in f for r in rels for f in r[:3] for c in "&<>\"\t\n\r"), "codec")
    for _ in range(n_ct):
        ds = [(codec_str(rng), codec_str(rng)) for _ in range(rng.randint(0, 6))]
        os_ = [(codec_str(rng), codec_str(rng)) for _ in range(rng.randint(0, 12))]
        cs, j = codec_ct_case(ds, os_)
        judges.append((len(cases), len(cs), j))
        cases += cs
        inputs.append({"codec": "ct", "defaults": [list(x) for x in ds], "overrides": [list(x) for x in os_]})
        ck.count(("codec-ct", ds, os_), bool(ds or os_), "codec")
    diffs, first = 0, None
    if ck.build.ok:
        out = run_model("C01", cases)
        for i, (at, n, j) in enumerate(judges):
            d = j(out[at:at + n])
            if d:
                diffs += 1
                if first is None:
                    first = (inputs[i], d[:3])
                if diffs <= 5:
                    ck.notes.append("codec diff %s: %s" % (inputs[i]["codec"], d[:2]))
        if diffs and first is not None:
            ck.violation("correspondence-codec",
                         "model/OpcCodec.v and lxml (as driven by opc/package.py, opc/oxml.py) disagree on %d of %d documents, e.g. %s" % (
                             diffs, len(judges), first[1]),
                         {"entry_point": "pptx.opc.package._Relationships.xml / load_from_xml; pptx.opc.oxml.CT_Types + serialize_part_xml; _ContentTypeMap.from_xml",
                          "input": first[0],
                          "theorem_or_correspondence": "correspondence OpcCodec.v ~ lxml serialiser / parser (theorems C01_codec_* are about the model only)"},
                         concrete=False)
    return diffs, len(judges)


def run(ck, tier, rng):
    rc, out = _run(["/venv/bin/python", os.path.join(VERIF, "tx", "tx_c01.py")], cwd=VERIF)
    if rc != 0:
        ck.violation("translator", "tx_c01 failed on the current tree: " + out[-600:],
                     {"theorem_or_correspondence": "translator tx_c01 (model regeneration)"}, concrete=False)
    ck.build = coq_build("C01", extra_targets=["gen/GenC01.vo"])
    meta = json.load(open(os.path.join(COQ, "gen", "c01_meta.json")))
    n_pk = 4000 if tier == "quick" else 40000
    decks = corpus()
    if tier == "quick":
        decks = decks[::max(1, len(decks) // 8)][:8]
    tmp = tempfile.mkdtemp(prefix="c01-")
    pay = oc.Payloads()
    items = []          # (label, members(as written), deduped members, form, valid?)
    try:
        for i in range(n_pk):
            g = oc.gen_package(rng, malformed=(i % 5 == 4))
            form = ("stream", "path", "dir")[i % 3]
            if form == "dir" and (g.faults or not oc.dir_safe(g.members)):
                form = "stream"
            items.append((g, g.members, dedupe(g.members), form, not g.faults))
        for path in decks:
            members = oc.read_zip(open(path, "rb").read())
            items.append((os.path.relpath(path, REPO), members, dedupe(members), "stream", True))
        cases = [["rt"] + oc.wire_package(m, pay) for _g, _w, m, _f, _v in items]
        impl_out = []
        for g, written, members, form, valid in items:
            r = run_impl(written, form, tmp)
            impl_out.append(r)
            if isinstance(g, str):
                ck.count(("deck", g), True, "deck")
                rec = rec_for(written, form, {"deck": g})
            else:
                feats, nparts = features(g)
                ck.count((form, [(n, len(b)) for n, b in written], g.faults), nparts >= 2 and valid, form)
                for f in feats + (g.faults or ["valid"]):
                    ck.dist[f] = ck.dist.get(f, 0) + 1
                rec = rec_for(written, form, {"faults": g.faults})
                if len(ck.samples) < 6 and nparts >= 2:
                    ck.sample({"form": form, "faults": g.faults, "members": [n for n, _ in written]})
            if valid:
                oracle(ck, written, r, meta, rec)
        concrete_before = len(ck.violations)
        hyp = {"wf": 0, "wf_and_no_default_clash": 0, "valid_stream_not_wf": 0}
        covered = {"theorem_hypotheses_met": 0}
        diffs = 0
        first = None
        if ck.build.ok:
            model_out = run_model("C01", cases)
            for (g, written, members, form, valid), line, r in zip(items, model_out, impl_out):
                pm = oc.parse_rt(line)
                if pm[0] == "ok":
                    # the decidable hypotheses of the theorems, evaluated by the model on this input
                    # (no_default_clashb is a theorem since the writer's single-type-per-extension rule:
                    #  C01_no_default_clash; it is still printed and must always be true)
                    if pm[4][0]:
                        hyp["wf"] += 1
                        if pm[4][1]:
                            hyp["wf_and_no_default_clash"] += 1
                    if valid and not pm[4][0]:
                        hyp["valid_stream_not_wf"] += 1
                        if len(ck.notes) < 8:
                            ck.notes.append("generator's well-formed package does not meet wfb: %s" % (g if isinstance(g, str) else [n for n, _ in written]))
                    if pm[4][0] and pm[4][1] and r[0] == "ok":
                        covered["theorem_hypotheses_met"] += 1
                d = compare(pm, r, pay)
                if d:
                    diffs += 1
                    if first is None:
                        first = (g if isinstance(g, str) else g.faults, form, d[:3], written)
                    if diffs <= 5:
                        ck.notes.append("diff %s %s: %s" % (g if isinstance(g, str) else g.faults, form, d[:2]))
            if diffs and first is not None:
                ck.violation("correspondence",
                             "model/Opc.v and pptx.opc (package.py, serialized.py) disagree on %d packages, e.g. %s as %s: %s" % (
                                 diffs, first[0], first[1], first[2]),
                             dict(rec_for(first[3], first[1]), theorem_or_correspondence="correspondence Opc.v ~ opc/package.py + opc/serialized.py (theorems C01_* are about the model only)"),
                             concrete=False)
        codec_diffs, codec_docs = codec_phase(ck, tier, rng)
        ck.broken_build(oracle_found_concrete=any(v["concrete"] for v in ck.violations))
    finally:
        shutil.rmtree(tmp, ignore_errors=True)
    return ck.finish(
        rule="%d generated packages (4 of 5 well-formed: cycles, shared targets, several rels to one part, external links, ../ ./ and root-absolute targets, directory depth 0-5, Default/Override mixes with case-flipped extensions and part names, parts sharing an extension but not a type, binary and XML payloads; 1 of 5 carrying one malformation for model fidelity only) delivered as stream / zip path / directory, plus %d corpus decks; non-trivial = well-formed package with at least 2 reachable parts, or a corpus deck; plus %d codec documents (relationship lists of 0-40 entries and content-type tables whose strings mix & < > \" ' TAB LF CR, reference-like text, non-ASCII, the ends of the XML Char ranges and beyond-BMP characters, empty strings, both target modes): text written and text read back compared with model/OpcCodec.v" % (n_pk, len(decks), codec_docs),
        trusted_base=TB, assumptions=ASSUME,
        extra={"correspondence_diffs": diffs, "codec_documents": codec_docs, "codec_diffs": codec_diffs, "exhaustive": False, "unmodelled": meta.get("unmodelled", []),
               "theorem_hypotheses_on_inputs": dict(hyp, **covered)},
    )


def replay_codec(inp):
    if inp["codec"] == "rels":
        cs, j = codec_rels_case([tuple(r) for r in inp["rels"]])
        if inp.get("variant"):
            vraw, vloaded = impl_rels_read(inp["variant"].encode("utf-8"))
            cs.append(["decrels", inp["variant"]])
            j0 = j

            def j(lines):
                dv = []
                _judge_rels_read(lines[2], vraw, vloaded, dv)
                return j0(lines[:2]) + ["variant: " + x for x in dv]
    else:
        cs, j = codec_ct_case([tuple(x) for x in inp["defaults"]], [tuple(x) for x in inp["overrides"]])
    out = run_model("C01", cs)
    print("lxml text :", repr(cs[1][1]))
    print("model text:", repr(dec(out[0])))
    print("model read:", out[1][:400])
    if len(cs) > 2:
        print("variant   :", repr(cs[2][1]))
        print("model read:", out[2][:400])
    d = j(out)
    print("model/impl differences:", d)
    return 0 if not d else 1


def replay(rec):
    if "codec" in rec["input"]:
        return replay_codec(rec["input"])
    members = [(n, base64.b64decode(b)) for n, b in rec["input"]["members_b64"]]
    form = rec["input"].get("form", "stream")
    tmp = tempfile.mkdtemp(prefix="c01-replay-")
    try:
        r = run_impl(members, form, tmp)
    finally:
        shutil.rmtree(tmp, ignore_errors=True)
    pay = oc.Payloads()
    line = run_model("C01", [["rt"] + oc.wire_package(dedupe(members), pay)])[0]
    model = oc.parse_rt(line)
    print("input members:", [n for n, _ in members], "form:", form)
    exp = oc.logical(members)
    if r[0] == "ok":
        got = oc.logical(r[2])
        print("impl  saved members:", [n for n, _ in r[2]])
        if exp and got:
            for pn, (ct, _b, _rels) in exp[1].items():
                print("  %s: input type %r -> saved type %r" % (pn, ct, got[1].get(pn, (None,))[0]))
        print("impl  second save:", r[3])
    else:
        print("impl ", r[:3])
    if model[0] == "ok":
        print("model saved members:", [n for n, _ in model[2]], "second:", model[3])
        for name, m in model[2]:
            if m[0] == "c":
                print("model content types:", m[1], m[2])
    else:
        print("model", model)
    d = compare(model, r, pay)
    print("model/impl differences:", d)
    return 0 if not d else 1


CLAIM = {
    "tech": "Coq proof over a Gallina model of the OPC loader and writer (all package graphs; any lxml codec and any source tables as an abstract env, AND a concrete verified codec: byte-level writer and reader of the rels and content-types items with dec (enc x) = Some x proved for all XML strings, tied byte for byte to lxml) + tables re-extracted from the source tree each run + extracted-model correspondence on generated and corpus packages + independent oracle on the saved bytes",
    "text": "Codec hypothesis discharged: C01_codec_rels / C01_codec_ct (the reader gives back every writable relationship list / content-type table, no bound on sizes), C01_rels_concrete / C01_payload_type_concrete hold with NO assumption about lxml (only: reachable names and initial defaults are XML strings); codec_ok as first stated (every list, also non-XML characters) is shown too strong for any XML reader (C01_codec_ok_too_strong) and replaced by codec_ok_on. 7 theorems closed under the global context over every well-formed package (wf): the loaded package holds exactly the parts the relationship graph reaches, each once (the fuelled depth-first walk of _xml_rels / iter_rels is proved to compute reachability); the saved package has exactly the content types item, the package rels item, the reachable parts and the rels items of parts that have relationships; every part keeps its content type and payload (re-serialised for XML part classes, same bytes otherwise) with no side condition, because the writer uses a Default only for an extension the default table maps to one type (C01_no_default_clash); every source keeps its relationships (id, type, mode, resolved target or external text); open-save-open-save reproduces the same members with the same bytes. Tied to opc/package.py + opc/serialized.py by 4,000 (quick) / 40,000 (thorough) generated packages (cycles, shared targets, external links, ../ ./ and absolute targets, depth 0-5, Default/Override mixes with case flips, parts sharing an extension but not a type, binary and XML payloads, 16 malformations) delivered as stream, zip path and directory, plus corpus decks, comparing loaded graph, member order, decoded content types and rels, payloads and second-save identity; the generator's well-formed stream is confirmed to meet the decidable form of wf on every input.",
    "note": "for the abstract env lxml enters as hypotheses dec (enc x) = Some x and reser idempotent; for the concrete codec only reser idempotent remains (second-save theorem only), and that the concrete writer / reader ARE what lxml does is the codec correspondence of every run (1800 documents, byte for byte); str.lower / isdigit modelled on ASCII; zipfile, os.path and Python's recursion limit (relationship chains about 1000 parts deep raise RecursionError) are outside the model; targets naming [Content_Types].xml or a rels item and member names that are not normalised part names are outside wf. The former counter-example (two .bin parts with different printer-settings types merged under one Default) is a regression Example and the oracle signature default-clash stays active.",
    "ref": "6/C01",
}
