(** Instance obligations of C05 over the sink list regenerated from /repo (gen/GenC05.v). *)
From V.lib Require Import Prelude.
From V.model Require Import Escape.
From V.proofs Require Import Escape_proofs.
From V.gen Require Import GenC05.

Lemma no_unmodelled : n_unmodelled = 0%nat.
Proof. vm_compute. reflexivity. Qed.

Definition sink_passes (k : sink) : bool := memN (sk_id k) known_failing || sink_good k.

Lemma all_sinks_pass : forallb sink_passes sinks = true.
Proof. vm_compute. reflexivity. Qed.

Lemma all_sinks_safe : forall k, In k sinks -> memN (sk_id k) known_failing = false ->
  forall s, xml_str s = true -> (sk_esc k = NotText -> plain s = true /\ no_ws_ctl s = true) ->
  lex_slot (sk_ctx k) (apply_esc (sk_esc k) s) = Got s.
Proof.
  intros k Hin Hk s Hx Hp. pose proof (proj1 (forallb_forall _ _) all_sinks_pass k Hin) as H.
  unfold sink_passes in H. rewrite Hk in H. simpl in H. apply sink_ok_sound; auto.
Qed.

(** recorded findings are real: every known-failing sink is rejected by the table and its
    witness string does break the slot *)
Definition known_real (k : sink) : bool :=
  negb (memN (sk_id k) known_failing) || (negb (sink_good k) && sink_breaks k).

Lemma all_known_real : forallb known_real sinks = true.
Proof. vm_compute. reflexivity. Qed.

Lemma known_failing_refuted : forall k, In k sinks -> memN (sk_id k) known_failing = true ->
  xml_str (sink_witness k) = true /\
  lex_slot (sk_ctx k) (apply_esc (sk_esc k) (sink_witness k)) <> Got (sink_witness k).
Proof.
  intros k Hin Hk. pose proof (proj1 (forallb_forall _ _) all_known_real k Hin) as H.
  unfold known_real in H. rewrite Hk in H. simpl in H. apply andb_true_iff in H as [Hg Hb].
  apply negb_true_iff in Hg. unfold sink_good in Hg.
  exact (sink_ok_complete _ _ Hg).
Qed.

(** no element-text sink lets a raw carriage return (or a raw less-than sign) reach the
    template parser: libxml2's blank-text heuristic cannot fire at any of them *)
Definition cr_escaped (k : sink) : bool :=
  match sk_ctx k, sk_esc k with
  | Text, EscSaxWith _ _ _ r => r
  | Text, EscNone => false
  | _, _ => true
  end.

Lemma all_text_sinks_escape_cr : forallb (fun k => memN (sk_id k) known_failing || cr_escaped k) sinks = true.
Proof. vm_compute. reflexivity. Qed.

Lemma plain_no_raw s : plain s = true -> no_ws_ctl s = true -> no_cr_lt s = true.
Proof.
  unfold plain, no_ws_ctl, no_cr_lt. rewrite !forallb_forall. intros Hp Hw c Hc.
  specialize (Hp c Hc). specialize (Hw c Hc). apply negb_true_iff in Hp. apply negb_true_iff in Hw.
  unfold is_meta in Hp. apply orb_false_iff in Hp as [Hp _]. apply orb_false_iff in Hp as [Hp _].
  apply orb_false_iff in Hp as [_ El]. apply orb_false_iff in Hw as [_ Ecr].
  rewrite El, Ecr. reflexivity.
Qed.

Lemma text_sinks_heuristic_off : forall k, In k sinks -> memN (sk_id k) known_failing = false ->
  sk_ctx k = Text ->
  forall s, (sk_esc k = NotText -> plain s = true /\ no_ws_ctl s = true) ->
  no_cr_lt (apply_esc (sk_esc k) s) = true
  /\ lex_text (apply_esc (sk_esc k) s) = lex_text_conf (apply_esc (sk_esc k) s).
Proof.
  intros k Hin Hk Hc s Hp.
  pose proof (proj1 (forallb_forall _ _) all_text_sinks_escape_cr k Hin) as H.
  cbv beta in H. rewrite Hk in H. cbn [orb] in H. unfold cr_escaped in H. rewrite Hc in H.
  assert (N : no_cr_lt (apply_esc (sk_esc k) s) = true).
  { destruct (sk_esc k) as [|q t l r|]; cbn [apply_esc].
    - discriminate H.
    - subst r. apply escaped_cr_no_raw.
    - destruct (Hp eq_refl) as [Hpl Hw]. apply plain_no_raw; auto. }
  split; [exact N|apply lex_text_conf_eq, N].
Qed.

(** ids are the positions in the list (so that the meta file and the list agree) *)
Fixpoint ids_from (n : N) (l : list sink) : bool :=
  match l with [] => true | k :: r => N.eqb (sk_id k) n && ids_from (N.succ n) r end.
Lemma ids_sequential : ids_from 0%N sinks = true.
Proof. vm_compute. reflexivity. Qed.

(** every sink that receives caller text is in the list, and known findings are among them *)
Lemma known_are_caller_text : forallb (fun i => memN i caller_text_sinks) known_failing = true.
Proof. vm_compute. reflexivity. Qed.
