(** C05 -- caller-supplied strings are stored as data, never interpreted as markup.
    Generic theorems over model/Escape.v (all strings of XML characters) + instance over
    the template sinks regenerated from /repo on this run (gen/GenC05.v). *)
From V.lib Require Import Prelude.
From V.model Require Import Escape.
From V.proofs Require Import Escape_proofs C05_instance.
From V.gen Require Import GenC05.

(** saxutils.escape (three replace passes) is the per-character substitution *)
Theorem C05_escape_single_pass : forall s,
  sax_escape s = flat_map esc_char s /\ sax_escape_q s = flat_map esc_char_q s.
Proof. exact escape_single_pass. Qed.
Print Assumptions C05_escape_single_pass.

(** element text, plain saxutils.escape (raw TAB, LF, CR reach the parser): the slot is read
    back as exactly one text node, whose content is [blank_drop_normalise s]: the line-end
    handling every XML parser applies AND libxml2's blank-text removal (pptx.oxml parses with
    remove_blank_text=True), which may drop leading blank chunks that stand before a CR *)
Theorem C05_text_safe_norm : forall s, xml_str s = true ->
  lex_text (sax_escape s) = OneText (blank_drop_normalise s).
Proof. exact text_safe_norm. Qed.
Print Assumptions C05_text_safe_norm.

(** the same content read by a conformant parser without blank-text removal: the string after
    line-end handling *)
Theorem C05_text_conf_norm : forall s, xml_str s = true ->
  lex_text_conf (sax_escape s) = OneText (norm Text s).
Proof. exact text_conf_norm. Qed.
Print Assumptions C05_text_conf_norm.

Theorem C05_text_safe : forall s, xml_str s = true -> no_cr s = true ->
  lex_text (sax_escape s) = OneText s.
Proof. exact text_safe. Qed.
Print Assumptions C05_text_safe.

(** what [blank_drop_normalise] does, for the reader:
    (a) without a carriage return the string is unchanged *)
Theorem C05_blank_drop_no_cr : forall s, no_cr s = true -> blank_drop_normalise s = s.
Proof. exact bdn_no_cr. Qed.
Print Assumptions C05_blank_drop_no_cr.
Example C05_ex_blank_drop_no_cr : no_cr [c_sp; c_tab; c_lf; 88; c_sp]%N = true
  /\ blank_drop_normalise [c_sp; c_tab; c_lf; 88; c_sp]%N = [c_sp; c_tab; c_lf; 88; c_sp]%N.
Proof. exact bdn_no_cr_ex. Qed.

(** (b) in general only a leading all-blank part [a] is lost; the rest [b] is read with the
    line-end handling; when something is lost the part that is read starts at a CR *)
Theorem C05_blank_drop_suffix : forall s, exists a b, s = a ++ b /\ forallb is_blank a = true
  /\ (a = [] \/ hd_error b = Some c_cr) /\ blank_drop_normalise s = norm Text b.
Proof. exact bdn_suffix. Qed.
Print Assumptions C05_blank_drop_suffix.
Example C05_ex_blank_drop_suffix : blank_wit2 = [c_cr; c_lf; c_tab]%N ++ [c_cr; c_lf; 88]%N
  /\ forallb is_blank [c_cr; c_lf; c_tab]%N = true
  /\ blank_drop_normalise blank_wit2 = norm Text [c_cr; c_lf; 88]%N.
Proof. exact bdn_suffix_ex. Qed.

(** ... so everything from the first non-blank character on is preserved (up to line ends),
    and nothing is ever added *)
Theorem C05_blank_drop_keeps_nonblank : forall pre c r, forallb is_blank pre = true -> is_blank c = false ->
  exists k, blank_drop_normalise (pre ++ c :: r) = k ++ norm Text (c :: r).
Proof. exact bdn_keeps_nonblank. Qed.
Print Assumptions C05_blank_drop_keeps_nonblank.
Example C05_ex_blank_drop_keeps : forallb is_blank [c_sp; c_cr; c_tab]%N = true /\ is_blank 88%N = false
  /\ blank_drop_normalise ([c_sp; c_cr; c_tab]%N ++ [88; c_cr; c_sp]%N) = [c_lf; c_tab]%N ++ norm Text [88; c_cr; c_sp]%N.
Proof. exact bdn_keeps_ex. Qed.

Theorem C05_blank_drop_length : forall s, (length (blank_drop_normalise s) <= length s)%nat.
Proof. exact bdn_length. Qed.
Print Assumptions C05_blank_drop_length.

(** (c) the loss is real: blank CR X reads LF X, CR LF TAB CR LF X reads LF X; with plain
    saxutils.escape libxml2 does not give the string back even up to line-end handling,
    although a conformant parser would *)
Theorem C05_text_sax_blank_refuted : exists s, xml_str s = true
  /\ lex_text_conf (sax_escape s) = OneText (norm Text s)
  /\ lex_text (sax_escape s) <> OneText (norm Text s).
Proof. exact text_sax_blank_refuted. Qed.
Print Assumptions C05_text_sax_blank_refuted.
Example C05_ex_blank_drop_1 :
  lex_text (sax_escape blank_wit1) = OneText [c_lf; 88]%N /\ norm Text blank_wit1 = [c_sp; c_lf; 88]%N.
Proof. exact blank_drop_ex1. Qed.
Example C05_ex_blank_drop_2 :
  lex_text (sax_escape blank_wit2) = OneText [c_lf; 88]%N /\ norm Text blank_wit2 = [c_lf; c_tab; c_lf; 88]%N.
Proof. exact blank_drop_ex2. Qed.
Example C05_ex_blank_drop_buffer :
  blank_drop_normalise (c_cr :: repeat c_sp 299 ++ [c_cr; 88]%N) = [c_lf; 88]%N
  /\ length (blank_drop_normalise (c_cr :: repeat c_sp 298 ++ [c_cr; 88]%N)) = 301%nat
  /\ length (blank_drop_normalise (c_cr :: repeat c_sp 300 ++ [c_cr; 88]%N)) = 303%nat.
Proof. exact blank_drop_ex_buffer. Qed.

(** content without a raw carriage return and without a raw less-than sign: the heuristic
    cannot fire, libxml2 reads what XML 1.0 prescribes ... *)
Theorem C05_text_no_raw_cr_conformant : forall l, no_cr_lt l = true -> lex_text l = lex_text_conf l.
Proof. exact lex_text_conf_eq. Qed.
Print Assumptions C05_text_no_raw_cr_conformant.
(** ... and every escaping dictionary that maps the carriage return produces such content *)
Theorem C05_escaped_cr_no_raw : forall q t l s, no_cr_lt (sax_escape_g q t l true s) = true.
Proof. exact escaped_cr_no_raw. Qed.
Print Assumptions C05_escaped_cr_no_raw.
Example C05_ex_no_raw_cr : let l := sax_escape_g false false false true [c_sp; c_cr; c_lf; 88; c_lt]%N in
  no_cr_lt l = true /\ lex_text l = lex_text_conf l /\ lex_text l = OneText [c_sp; c_cr; c_lf; 88; c_lt]%N.
Proof. exact conf_eq_ex. Qed.

(** double-quoted attribute value: escaping that includes the quot entity gives back one
    value, the string after attribute-value normalisation (TAB, LF, CR, CR LF -> blank) *)
Theorem C05_attr_safe_norm : forall s, xml_str s = true ->
  lex_attr (c_quot :: sax_escape_q s ++ [c_quot]) = OneValue (norm AttrDq s).
Proof. exact attr_safe_norm. Qed.
Print Assumptions C05_attr_safe_norm.

Theorem C05_attr_safe : forall s, xml_str s = true -> no_ws_ctl s = true ->
  lex_attr (c_quot :: sax_escape_q s ++ [c_quot]) = OneValue s.
Proof. exact attr_safe. Qed.
Print Assumptions C05_attr_safe.

(** with TAB, LF and CR written as character references as well: every string, no guard *)
Theorem C05_attr_safe_ws : forall s, xml_str s = true ->
  lex_attr (c_quot :: sax_escape_qw s ++ [c_quot]) = OneValue s.
Proof. exact attr_safe_w. Qed.
Print Assumptions C05_attr_safe_ws.

(** element text with the carriage return written as a reference: every string, no guard *)
Theorem C05_text_safe_cr : forall s q t l, xml_str s = true ->
  lex_text (sax_escape_g q t l true s) = OneText s.
Proof. exact text_safe_r. Qed.
Print Assumptions C05_text_safe_cr.

(** escape with any sub-dictionary of quote / TAB / LF / CR is the per-character substitution *)
Theorem C05_escape_dict_single_pass : forall q t l r s,
  sax_escape_g q t l r s = flat_map (esc_char_g q t l r) s.
Proof. exact sax_escape_g_flat. Qed.
Print Assumptions C05_escape_dict_single_pass.

(** plain saxutils.escape is not enough inside an attribute value: witness the double quote *)
Theorem C05_attr_sax_refuted : exists s, xml_str s = true /\ no_ws_ctl s = true /\
  lex_attr (c_quot :: sax_escape s ++ [c_quot]) <> OneValue s.
Proof. exact attr_sax_refuted. Qed.
Print Assumptions C05_attr_sax_refuted.

(** no escaping at all: the ampersand and the less-than sign break both contexts, the double
    quote breaks the attribute *)
Theorem C05_none_refuted :
  (forall cx, lex_slot cx [c_amp] = Broken) /\ (forall cx, lex_slot cx [c_lt] = Broken)
  /\ lex_slot AttrDq [c_quot] = Broken.
Proof. exact none_refuted. Qed.
Print Assumptions C05_none_refuted.

(** the CDATA-end sequence is rejected wherever it stands in character data ... *)
Theorem C05_cdata_end_rejected : forall a b, in_chardata (fold_left tstep a tstart) = true ->
  lex_text (a ++ cdata_end ++ b) = BrokenText.
Proof. exact cdata_end_rejected. Qed.
Print Assumptions C05_cdata_end_rejected.
Example C05_ex_cdata_end : in_chardata (fold_left tstep [c_sp] tstart) = true
  /\ in_chardata (fold_left tstep [97]%N tstart) = true
  /\ lex_text ([c_sp] ++ cdata_end ++ [98]%N) = BrokenText /\ lex_text ([97]%N ++ cdata_end ++ [98]%N) = BrokenText.
Proof. exact cdata_end_ex. Qed.

(** ... and cannot occur in escaped text: no greater-than sign survives *)
Theorem C05_cdata_end_absent : forall s, ~ In c_gt (sax_escape s) /\
  forall a b, sax_escape s <> a ++ cdata_end ++ b.
Proof. exact cdata_end_absent. Qed.
Print Assumptions C05_cdata_end_absent.

(** the decision table (the slot gives back EXACTLY the string, for every string) is sound ... *)
Theorem C05_sink_ok_sound : forall cx e, sink_ok cx e = true ->
  forall s, xml_str s = true -> (e = NotText -> plain s = true /\ no_ws_ctl s = true) ->
  lex_slot cx (apply_esc e s) = Got s.
Proof. exact sink_ok_sound. Qed.
Print Assumptions C05_sink_ok_sound.

(** ... and exact: every rejected combination has a string that does not come back
    (the double quote, TAB, LF or CR in an attribute; CR in text; the ampersand without escaping) *)
Theorem C05_sink_ok_complete : forall cx e, sink_ok cx e = false ->
  xml_str (witness cx e) = true /\
  lex_slot cx (apply_esc e (witness cx e)) <> Got (witness cx e).
Proof. exact sink_ok_complete. Qed.
Print Assumptions C05_sink_ok_complete.

(** the weaker table (markup safety): whatever white space does, the slot is never broken *)
Theorem C05_markup_ok_sound : forall cx e, markup_ok cx e = true ->
  forall s, xml_str s = true -> (e = NotText -> plain s = true) ->
  lex_slot cx (apply_esc e s) <> Broken.
Proof. exact markup_ok_sound. Qed.
Print Assumptions C05_markup_ok_sound.

(** nothing the translator met was left unmodelled *)
Theorem C05_no_unmodelled : n_unmodelled = 0%nat.
Proof. exact no_unmodelled. Qed.
Print Assumptions C05_no_unmodelled.

(** INSTANCE: every template slot of python-pptx (except recorded findings), for every
    string of XML characters (values that are not caller text: for every string without
    markup metacharacters and TAB / LF / CR): the parsed template holds exactly one value /
    text node, the string itself *)
Theorem C05_all_sinks : forall k, In k sinks -> memN (sk_id k) known_failing = false ->
  forall s, xml_str s = true -> (sk_esc k = NotText -> plain s = true /\ no_ws_ctl s = true) ->
  lex_slot (sk_ctx k) (apply_esc (sk_esc k) s) = Got s.
Proof. exact all_sinks_safe. Qed.
Print Assumptions C05_all_sinks.

(** INSTANCE: no element-text sink of python-pptx lets a raw carriage return (or less-than
    sign) of the value reach the template parser, so libxml2's blank-text heuristic never
    fires there: the content is read as XML 1.0 prescribes *)
Theorem C05_text_sinks_heuristic_off : forall k, In k sinks -> memN (sk_id k) known_failing = false ->
  sk_ctx k = Text ->
  forall s, (sk_esc k = NotText -> plain s = true /\ no_ws_ctl s = true) ->
  no_cr_lt (apply_esc (sk_esc k) s) = true
  /\ lex_text (apply_esc (sk_esc k) s) = lex_text_conf (apply_esc (sk_esc k) s).
Proof. exact text_sinks_heuristic_off. Qed.
Print Assumptions C05_text_sinks_heuristic_off.

(** recorded findings are real *)
Theorem C05_known_failing_refuted : forall k, In k sinks -> memN (sk_id k) known_failing = true ->
  xml_str (sink_witness k) = true /\
  lex_slot (sk_ctx k) (apply_esc (sk_esc k) (sink_witness k)) <> Got (sink_witness k).
Proof. exact known_failing_refuted. Qed.
Print Assumptions C05_known_failing_refuted.

(** non-vacuity *)
Example C05_ex_ws :
  let s := [97; c_tab; c_lf; c_cr; c_lf; c_cr; c_quot; c_amp; 98]%N in
  xml_str s = true /\ lex_slot AttrDq (sax_escape_qw s) = Got s /\ lex_slot Text (sax_escape_g false false false true s) = Got s
  /\ lex_slot AttrDq (sax_escape_q s) = Got [97; c_sp; c_sp; c_sp; c_sp; c_quot; c_amp; 98]%N.
Proof. vm_compute. repeat split. Qed.
Example C05_ex_guards :
  let s := [97; c_amp; c_lt; c_gt; c_quot; c_apos; c_rbr; c_rbr; c_gt; 233; 128512]%N in
  xml_str s = true /\ no_ws_ctl s = true /\ no_cr s = true
  /\ lex_text (sax_escape s) = OneText s
  /\ lex_attr (c_quot :: sax_escape_q s ++ [c_quot]) = OneValue s.
Proof. exact guards_inhabited. Qed.
Example C05_ex_injection : lex_slot AttrDq inj_payload = Broken.
Proof. exact attr_injection_broken. Qed.
Example C05_ex_sinks : (0 < length (filter sink_good sinks))%nat
  /\ (0 < length (filter (fun k => negb (esc_eqb (sk_esc k) NotText)) sinks))%nat
  /\ (0 < length (filter (fun k => ctx_eqb (sk_ctx k) Text && negb (esc_eqb (sk_esc k) NotText)
                                   && negb (memN (sk_id k) known_failing)) sinks))%nat.
Proof. vm_compute. repeat split; lia. Qed.
