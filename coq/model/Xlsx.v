(** C08 model: the embedded workbook written by pptx.chart.xlsx (through XlsxWriter)
    and the formula references and caches written by pptx.chart.xmlwriter.
    Executable definitions only.  Rows and columns of the sheet are 0-based as in
    XlsxWriter calls; references are 1-based as in A1 notation. *)
From V.lib Require Import Prelude.
Open Scope N_scope.

(** ------------------------------------------------------------------ values *)

(** A Python value handed to worksheet.write: None, str, a number (exact rational
    payload num/den as given by the caller, never computed on), a datetime.date
    (proleptic Gregorian ordinal, date.toordinal) or a datetime.datetime (ordinal of
    its date part and microseconds since midnight). *)
Inductive pyval :=
| PNone
| PStr (s : str)
| PNum (n : Z) (d : positive)
| PDate (ord : Z)
| PDateTime (ord : Z) (us : N).

(** What a worksheet cell holds, as a reader of the .xlsx file sees it. *)
Inductive cell :=
| Empty                       (* no cell, or a formatted blank cell *)
| Str (s : str)               (* shared or inline string *)
| Num (n : Z) (d : positive)  (* number n/d *)
| Formula (s : str)           (* a formula cell: XlsxWriter turned the string into a formula *)
| Opaque.                     (* hyperlink cell whose text XlsxWriter derives from the url *)

Definition sumN (l : list N) : N := fold_right N.add 0 l.

(** ------------------------------------------------ XlsxWriter worksheet.write *)

Definition xl_strmax : N := 32767.
Definition xl_rowmax : N := 1048576.
Definition xl_colmax : N := 16384.

Definition s_eq : str := [61].          (* = *)
Definition s_lbrace_eq : str := [123; 61].
Definition s_rbrace : str := [125].
Definition url_prefixes : list str :=
  [ [102; 116; 112; 58; 47; 47];                 (* ftp:// *)
    [102; 116; 112; 115; 58; 47; 47];            (* ftps:// *)
    [104; 116; 116; 112; 58; 47; 47];            (* http:// *)
    [104; 116; 116; 112; 115; 58; 47; 47];       (* https:// *)
    [109; 97; 105; 108; 116; 111; 58];           (* mailto: *)
    [105; 110; 116; 101; 114; 110; 97; 108; 58]; (* internal: *)
    [101; 120; 116; 101; 114; 110; 97; 108; 58]; (* external: *)
    [102; 105; 108; 101; 58; 47; 47] ].          (* file:// *)

Definition url_like (s : str) : bool := existsb (fun p => starts_with p s) url_prefixes.
Definition formula_like (s : str) : bool := starts_with s_eq s.
Definition array_formula_like (s : str) : bool :=
  starts_with s_lbrace_eq s && ends_with s_rbrace s.

(** _write_token_as_string with the default workbook options python-pptx uses
    (strings_to_formulas and strings_to_urls on, strings_to_numbers off). *)
Definition xl_write_str (s : str) : cell :=
  match s with
  | [] => Empty
  | _ =>
      if formula_like s then Formula (tl s)
      else if array_formula_like s then Formula (removelast (skipn 2 s))
      else if url_like s then Opaque
      else Str (firstn (N.to_nat xl_strmax) s)
  end.

(** Ordinals of the epochs. *)
Definition ord_1899_12_31 : Z := 693595.
Definition ord_1904_01_01 : Z := 695056.
Definition ord_1900_01_01 : Z := 693596.
Definition us_per_day : positive := 86400000000%positive.

(** utility._datetime_to_excel_datetime with date_1904 False (python-pptx never passes
    the date_1904 workbook option): numerator over us_per_day. *)
Definition xl_datetime_num (is_datetime : bool) (ord : Z) (us : N) : Z :=
  let d := Zpos us_per_day in
  let t := ((ord - ord_1899_12_31) * d + Z.of_N us)%Z in
  let t := if is_datetime && (ord =? ord_1900_01_01)%Z then (t - d)%Z else t in
  if (59 * d <? t)%Z then (t + d)%Z else t.

Definition xl_cell (v : pyval) : cell :=
  match v with
  | PNone => Empty
  | PStr s => xl_write_str s
  | PNum n d => Num n d
  | PDate ord => Num (xl_datetime_num false ord 0) us_per_day
  | PDateTime ord us => Num (xl_datetime_num true ord us) us_per_day
  end.

Definition is_empty (c : cell) : bool := match c with Empty => true | _ => false end.

(** The sheet is the log of stored cells, latest first. *)
Definition sheet := list ((N * N) * cell).

Definition in_dims (r c : N) : bool := (r <? xl_rowmax) && (c <? xl_colmax).

(** _check_dimensions: out-of-range writes return -1 and store nothing. *)
Definition store (sh : sheet) (r c : N) (v : cell) : sheet :=
  if in_dims r c then ((r, c), v) :: sh else sh.

(** worksheet.write(row, col, token[, format]): a blank without format stores nothing. *)
Definition xl_write (sh : sheet) (r c : N) (v : pyval) (fmt : bool) : sheet :=
  let cl := xl_cell v in
  if is_empty cl && negb fmt then sh else store sh r c cl.

Fixpoint write_column (sh : sheet) (r c : N) (vs : list pyval) (fmt : bool) : sheet :=
  match vs with
  | [] => sh
  | v :: vs' => write_column (xl_write sh r c v fmt) (r + 1) c vs' fmt
  end.

Definition key_eqb (a b : N * N) : bool := (fst a =? fst b) && (snd a =? snd b).

Fixpoint get (sh : sheet) (r c : N) : cell :=
  match sh with
  | [] => Empty
  | (k, v) :: sh' => if key_eqb k (r, c) then v else get sh' r c
  end.

(** ------------------------------------------------------- chart data (data.py) *)

(** A series value: None or a number. *)
Definition val := option (Z * positive).
Definition pv_of_val (v : val) : pyval :=
  match v with None => PNone | Some (n, d) => PNum n d end.

Inductive cat := Cat (lab : pyval) (subs : list cat).
Definition cat_lab (c : cat) : pyval := match c with Cat l _ => l end.
Definition cat_subs (c : cat) : list cat := match c with Cat _ s => s end.

(** Category.label: None reads as the empty string. *)
Definition label_of (l : pyval) : pyval := match l with PNone => PStr [] | _ => l end.

Fixpoint leaf_count (c : cat) : N :=
  match c with
  | Cat _ subs => match subs with [] => 1 | _ => sumN (map leaf_count subs) end
  end.
Definition forest_leaf_count (cs : list cat) : N := sumN (map leaf_count cs).

(** depth raises ValueError when siblings differ in depth. *)
Fixpoint check_depths (d0 : N) (ds : list (res N)) : res unit :=
  match ds with
  | [] => Ok tt
  | r :: ds' => bind r (fun d => if d =? d0 then check_depths d0 ds' else Err ValueErr)
  end.

Fixpoint cat_depth (c : cat) : res N :=
  match c with
  | Cat _ subs =>
      match subs with
      | [] => Ok 1
      | s0 :: rest =>
          bind (cat_depth s0) (fun d0 =>
          bind (check_depths d0 (map cat_depth rest)) (fun _ => Ok (d0 + 1)))
      end
  end.

Definition forest_depth (cs : list cat) : res N :=
  match cs with
  | [] => Ok 0
  | c0 :: rest =>
      bind (cat_depth c0) (fun d0 =>
      bind (check_depths d0 (map cat_depth rest)) (fun _ => Ok d0))
  end.

(** Category.idx: offset of the first leaf under the category.  [place start cs]
    pairs every sibling with its idx; [next_level] descends one level. *)
Fixpoint place (start : N) (cs : list cat) : list (N * cat) :=
  match cs with
  | [] => []
  | c :: r => (start, c) :: place (start + leaf_count c) r
  end.

Definition next_level (l : list (N * cat)) : list (N * cat) :=
  flat_map (fun ic => place (fst ic) (cat_subs (snd ic))) l.

Definition level_entries (l : list (N * cat)) : list (N * pyval) :=
  map (fun ic => (fst ic, label_of (cat_lab (snd ic)))) l.

(** Categories.levels: leaf level first, then each level up.  The recursion of the
    generator descends while some category has sub-categories. *)
Fixpoint levels_fuel (fuel : nat) (l : list (N * cat)) : list (list (N * pyval)) :=
  match fuel with
  | O => []
  | S f =>
      let nl := next_level l in
      (match nl with [] => [] | _ => levels_fuel f nl end) ++ [level_entries l]
  end.

Fixpoint height (c : cat) : nat :=
  match c with Cat _ subs => S (fold_right Nat.max O (map height subs)) end.
Definition forest_height (cs : list cat) : nat := fold_right Nat.max O (map height cs).

Definition levels (cs : list cat) : list (list (N * pyval)) :=
  levels_fuel (S (forest_height cs)) (place 0 cs).

Record series := mk_series { s_name : option str; s_vals : list val }.
Record catdata := mk_catdata { cd_cats : list cat; cd_series : list series }.

(** _BaseSeriesData.name *)
Definition name_of (o : option str) : str := match o with Some s => s | None => [] end.

(** ------------------------------------------------ CategoryWorkbookWriter (xlsx.py) *)

(** _column_reference: the loop, with fuel. *)
Fixpoint colref_loop (fuel : nat) (n : N) (acc : str) : str :=
  match fuel with
  | O => acc
  | S f =>
      if n =? 0 then acc
      else
        let r := n mod 26 in
        let r' := if r =? 0 then 26 else r in
        colref_loop f ((n - 1) / 26) ((65 + r' - 1) :: acc)
  end.
Definition column_letters (n : N) : str := colref_loop (S (N.to_nat (N.size n))) n [].

Definition column_reference (n : N) : res str :=
  if (n <? 1) || (16384 <? n) then Err ValueErr else Ok (column_letters n).

(** Inverse reading of a column reference (used by the statement, not by the code). *)
Definition parse_col (s : str) : N := fold_left (fun a ch => a * 26 + (ch - 64)) s 0.

(** A structured reference: 1-based columns c1..c2 and rows r1..r2 of Sheet1. *)
Record rng := mk_rng { r_c1 : N; r_r1 : N; r_c2 : N; r_r2 : N }.

Definition t_sheet : str := [83; 104; 101; 101; 116; 49; 33; 36].   (* Sheet1!$ *)
Definition t_dollar : str := [36].
Definition t_colon_dollar : str := [58; 36].

(** Text of a one-cell reference and of a range whose columns are given as letters. *)
Definition render_cell (col : str) (row : N) : str :=
  t_sheet ++ col ++ t_dollar ++ dec_of_N row.
Definition render_range (col1 : str) (row1 : N) (col2 : str) (row2 : N) : str :=
  t_sheet ++ col1 ++ t_dollar ++ dec_of_N row1 ++ t_colon_dollar ++ col2 ++ t_dollar ++ dec_of_N row2.
Definition render_rng (r : rng) : str :=
  render_range (column_letters (r_c1 r)) (r_r1 r) (column_letters (r_c2 r)) (r_r2 r).

Definition series_col_number (depth idx : N) : N := 1 + depth + idx.

(** categories_ref: ValueError without categories; the right column through
    _column_reference (since the fix of the chr arithmetic). *)
Definition categories_rng (depth leafs : N) : rng := mk_rng 1 2 depth (leafs + 1).
Definition categories_ref_text (depth leafs : N) : res str :=
  if depth =? 0 then Err ValueErr
  else bind (column_reference depth) (fun col => Ok (render_range [65] 2 col (leafs + 1))).

Definition series_name_rng (depth idx : N) : rng :=
  let c := series_col_number depth idx in mk_rng c 1 c 1.
Definition series_name_ref_text (depth idx : N) : res str :=
  bind (column_reference (series_col_number depth idx)) (fun col => Ok (render_cell col 1)).

Definition values_rng (depth idx len : N) : rng :=
  let c := series_col_number depth idx in mk_rng c 2 c (len + 1).
Definition values_ref_text (depth idx len : N) : res str :=
  bind (column_reference (series_col_number depth idx)) (fun col =>
    Ok (render_range col 2 col (len + 1))).

Definition len_N {A} (l : list A) : N := N.of_nat (length l).

(** _write_cat_column: a datetime label is written as the date of its day. *)
Definition date_only (v : pyval) : pyval :=
  match v with PDateTime ord _ => PDate ord | _ => v end.
Definition write_cat_column (sh : sheet) (col : N) (level : list (N * pyval)) : sheet :=
  fold_left (fun sh e => xl_write sh (fst e + 1) col (date_only (snd e)) true) level sh.

(** _write_categories: level idx goes to column depth - idx - 1.  (The subtraction is
    truncated here; Xlsx_proofs.levels_length shows idx < depth whenever depth >= 1.) *)
Fixpoint write_levels (sh : sheet) (depth i : N) (lvls : list (list (N * pyval))) : sheet :=
  match lvls with
  | [] => sh
  | l :: rest => write_levels (write_cat_column sh (depth - i - 1) l) depth (i + 1) rest
  end.

(** _write_series *)
Fixpoint write_series (sh : sheet) (col_offset idx : N) (ss : list series) : sheet :=
  match ss with
  | [] => sh
  | s :: rest =>
      let col := idx + col_offset in
      let sh1 := xl_write sh 0 col (PStr (name_of (s_name s))) false in
      let sh2 := write_column sh1 1 col (map pv_of_val (s_vals s)) true in
      write_series sh2 col_offset (idx + 1) rest
  end.

(** _populate_worksheet; categories.number_format evaluates depth first and so raises
    ValueError on a non-uniform hierarchy. *)
Definition cat_sheet (d : catdata) : res sheet :=
  bind (forest_depth (cd_cats d)) (fun depth =>
    Ok (write_series (write_levels [] depth 0 (levels (cd_cats d))) depth 0 (cd_series d))).

(** ------------------------------------------------------- caches (xmlwriter.py) *)

(** The text of a c:v element, up to the reading the property makes of it. *)
Inductive cval :=
| CStr (s : str)            (* text *)
| CNum (n : Z) (d : positive)  (* decimal text of the number n/d *)
| COpaque.                  (* str() of a date object: not modelled *)

Record cache := mk_cache { pt_count : N; pts : list (N * cval) }.

(** Category._excel_date_number *)
Definition excel_date_number (date_1904 : bool) (ord : Z) : Z :=
  let days := (ord - (if date_1904 then ord_1904_01_01 else ord_1899_12_31))%Z in
  if negb date_1904 && (59 <? days)%Z then (days + 1)%Z else days.


(** Category.numeric_str_val: str(self.label), a missing label being the empty string. *)
Definition numeric_str_val (date_1904 : bool) (l : pyval) : cval :=
  match l with
  | PDate ord => CNum (excel_date_number date_1904 ord) 1
  | PDateTime ord _ => CNum (excel_date_number date_1904 ord) 1
  | PNum n d => CNum n d
  | PStr s => CStr s
  | PNone => CStr []
  end.

(** str(category.label), as written into string caches. *)
Definition label_str_val (l : pyval) : cval :=
  match label_of l with
  | PStr s => CStr s
  | PNum n d => CNum n d
  | _ => COpaque
  end.

Definition is_numeric_label (l : pyval) : bool :=
  match l with PNum _ _ | PDate _ | PDateTime _ _ => true | _ => false end.

Fixpoint enumerate_from {A} (i : N) (l : list A) : list (N * A) :=
  match l with [] => [] | x :: r => (i, x) :: enumerate_from (i + 1) r end.

Inductive cat_kind := KNum | KStr | KMulti.

(** c:cat : kind of cache, the caches per level (one level unless multi-level). *)
Record cat_cache := mk_cat_cache { cc_kind : cat_kind; cc_count : N; cc_levels : list (list (N * cval)) }.

Definition cat_cache_of (date_1904 : bool) (cs : list cat) : res cat_cache :=
  bind (forest_depth cs) (fun depth =>
    let numeric := (depth =? 1) && match cs with c :: _ => is_numeric_label (cat_lab c) | [] => false end in
    if numeric then
      Ok (mk_cat_cache KNum (forest_leaf_count cs)
            [enumerate_from 0 (map (fun c => numeric_str_val date_1904 (cat_lab c)) cs)])
    else if depth =? 1 then
      Ok (mk_cat_cache KStr (forest_leaf_count cs)
            [enumerate_from 0 (map (fun c => label_str_val (cat_lab c)) cs)])
    else if depth =? 0 then Err ValueErr
    else
      Ok (mk_cat_cache KMulti (forest_leaf_count cs)
            (map (map (fun e => (fst e, label_str_val (snd e)))) (levels cs)))).

Definition val_cache (vs : list val) : cache :=
  mk_cache (len_N vs)
    (flat_map (fun iv => match snd iv with None => [] | Some (n, d) => [(fst iv, CNum n d)] end)
              (enumerate_from 0 vs)).

(** One c:ser of a category chart: structured references, their text, the caches. *)
Record cat_ser := mk_cat_ser {
  cs_name_rng : rng; cs_name_ref : str; cs_name : str;
  cs_cat_rng : rng; cs_cat_ref : str; cs_cat : cat_cache;
  cs_val_rng : rng; cs_val_ref : str; cs_val : cache }.

Fixpoint cat_sers (date_1904 : bool) (cs : list cat) (depth : N) (idx : N) (ss : list series)
  : res (list cat_ser) :=
  match ss with
  | [] => Ok []
  | s :: rest =>
      bind (series_name_ref_text depth idx) (fun nref =>
      bind (categories_ref_text depth (forest_leaf_count cs)) (fun cref =>
      bind (cat_cache_of date_1904 cs) (fun cc =>
      bind (values_ref_text depth idx (len_N (s_vals s))) (fun vref =>
      bind (cat_sers date_1904 cs depth (idx + 1) rest) (fun tl =>
      Ok (mk_cat_ser (series_name_rng depth idx) nref (name_of (s_name s))
                     (categories_rng depth (forest_leaf_count cs)) cref cc
                     (values_rng depth idx (len_N (s_vals s))) vref (val_cache (s_vals s))
          :: tl))))))
  end.

(** The area, bar and line writers evaluate categories.are_dates (hence depth) for the
    category axis even when there is no series; with at least one series every writer
    reaches depth through c:cat. *)
Definition cat_xml (date_1904 : bool) (d : catdata) : res (list cat_ser) :=
  bind (forest_depth (cd_cats d)) (fun depth =>
    cat_sers date_1904 (cd_cats d) depth 0 (cd_series d)).

(** --------------------------------------- XY and bubble (XyWorkbookWriter etc.) *)

Record xyseries := mk_xyseries { xy_name : option str; xy_pts : list (val * val * val) }.
Definition xy_x (s : xyseries) : list val := map (fun p => fst (fst p)) (xy_pts s).
Definition xy_y (s : xyseries) : list val := map (fun p => snd (fst p)) (xy_pts s).
Definition xy_size (s : xyseries) : list val := map (fun p => snd p) (xy_pts s).
Definition xy_len (s : xyseries) : N := len_N (xy_pts s).

(** series_table_row_offset: index * 2 + data_point_offset (points of all earlier series). *)
Definition row_offset (all : list xyseries) (k : nat) : N :=
  N.of_nat k * 2 + sumN (map xy_len (firstn k all)).

Definition t_Size : str := [83; 105; 122; 101].

Definition write_table (bubble : bool) (sh : sheet) (off : N) (s : xyseries) : sheet :=
  let sh1 := write_column sh (off + 1) 0 (map pv_of_val (xy_x s)) true in
  let sh2 := xl_write sh1 off 1 (PStr (name_of (xy_name s))) false in
  let sh3 := write_column sh2 (off + 1) 1 (map pv_of_val (xy_y s)) true in
  if bubble then
    let sh4 := xl_write sh3 off 2 (PStr t_Size) false in
    write_column sh4 (off + 1) 2 (map pv_of_val (xy_size s)) true
  else sh3.

Fixpoint xy_loop (bubble : bool) (all : list xyseries) (k : nat) (rest : list xyseries) (sh : sheet) : sheet :=
  match rest with
  | [] => sh
  | s :: r => xy_loop bubble all (S k) r (write_table bubble sh (row_offset all k) s)
  end.

Definition xy_sheet (bubble : bool) (all : list xyseries) : sheet := xy_loop bubble all 0 all [].

(** References: name cell in column B; X, Y, size ranges in columns A, B, C. *)
Definition xy_name_rng (off : N) : rng := mk_rng 2 (off + 1) 2 (off + 1).
Definition xy_col_rng (col off len : N) : rng := mk_rng col (off + 2) col (off + 2 + len - 1).
Definition xy_name_ref_text (off : N) : str := render_cell [66] (off + 1).
Definition xy_col_ref_text (col off len : N) : str :=
  render_range [64 + col] (off + 2) [64 + col] (off + 2 + len - 1).

Record xy_ser := mk_xy_ser {
  xs_name_rng : rng; xs_name_ref : str; xs_name : str;
  xs_x_rng : rng; xs_x_ref : str; xs_x : cache;
  xs_y_rng : rng; xs_y_ref : str; xs_y : cache;
  xs_size : option (rng * str * cache) }.

Definition xy_ser_of (bubble : bool) (all : list xyseries) (k : nat) (s : xyseries) : xy_ser :=
  let off := row_offset all k in
  let n := xy_len s in
  mk_xy_ser (xy_name_rng off) (xy_name_ref_text off) (name_of (xy_name s))
            (xy_col_rng 1 off n) (xy_col_ref_text 1 off n) (val_cache (xy_x s))
            (xy_col_rng 2 off n) (xy_col_ref_text 2 off n) (val_cache (xy_y s))
            (if bubble then Some (xy_col_rng 3 off n, xy_col_ref_text 3 off n, val_cache (xy_size s))
             else None).

Fixpoint xy_sers (bubble : bool) (all : list xyseries) (k : nat) (rest : list xyseries) : list xy_ser :=
  match rest with
  | [] => []
  | s :: r => xy_ser_of bubble all k s :: xy_sers bubble all (S k) r
  end.

Definition xy_xml (bubble : bool) (all : list xyseries) : list xy_ser := xy_sers bubble all 0 all.

(** ------------------------------------------------------ the property, executable *)

(** Does the text of a cached point equal what the cell holds? *)
Definition cell_agrees (v : option cval) (c : cell) : bool :=
  match v, c with
  | None, Empty => true
  | Some (CStr []), Empty => true
  | Some (CStr s), Str s' => str_eqb s s'
  | Some (CNum n d), Num n' d' => (n * Zpos d' =? n' * Zpos d)%Z
  | _, _ => false
  end.

Fixpoint lookup_pt (k : N) (l : list (N * cval)) : option cval :=
  match l with
  | [] => None
  | (i, v) :: r => if i =? k then Some v else lookup_pt k r
  end.

Fixpoint nseq (start : N) (len : nat) : list N :=
  match len with O => [] | S n => start :: nseq (start + 1) n end.

(** Column [c] (1-based), rows r1..r2 (1-based) against a cache: the range is well
    formed, has as many rows as the point count says, every point index lies inside,
    and every row holds exactly what the cache says at that index (nothing cached =
    empty cell). *)
Definition agree_col (sh : sheet) (c r1 r2 : N) (count : N) (ps : list (N * cval)) : bool :=
  (r1 <=? r2) && (r2 + 1 - r1 =? count)
  && forallb (fun p => fst p <? count) ps
  && forallb (fun k => cell_agrees (lookup_pt k ps) (get sh (r1 - 1 + k) (c - 1)))
             (nseq 0 (N.to_nat count)).

Definition agree_ref (sh : sheet) (r : rng) (ca : cache) : bool :=
  (r_c1 r =? r_c2 r) && agree_col sh (r_c1 r) (r_r1 r) (r_r2 r) (pt_count ca) (pts ca).

Definition agree_name (sh : sheet) (r : rng) (name : str) : bool :=
  agree_ref sh r (mk_cache 1 [(0, CStr name)]).

(** Level i of a category cache reads column c2 - i of the range (leaf level = right-most). *)
Fixpoint agree_levels (sh : sheet) (r : rng) (count : N) (i : N) (lvls : list (list (N * cval))) : bool :=
  match lvls with
  | [] => true
  | l :: rest =>
      (r_c1 r + i <=? r_c2 r)
      && agree_col sh (r_c2 r - i) (r_r1 r) (r_r2 r) count l
      && agree_levels sh r count (i + 1) rest
  end.

Definition agree_cat (sh : sheet) (r : rng) (cc : cat_cache) : bool :=
  (r_c1 r + len_N (cc_levels cc) =? r_c2 r + 1) && agree_levels sh r (cc_count cc) 0 (cc_levels cc).

(** Text of a one-cell reference given as a structured reference. *)
Definition render_cell_rng (r : rng) : str := render_cell (column_letters (r_c1 r)) (r_r1 r).

(** One c:ser: the three caches against the cells, and the c:f texts are the renderings
    of the structured references. *)
Definition agree_cat_ser (sh : sheet) (e : cat_ser) : bool :=
  agree_name sh (cs_name_rng e) (cs_name e)
  && agree_cat sh (cs_cat_rng e) (cs_cat e)
  && agree_ref sh (cs_val_rng e) (cs_val e)
  && str_eqb (cs_name_ref e) (render_cell_rng (cs_name_rng e))
  && str_eqb (cs_cat_ref e) (render_rng (cs_cat_rng e))
  && str_eqb (cs_val_ref e) (render_rng (cs_val_rng e)).

Definition agree_xy_ser (sh : sheet) (e : xy_ser) : bool :=
  agree_name sh (xs_name_rng e) (xs_name e)
  && agree_ref sh (xs_x_rng e) (xs_x e)
  && agree_ref sh (xs_y_rng e) (xs_y e)
  && match xs_size e with
     | Some (r, t, ca) => agree_ref sh r ca && str_eqb t (render_rng r)
     | None => true
     end
  && str_eqb (xs_name_ref e) (render_cell_rng (xs_name_rng e))
  && str_eqb (xs_x_ref e) (render_rng (xs_x_rng e))
  && str_eqb (xs_y_ref e) (render_rng (xs_y_rng e)).

(** ---------------------------------------- chart part: new chart and replace_data *)

Inductive chart_data := CatD (d : catdata) | XyD (bubble : bool) (ss : list xyseries).
Inductive chart_xml := CatX (es : list cat_ser) | XyX (es : list xy_ser).

Definition kind_of (d : chart_data) : N :=
  match d with CatD _ => 0 | XyD false _ => 1 | XyD true _ => 2 end.

Definition xml_of (date_1904 : bool) (d : chart_data) : res chart_xml :=
  match d with
  | CatD cd => bind (cat_xml date_1904 cd) (fun es => Ok (CatX es))
  | XyD b ss => Ok (XyX (xy_xml b ss))
  end.

Definition sheet_of (d : chart_data) : res sheet :=
  match d with
  | CatD cd => cat_sheet cd
  | XyD b ss => Ok (xy_sheet b ss)
  end.

(** The observable state of a chart part: the c:date1904 flag of its XML, how many
    embedded workbook parts were created for it, the data-bearing XML, the sheet of
    the embedded workbook. *)
Record chart := mk_chart {
  ch_kind : N; ch_date1904 : bool; ch_parts : N; ch_xml : chart_xml; ch_sheet : sheet }.

(** ChartPart.new: XML first (date1904 is 0 in every template), then the workbook
    goes into a new embedded part. *)
Definition new_chart (d : chart_data) : res chart :=
  bind (xml_of false d) (fun x =>
  bind (sheet_of d) (fun sh => Ok (mk_chart (kind_of d) false 1 x sh))).

Inductive op := OpReplace (d : chart_data) | OpDate1904 (b : bool).

(** Chart.replace_data: rewrite the series XML with the date system of the chart,
    then update_from_xlsx_blob (replace the blob of the existing part, or add a part
    when there is none).  OpDate1904 stands for a chart whose XML says date1904
    (a chart authored on a 1904-system workbook). *)
Definition step (st : chart) (o : op) : res chart :=
  match o with
  | OpDate1904 b => Ok (mk_chart (ch_kind st) b (ch_parts st) (ch_xml st) (ch_sheet st))
  | OpReplace d =>
      if negb (kind_of d =? ch_kind st) then Err OtherErr
      else
        bind (xml_of (ch_date1904 st) d) (fun x =>
        bind (sheet_of d) (fun sh =>
          Ok (mk_chart (ch_kind st) (ch_date1904 st)
                (if ch_parts st =? 0 then 1 else ch_parts st) x sh)))
  end.

Definition run_ops (st : res chart) (ops : list op) : res chart :=
  fold_left (fun r o => bind r (fun st => step st o)) ops st.

Definition agree_xml (x : chart_xml) (sh : sheet) : bool :=
  match x with
  | CatX es => forallb (agree_cat_ser sh) es
  | XyX es => forallb (agree_xy_ser sh) es
  end.

Definition agree_chart (st : chart) : bool := agree_xml (ch_xml st) (ch_sheet st).
