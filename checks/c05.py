"""C05 — caller-supplied strings are stored as data, never interpreted as markup.

translate (tx/tx_c05.py: every XML template of src/pptx, slot context and escaping of every
hole, which public entry point reaches it) -> prove (props/C05.v: generic theorems over the
escape functions and the two slot lexers for ALL strings of XML characters + instance over
gen/GenC05.v by vm_compute) -> diagnose (diag/Diag_C05.v: sinks the decision table rejects,
with a witness string each) -> replay each rejected sink through the public entry point that
reaches it -> correspondence of the model with (a) xml.sax.saxutils.escape, (b) what
pptx.oxml.parse_xml really recovers from every template with the slot filled, over the same
strings -> oracle = the property's statement on the implementation: every string-accepting
entry point x strings biased to markup: call succeeds, reader returns the string, element
count as for a benign string, the same after save + re-open.

libxml2's blank-text removal (remove_blank_text=True of pptx.oxml) is part of the model (lex_text of
model/Escape.v): no comparison is skipped; the evidence counts the compared cases in which the heuristic
dropped something (model reading differs from the conformant reading, runner op slot0).
"""
import io
import json
import os
import re
import shutil
import sys
import tempfile
from xml.sax.saxutils import escape as sax_escape

from corr.harness import COQ, VERIF, coq_build, run_model, _run, dec

sys.path.insert(0, os.path.join(VERIF, "tx"))

TB = [
    "tx/tx_c05.py (translator: AST scan of every %-format / str.format / f-string whose template is XML, template lexer, local dataflow for escape(); cross-validated on every run by instantiating each template with markers and parsing it with lxml, by a marker run through the public entry points (taint), and by a second run with metacharacters that shows the escaping each reached hole really applies)",
    "the enumeration of public string-accepting entry points (build_entry_points in tx/tx_c05.py): a hole that no enumerated entry point reaches with caller text is classified as a library-made value only if it was exercised and every expression it can receive through the package's call sites is literal text, an integer, or listed in LIBRARY_MADE of tx/tx_c05.py (observed values recorded in the evidence)",
    "libxml2 as configured by pptx.oxml.parse_xml (in-memory UTF-8 document) is represented by the slot lexers of model/Escape.v (AttValue, CharData, references, CDATA sections, line-end and attribute-value normalisation, and the blank-text removal heuristic of remove_blank_text=True: areBlanks over the chunks of xmlParseCharData's fast path and the 300-byte buffer of its slow path); tied by the per-sink and the grid correspondence (escaped, raw, CDATA-bearing and 300-byte-boundary payloads), not verified",
    "lxml attribute / text assignment (the third kind of sink) escapes on serialisation: trusted, exercised by the oracle's save + re-open on every case",
]
ASSUME = [
    "strings are over the XML 1.0 Char production; code points XML cannot carry are refused by lxml (ValueError) and are outside the quantifier",
    "TAB, LF, CR written literally into an attribute value are normalised to blanks by any XML parser, CR in element text to LF (theorems *_norm state exactly that): the decision table therefore demands the character references for them (C05_attr_safe_ws, C05_text_safe_cr) and the oracle judges strings with TAB / LF / CR at every entry point except the text-frame setters, whose control-character translations are property C04's",
    "values substituted with an integer conversion, constants, enumeration tokens and library-made names / relationship ids are assumed free of markup metacharacters and of TAB / LF / CR (hypotheses plain s, no_ws_ctl s of C05_all_sinks for NotText sinks)",
    "libxml2's blank-text removal (remove_blank_text=True) is INSIDE the model: element text written with an escaping that leaves CR raw is read back as blank_drop_normalise s (C05_text_safe_norm; characterised by C05_blank_drop_no_cr / _suffix / _keeps_nonblank; real by C05_text_sax_blank_refuted), and it cannot fire where CR is written as a reference (C05_text_no_raw_cr_conformant + C05_escaped_cr_no_raw; instance C05_text_sinks_heuristic_off over the sink table); the correspondence compares such strings like every other (counter blank-heuristic-exercised) and the oracle demands the exact string back at every entry point",
    "the template slot is the whole content of its element (the value is followed by the end tag): true of every text sink on the current tree (per-sink correspondence on the real templates)",
    "caller text that is only a part of an attribute value, single-quoted attribute values, and substitutions into tag or attribute names would be unmodelled (none on the current tree)",
]

META_PIECES = ["&", "<", ">", '"', "'", "]]>", "<![CDATA[", "&amp;", "&#65;", "&#x41;", "&bogus;", "&lt;", "&quot;", "<!--", "-->",
               "<?pi?>", "</a>", "<a>", '<a b="c"/>', "%s", "%d", "%(x)s", "{0}", "{x}", "{", "}", "%", ";", "&#", "&#;", "&;", "]]",
               "\\", "=", "/", " ", "]", "&#0;", "&#x110000;", "&apos;", "&gt;"]
PLAIN_PIECES = ["a", "Zz", "0", "\xe9", "\xdf", "\u4e2d", "\U0001F600", "\ufffd", "\u0085", "\u2028", "\xa0", "x y", "_x000D_",
                "_", ".", "-", "Series", "0.00", "yyyy", "#,##0", "General"]
CORE = (["plain", "two words", "\xe9\u4e2d\U0001F600"]
        + META_PIECES[:35]
        + ["a%sb" % p for p in ["&", "<", ">", '"', "'", "]]>", "&amp;", "&#65;", "&bogus;", "<![CDATA[x]]>", "<!--x-->"]]
        + ['a" b="c', 'x"/><y z="', "</c:v><c:v>", '"><p:sp/><x y="', "a&b<c>d\"e'f", '0 "&"', "[<100]0.0", '#,##0 "<"', "&&", "<<", '""',
           "a &amp; b", "R&D <dept> \"x\"", "]]>]]>", " & <", "100%", "{}{}", "%(", "%%s"])


WS_CORE = ["a\tb", "a\nb", "a\rb", "a\r\nb", "\tlead", "trail\n", "a\tb\nc\rd", "x \r y", "\r", "\n", "\t", "a\n\rb", "R&D\t\"q\"\r\n<x>"]
WS_PIECES = ["\t", "\n", "\r", "\r\n"]
# strings on which libxml2's blank-text heuristic fires when the CR reaches the parser raw: leading blanks
# before a CR, CR LF sequences, CR LF before a non-ASCII character
BLANK_CR_CORE = [" \rX", "\r\n\t\r\nX", "\r\n\t\r\n\U00010328\u01eb", " \r", "\t\r\nX", "\n\rX", " \r\n\xe9", "\r\n\r X", "\r\n \rX",
                 "  \r\n  \r\nend", "\r\r\nX", " \t\n\r<x>", "\n \r&", " \r\n]]>", "\r\n\xe9", "\r \r \rX", " \r\"q\"", "\n\r\n "]
BLANK_PIECES = [" ", "\t", "\n", "\r", "\r\n", "\r", "\r\n", "  "]
BLANK_TAILS = ["", "X", "\xe9", "\U00010328\u01eb", "&", "<x>", "]]>", "a b", "\"", "\x7f", "&#13;", "\u4e2d\r\n", "x\r y"]


def gen_blank_cr(rng, n):
    out = []
    for _ in range(n):
        pre = "".join(rng.choice(BLANK_PIECES) for _ in range(rng.randint(1, 6)))
        if "\r" not in pre:
            pre += rng.choice(["\r", "\r\n"])
        out.append(pre + rng.choice(BLANK_TAILS))
    return out


def gen_strings(rng, n_random, dom, ws=False):
    """ws: also strings with TAB / LF / CR (every entry point except the text-frame setters, whose
    control-character translations are property C04's)."""
    out = list(CORE) + (list(WS_CORE) + list(BLANK_CR_CORE) if ws else [])
    pieces = META_PIECES + PLAIN_PIECES + (WS_PIECES * 4 if ws else [])
    if ws:
        out += gen_blank_cr(rng, max(6, n_random // 6))
    for _ in range(n_random):
        k = rng.randint(1, 6)
        s = "".join(rng.choice(pieces) if rng.random() < 0.8 else chr(rng.choice([rng.randint(0x20, 0x7E), rng.randint(0xA0, 0x2FF), rng.randint(0x10000, 0x10FFF)]))
                    for _ in range(k))
        out.append(s)
    res, seen = [], set()
    # long strings, up to the longest documented limit of any entry point (255 CHARACTERS for the core properties):
    # characters beyond the BMP count once, markup characters grow when escaped
    long_ones = ["\U0001F600" * 128, "a" * 250 + "\U0001F600\U00010328\U0001D11E", ("&<>\"'" * 51)[:255], "x" * 255,
                 ("\u4e2d\U00020000 " * 85)[:255]] if dom != "file" else []
    for s in out + long_ones:
        s = s[:40] if s not in long_ones else s
        if dom == "file":
            s = s.replace("/", "").replace("\x00", "")
            if s in (".", "..") or len((s + ".png").encode("utf-8")) > 240:
                continue
        if not s or s in seen:
            continue
        if s != s.strip() and dom == "file":
            pass
        seen.add(s)
        res.append(s)
    return res


def is_nontrivial(s):
    return any(c in s for c in "&<>\"'\t\n\r") or "]]" in s or "%" in s or "{" in s


def char_class(s):
    for c, n in (("\t", "tab"), ("\n", "lf"), ("\r", "cr"), ("&", "amp"), ("<", "lt"), ('"', "dquote"), (">", "gt"), ("'", "apos"), ("%", "percent"), ("{", "brace")):
        if c in s:
            return n
    return "other"


# ----------------------------------------------------------------------------- model wire
CTX_CODE = {"AttrDq": "a", "Text": "t"}


def esc_code(applied):
    """Escaping as the model runner reads it: 0 none, A..P = escape with a sub-dictionary (bits q t l r)."""
    if applied in (None, "none"):
        return "0"
    return chr(65 + sum(b for b, f in zip((8, 4, 2, 1), "qtlr") if f in applied[3:]))


def applied_of_code(code):
    """inverse of esc_code"""
    if code in "03":
        return "none"
    return "sax" + "".join(f for b, f in zip((8, 4, 2, 1), "qtlr") if (ord(code) - 65) & b)


def py_escape(applied, s):
    import tx_c05 as T
    return T.py_escape(applied, s)


def model_slot_to_py(mo):
    if mo == "broken":
        return ("broken",)
    if mo.startswith("ok:"):
        return ("ok", dec(mo[3:]))
    return ("?", mo)


# ----------------------------------------------------------------------------- what lxml really parses
def elem_count(root):
    return sum(1 for _ in root.iter())


def probe_outcome(probe, payload, base=None):
    """Fill the open slot of a template with [payload], parse with the implementation's parser,
    and say what the slot became: ('ok', value, shape) or ('broken', reason)."""
    from lxml import etree
    from pptx.oxml import parse_xml
    xml = probe["xml"].replace("\x00", payload)
    try:
        data = xml.encode("utf-8")
    except UnicodeEncodeError:
        return ("broken", "not encodable")
    try:
        root = parse_xml(data)
    except etree.XMLSyntaxError as e:
        return ("broken", "XMLSyntaxError: " + str(e)[:80])
    except ValueError as e:
        return ("broken", "ValueError: " + str(e)[:80])
    el = root if probe["path"] == "." else root.find(probe["path"])
    if el is None:
        return ("broken", "slot element not found")
    if probe["attr"] == "":
        val = el.text or ""
        el.text = None
    elif probe["attr"] == "xmlns":
        return ("ok", None, None)
    else:
        val = el.get(probe["attr"])
        if val is None:
            return ("broken", "attribute missing")
        el.set(probe["attr"], "")
    # everything but the slot value has to be what it is for a benign value
    shape = etree.tostring(root, method="c14n")
    if base is not None and shape != base:
        return ("broken", "structure changed")
    return ("ok", val, shape)


GRID_ESC = [("0", "none"), ("A", "sax"), ("I", "saxq"), ("P", "saxqtlr"), ("B", "saxr"), ("M", "saxqt")]
GRID = {"a": {"xml": '<w xmlns:q="urn:q"><r a="\x00"/></w>', "path": "r", "attr": "a"},
        "t": {"xml": '<w xmlns:q="urn:q"><r>\x00</r></w>', "path": "r", "attr": ""}}


# ----------------------------------------------------------------------------- oracle runner
class Outcome:
    __slots__ = ("ep", "s", "ok", "what", "exc", "got")

    def __init__(self, ep, s, ok, what="", exc=None, got=None):
        self.ep, self.s, self.ok, self.what, self.exc, self.got = ep, s, ok, what, exc, got


def run_ep_batch(ep, strings, tmp, benign="Benign 1"):
    """Apply one entry point to many strings on one presentation; save + re-open once."""
    import tx_c05 as T
    from pptx import Presentation
    env = T.Env(tmp)
    outs, pending = [], []
    base = None
    for s in [benign] + list(strings):
        try:
            obj = ep.make(env, s)
        except Exception as e:  # noqa
            outs.append(Outcome(ep.key, s, False, "call raises %s: %s" % (type(e).__name__, str(e)[:90]), type(e).__name__))
            continue
        try:
            got = ep.read(obj)
            cnt = [elem_count(r) for r in ep.roots(env, obj)]
            loc = ep.locate(env, obj)
        except Exception as e:  # noqa
            outs.append(Outcome(ep.key, s, False, "reader raises %s: %s" % (type(e).__name__, str(e)[:90]), type(e).__name__))
            continue
        if s == benign and base is None:
            base = cnt
            if got != s:
                outs.append(Outcome(ep.key, s, False, "benign string reads back %r" % (got,)))
            continue
        if got != s:
            outs.append(Outcome(ep.key, s, False, "reader returns %r" % (got,), got=got))
            continue
        if cnt != base:
            outs.append(Outcome(ep.key, s, False, "element count %r, for a benign string %r" % (cnt, base)))
            continue
        pending.append((s, loc))
    # save + re-open
    if pending:
        try:
            buf = io.BytesIO()
            env.prs.save(buf)
            buf.seek(0)
            prs2 = Presentation(buf)
        except Exception as e:  # noqa
            for s, _ in pending:
                outs.append(Outcome(ep.key, s, False, "save/re-open raises %s: %s" % (type(e).__name__, str(e)[:90]), type(e).__name__))
            return outs
        for s, loc in pending:
            try:
                got = ep.read(ep.relocate(prs2, loc))
            except Exception as e:  # noqa
                outs.append(Outcome(ep.key, s, False, "reader after re-open raises %s: %s" % (type(e).__name__, str(e)[:90]), type(e).__name__))
                continue
            if got != s:
                outs.append(Outcome(ep.key, s, False, "after save + re-open the reader returns %r" % (got,), got=got))
            else:
                outs.append(Outcome(ep.key, s, True))
    return outs


def run_solo(eps, strings, tmp, benign="Benign 1"):
    """Entry points that write a document-level singleton: one presentation per string, all of them at once."""
    import tx_c05 as T
    from pptx import Presentation
    outs = []
    base = {}
    for s in [benign] + list(strings):
        env = T.Env(tmp)
        live = []
        for ep in eps:
            try:
                obj = ep.make(env, s)
                got = ep.read(obj)
                cnt = [elem_count(r) for r in ep.roots(env, obj)]
            except Exception as e:  # noqa
                outs.append(Outcome(ep.key, s, False, "call raises %s: %s" % (type(e).__name__, str(e)[:90]), type(e).__name__))
                continue
            if s == benign:
                base[ep.key] = cnt
                continue
            if got != s:
                outs.append(Outcome(ep.key, s, False, "reader returns %r" % (got,), got=got))
            elif cnt != base.get(ep.key):
                outs.append(Outcome(ep.key, s, False, "element count %r, for a benign string %r" % (cnt, base.get(ep.key))))
            else:
                live.append((ep, ep.locate(env, obj)))
        if s == benign or not live:
            continue
        try:
            buf = io.BytesIO()
            env.prs.save(buf)
            buf.seek(0)
            prs2 = Presentation(buf)
        except Exception as e:  # noqa
            for ep, _ in live:
                outs.append(Outcome(ep.key, s, False, "save/re-open raises %s: %s" % (type(e).__name__, str(e)[:90]), type(e).__name__))
            continue
        for ep, loc in live:
            try:
                got = ep.read(ep.relocate(prs2, loc))
            except Exception as e:  # noqa
                outs.append(Outcome(ep.key, s, False, "reader after re-open raises %s" % type(e).__name__, type(e).__name__))
                continue
            outs.append(Outcome(ep.key, s, got == s, "" if got == s else "after save + re-open the reader returns %r" % (got,), got=got))
    return outs


def is_solo(ep):
    return ep.where == "prs" or ep.key.endswith(":mime_type")


def ensure_runner(ck):
    """The harness rebuilds the extracted runner only after a fully successful build; when an instance
    obligation fails (rejected sinks on the current tree) the runner is still needed for the correspondence."""
    exe = os.path.join(COQ, "extract", "run_c05")
    ml = os.path.join(COQ, "extract", "c05.ml")
    if os.path.exists(ml) and (not os.path.exists(exe) or os.path.getmtime(exe) < os.path.getmtime(ml)):
        rc, out = _run("flock ../.build.lock ./extract/build.sh c05", cwd=COQ)
        if rc != 0:
            ck.notes.append("extracted runner did not compile: " + out[-300:])
    return os.path.exists(exe)


def raw_cr_or_lt(payload):
    """Only content with a raw CR or a raw less-than sign can make libxml2's blank-text heuristic fire
    (C05_text_no_raw_cr_conformant): for these the model is also asked for the conformant reading."""
    return "\r" in payload or "<" in payload


# ----------------------------------------------------------------------------- diagnostics
def diag_rows():
    rc, out = _run(["timeout", "600", "coqc", "-Q", ".", "V", "diag/Diag_C05.v"], cwd=COQ)
    if rc != 0:
        return None, out
    body = out[out.index("="):] if "=" in out else ""
    rows = []
    for m in re.finditer(r"\[([^\[\]]*)\]", body):
        nums = [int(x) for x in re.findall(r"(\d+)%N", m.group(1))]
        if len(nums) >= 2 and nums[1] == 7777:
            rows.append((nums[0], "".join(chr(c) for c in nums[2:])))
    return rows, out


def sink_sig(s_):
    """Signature of a finding at a sink: markup-unsafe sinks keep `sink:`; sinks that are markup-safe but let
    the parser normalise TAB / LF / CR get their own class."""
    if not s_["markup_ok"]:
        return "sink:" + s_["name"]
    if s_["ctx"] == "AttrDq":
        return "attr-ws-normalised:" + s_["name"]
    return "text-cr-normalised:" + s_["name"]


def fix_hint(s_):
    if s_["ctx"] == "AttrDq":
        return ("escape the value with xml.sax.saxutils.escape(value, {'\"': '&quot;', '\\t': '&#9;', '\\n': '&#10;', '\\r': '&#13;'}) "
                "before it is substituted (or assign it through the lxml attribute setter after parsing)")
    return ("escape the value with xml.sax.saxutils.escape(value, {'\\r': '&#13;'}) before it is substituted "
            "(or assign it through the lxml text setter after parsing)")


def describe(s_, ep, o):
    written = py_escape(s_["applied"], o.s)
    if s_["markup_ok"]:
        return "%s(%r): the value is written as %r in %s and the parser hands back %s -- %s substitutes %s into %s (%s) with escaping '%s'" % (
            ep, o.s, written, s_["slot"], ("%r" % (o.got,)) if o.got is not None else o.what, s_["where"], s_["src"], s_["slot"], s_["ctx"], s_["applied"])
    return "%s(%r): %s -- %s substitutes %s into %s (%s) with escaping '%s'" % (
        ep, o.s, o.what, s_["where"], s_["src"], s_["slot"], s_["ctx"], s_["applied"])


def run(ck, tier, rng):
    import tx_c05 as T
    # 1. translate from the current tree
    rc, out = _run(["/venv/bin/python", os.path.join(VERIF, "tx", "tx_c05.py")], cwd=VERIF)
    if rc != 0:
        ck.violation("translator", "tx_c05 failed on the current tree: " + out[-600:],
                     {"theorem_or_correspondence": "translator tx_c05 (model regeneration)"}, concrete=False)
        return ck.finish("translator failed", TB, ASSUME)
    ck.notes.append(out.strip().split("\n")[-1])
    meta = json.load(open(os.path.join(COQ, "gen", "c05_meta.json")))
    sinks = meta["sinks"]
    by_id = {s["id"]: s for s in sinks}
    # 2. prove
    ck.build = coq_build("C05", extra_targets=["gen/GenC05.vo", "model/EscapeRun.vo"])
    scratch = tempfile.mkdtemp(prefix="c05-")
    try:
        return _run_rest(ck, tier, rng, T, meta, sinks, by_id, scratch)
    finally:
        shutil.rmtree(scratch, ignore_errors=True)


def _run_rest(ck, tier, rng, T, meta, sinks, by_id, scratch):
    eps = T.build_entry_points()
    ep_by_key = {e.key: e for e in eps}
    have_model = ensure_runner(ck)
    # 3. diagnose + replay every rejected sink through a public entry point
    rows, dout = diag_rows()
    if rows is None:
        ck.notes.append("diagnostics did not compile: " + dout[-300:])
        rows = []
    rejected = []
    for sid, wit in rows:
        s = by_id.get(sid)
        if s is None:
            continue
        rejected.append(s["sig"])
        tried = []
        bad = None
        probes = [wit, "a" + wit + "b", "R&D", 'say "x"', "a<b", 'a" b="c', "a\tb\nc\rd"]
        for key in s["entry_points"]:
            ep = ep_by_key.get(key)
            if ep is None:
                continue
            strings = [p for p in probes if not (ep.dom == "file" and "/" in p)]
            outs = run_solo([ep], strings, scratch) if is_solo(ep) else run_ep_batch(ep, strings, scratch)
            for o in outs:
                tried.append((key, o.s, o.ok, o.what))
                if not o.ok and bad is None and o.s != "Benign 1":
                    bad = (key, o)
            if bad:
                break
        rec = {"entry_point": bad[0] if bad else (s["entry_points"][0] if s["entry_points"] else None),
               "input": bad[1].s if bad else wit, "sink": s["sig"], "responsible": s["where"], "slot": s["slot"], "context": s["ctx"],
               "escaping_applied": s["applied"], "substituted_expression": s["src"],
               "written_text": py_escape(s["applied"], bad[1].s if bad else wit), "read_back": bad[1].got if bad else None,
               "model_outcome": "sink_ok %s (%s) = false; witness %r (diag/Diag_C05.v)" % (s["ctx"], s["esc"], wit),
               "impl_outcome": bad[1].what if bad else "no misbehaviour observed", "all_replays": tried[:12],
               "proposed_fix": fix_hint(s)}
        if bad:
            ck.violation(sink_sig(s), describe(s, bad[0], bad[1]), rec)
        else:
            ck.violation("sink-unreplayed:" + s["sig"],
                         "sink %s is rejected by the decision table but no entry point misbehaved on the witness %r" % (s["sig"], wit),
                         dict(rec, theorem_or_correspondence="C05_all_sinks"), concrete=False)
    # 4. unmodelled constructs
    for u in meta["unmodelled"]:
        ck.violation("unmodelled:" + u[:100], "translator met a construct outside the model: " + u,
                     {"theorem_or_correspondence": "C05_no_unmodelled", "construct": u}, concrete=False)

    # 5. correspondence model ~ implementation
    quick = tier == "quick"
    cases, expect = [], []
    grid_strings = gen_strings(rng, 500 if quick else 4000, "attr", ws=True)
    # malformed stream: raw payloads incl. control characters, references of every kind, code points XML cannot carry
    raw_pieces = META_PIECES + ["\t", "\n", "\r", "\r\n", "\x01", "\x0b", "\x7f", "\ufffe", "\uffff", "&#9;", "&#10;", "&#13;", "&#xD;", "&#x;", "&#xg;", "&#12a;",
                                "&amp", "&Amp;", "&#38;", "&#60;", "&#x26;#60;", "&#1114111;", "&#1114112;", "&#55296;", "&#xFFFE;", "&#000065;", "&#x000041;",
                                "]]&gt;", "&#93;&#93;>", "]]]>", "] ]>", "]>", ">", "a", " "]
    malformed = []
    for _ in range(2500 if quick else 20000):
        malformed.append("".join(rng.choice(raw_pieces) for _ in range(rng.randint(1, 5))))
    malformed += ["\t", "\n", "\r", "\r\n", "a\r\nb", "a\rb", "a\r\r\nb", "\n\r", "a\tb\nc\rd", " ", "  ", ""]
    # raw content around the blank-text heuristic: blanks next to CDATA sections and references, CR / CR LF runs
    blank_raw_pieces = [" ", "\t", "\n", "\r", "\r\n", " ", "\r", "<![CDATA[x]]>", "<![CDATA[]]>", "<![CDATA[ ]]>", "&#13;", "&#32;", "&amp;", "a", "\xe9", "]]>", "]", "\x7f"]
    malformed += [" <![CDATA[x]]>", "<![CDATA[x]]> ", "<![CDATA[]]> <![CDATA[x]]>", "<![CDATA[]]> \rX", " \r<![CDATA[ ]]> ", "&#32; \rX", " &#32;\rX",
                  " <![CDATA[]]>", " <![CDATA[]]> \r", "\r\n<![CDATA[x]]>", "\r\n\r<![CDATA[x]]>", " \r\n&#13;"]
    for _ in range(600 if quick else 6000):
        malformed.append("".join(rng.choice(blank_raw_pieces) for _ in range(rng.randint(1, 7))))
    # the 300-byte buffer of the slow path: a blank run after a bare CR (or CR LF CR), cut at 300 bytes, is dropped
    # when the next character is a CR or opens a CDATA section
    long_blank = []
    for k in (297, 298, 299, 300, 598, 599):
        for head in ("\r", "\r\n\r", " \r"):
            for tail in ("\rX", "\r\nX", "X", "", "<![CDATA[x]]>", "&amp;", " \rX"):
                long_blank.append(head + " " * k + tail)
    for _ in range(20 if quick else 300):
        run = "".join(rng.choice([" ", "\t", "\n", "\r\n", "\r"]) if rng.random() < 0.03 else " " for _ in range(rng.randint(285, 310)))
        long_blank.append(rng.choice(["", " ", "\r", "\r\n", " \r", "\n\r\n", "\r\n\r"]) + run + rng.choice(["\rX", "X", "\r\n\xe9", "<![CDATA[q]]>", "&#9;", "", "\r"]))
    # (a) escape functions
    for s in grid_strings:
        for e, ap in GRID_ESC[1:]:
            cases.append(["esc", e, s])
            expect.append(("esc", e, s, " ".join(str(ord(c)) for c in py_escape(ap, s))))
    # (b) the two slot lexers on a minimal template, escaped and raw
    bases = {c: probe_outcome(GRID[c], "x")[2] for c in "at"}
    malformed_set = set(malformed)
    for s in grid_strings + malformed + long_blank:
        for c in "at":
            for e, ap in GRID_ESC:
                if len(s) > 200 and (c, e) not in (("t", "0"), ("t", "A"), ("t", "B"), ("a", "P")):
                    continue
                if s in malformed_set and e != "0" and rng.random() < 0.6:
                    continue
                payload = py_escape(ap, s)
                r = probe_outcome(GRID[c], payload, bases[c])
                cases.append(["slot", c, e, s])
                expect.append(("slot", c + e, s, r))
    # several slots in one template (histories): a:none, t:sax, a:saxq
    for _ in range(100 if quick else 1500):
        trip = [rng.choice(grid_strings) for _ in range(3)]
        ces = [("a", "0"), ("t", "A"), ("a", "P")]
        fields = ["multi"]
        rs = []
        for (c, e), s in zip(ces, trip):
            fields += [c + e, s]
            rs.append(probe_outcome(GRID[c], py_escape(dict(GRID_ESC)[e], s), bases[c]))
        cases.append(fields)
        expect.append(("multi", "", tuple(trip), rs))
    # (c) every sink: the real template with the slot filled the way the code fills it
    sink_strings = gen_strings(rng, 60 if quick else 500, "attr", ws=True)
    n_sink_cases = 0
    for s_ in sinks:
        pr = s_.get("probe")
        if not pr or pr["attr"] == "xmlns":
            continue
        base = probe_outcome(pr, "x")
        if base[0] != "ok":
            ck.notes.append("probe of %s does not parse with a benign value: %r" % (s_["sig"], base))
            continue
        for s in sink_strings:
            r = probe_outcome(pr, py_escape(s_["applied"], s), base[2])
            cases.append(["slot", CTX_CODE[s_["ctx"]], esc_code(s_["applied"]), s])
            expect.append(("sink", s_["sig"], s, r))
            n_sink_cases += 1
    diffs, first = 0, None
    model_out = None
    # element-text cases whose content holds a raw CR or a raw less-than sign: the model is also asked for the
    # conformant reading (slot0); the blank-text heuristic was exercised where the two readings differ
    aux = {}
    n_main = len(cases)
    for idx in range(n_main):
        cs = cases[idx]
        if cs[0] == "slot" and cs[1] == "t":
            q = ["slot0", "t", cs[2], cs[3]]
            payload = py_escape(applied_of_code(cs[2]), cs[3])
        elif cs[0] == "multi":
            q = ["slot0", "t", "A", cs[4]]
            payload = py_escape("sax", cs[4])
        else:
            continue
        if raw_cr_or_lt(payload):
            aux[idx] = len(cases)
            cases.append(q)
    if have_model:
        try:
            model_out = run_model("C05", cases)
        except Exception as e:  # noqa
            ck.notes.append("model runner unavailable: %r" % e)
    n_heur = n_heur_sink = 0
    heur_samples = []
    for idx, ex in enumerate(expect):
        kind = ex[0]
        sval = ex[2] if isinstance(ex[2], str) else "".join(ex[2])
        ck.count((kind, ex[1], ex[2]), is_nontrivial(sval), "corr:" + kind)
        if model_out is None:
            continue
        mo = model_out[idx]
        if idx in aux:
            m1 = mo.split("|")[1] if kind == "multi" and mo.count("|") == 2 else mo
            if m1 != model_out[aux[idx]]:
                n_heur += 1
                n_heur_sink += kind == "sink"
                ck.dist["blank-heuristic-exercised"] = ck.dist.get("blank-heuristic-exercised", 0) + 1
                if len(heur_samples) < 6 and len(sval) < 60:
                    heur_samples.append({"kind": kind, "slot": ex[1], "string": ex[2] if kind != "multi" else ex[2][1], "model": m1, "conformant_reading": model_out[aux[idx]],
                                         "impl": list((ex[3][1] if kind == "multi" else ex[3])[:2])})
        if kind == "esc":
            same = mo.strip() == ex[3].strip()
        elif kind == "multi":
            parts = mo.split("|")
            same = len(parts) == 3 and all((model_slot_to_py(p)[0] == r[0]) and (r[0] != "ok" or model_slot_to_py(p)[1] == r[1])
                                           for p, r in zip(parts, ex[3]))
        else:
            mp = model_slot_to_py(mo)
            r = ex[3]
            same = mp[0] == r[0] and (r[0] != "ok" or mp[1] == r[1])
        if not same:
            diffs += 1
            if diffs <= 10:
                ck.notes.append("diff %s %s %r: model=%s impl=%r" % (kind, ex[1], ex[2], mo[:80], ex[3] if kind != "esc" else ex[3][:80]))
            if first is None:
                first = (kind, ex[1], ex[2], mo, ex[3])
    for ex in expect[:2] + expect[len(expect) // 3: len(expect) // 3 + 2] + expect[-2:]:
        ck.sample({"kind": ex[0], "slot": ex[1], "string": ex[2], "impl": list(ex[3]) if not isinstance(ex[3], str) else ex[3]}, limit=6)

    # 6. oracle: every entry point x strings
    n_rand = {"quick": 160, "thorough": 1950}[tier]
    n_rand_chart = {"quick": 70, "thorough": 500}[tier]
    failures = []
    per_ep = {}
    solo = [e for e in eps if is_solo(e)]
    for ep in eps:
        if is_solo(ep):
            continue
        chart = "chart" in ep.key or "replace_data" in ep.key or "placeholder.insert" in ep.key
        strings = gen_strings(rng, n_rand_chart if chart else n_rand, ep.dom, ws=not ep.c04)
        if chart and not quick:
            strings = strings[:560]
        outs = []
        for i in range(0, len(strings), 120):
            outs += run_ep_batch(ep, strings[i:i + 120], scratch)
        _account(ck, ep, outs, per_ep, failures)
    if solo:
        strings = gen_strings(rng, n_rand if quick else 240, "attr", ws=True)
        outs = run_solo(solo, strings, scratch)
        for ep in solo:
            _account(ck, ep, [o for o in outs if o.ep == ep.key], per_ep, failures)
    # classify failures: explained by a rejected sink the entry point reaches (model says broken), or not
    q_cases, q_meta = [], []
    for o in failures:
        for sid in meta["entry_points"].get(o.ep, {}).get("sinks", []):
            s_ = by_id[sid]
            q_cases.append(["slot", CTX_CODE[s_["ctx"]], esc_code(s_["applied"]), o.s])
            q_meta.append((o, s_))
    explained = {}
    if q_cases and have_model:
        try:
            for (o, s_), mo in zip(q_meta, run_model("C05", q_cases)):
                if model_slot_to_py(mo) != ("ok", o.s):
                    explained.setdefault((o.ep, o.s), s_)
        except Exception as e:  # noqa
            ck.notes.append("model runner unavailable for classification: %r" % e)
    for o in failures:
        s_ = explained.get((o.ep, o.s))
        if s_ is not None:
            ck.violation(sink_sig(s_), describe(s_, o.ep, o),
                         {"entry_point": o.ep, "input": o.s, "impl_outcome": o.what, "sink": s_["sig"], "responsible": s_["where"],
                          "written_text": py_escape(s_["applied"], o.s), "read_back": o.got,
                          "model_outcome": "the slot does not hold the string (broken or altered)", "proposed_fix": fix_hint(s_)})
        else:
            ck.violation("ep:%s:%s" % (o.ep, char_class(o.s)), "%s(%r): %s" % (o.ep, o.s, o.what),
                         {"entry_point": o.ep, "input": o.s, "impl_outcome": o.what, "read_back": o.got,
                          "model_outcome": "no template sink explains it (model gap or lxml-assigned value)"})
    if diffs and not any(v["concrete"] for v in ck.violations):
        kind, slot, sval, mo, io_ = first
        ck.violation("correspondence",
                     "model/Escape.v and the implementation (saxutils.escape + pptx.oxml.parse_xml) disagree on %d cases, e.g. %s %s %r: model=%s impl=%r" % (
                         diffs, kind, slot, sval, mo[:80], io_),
                     {"theorem_or_correspondence": "correspondence Escape.v ~ xml.sax.saxutils.escape / libxml2 slot parsing",
                      "input": [kind, slot, sval], "model_outcome": mo, "impl_outcome": repr(io_)}, concrete=False)
    any_concrete = any(v["concrete"] for v in ck.violations)
    ck.broken_build(oracle_found_concrete=any_concrete)
    caller = [s for s in sinks if s["origin"] == "caller text"]
    return ck.finish(
        rule="oracle: every enumerated public string-accepting entry point (%d) x (%d fixed markup / entity / CDATA / format-directive strings + random compositions over the XML Char production): call succeeds, reader returns the string, element count of the part as for a benign string, reader agrees after save + re-open; correspondence: model escape functions and slot lexers vs saxutils.escape and pptx.oxml.parse_xml on a minimal template (escaped, raw and malformed payloads, multi-slot templates) and on every real template with the slot filled as the code fills it; non-trivial = the string holds a markup / quote / format metacharacter" % (
            len(eps), len(CORE)),
        trusted_base=TB, assumptions=ASSUME,
        extra={"templates": meta["n_units"], "sinks": len(sinks), "sinks_receiving_caller_text": len(caller),
               "sinks_rejected_by_table": rejected, "sinks_known": [s["sig"] for s in sinks if s["known"]],
               "caller_text_sinks": [{"sig": s["sig"], "ctx": s["ctx"], "esc": s["esc"], "entry_points": s["entry_points"]} for s in caller],
               "library_made_holes": [{"sig": s["sig"], "observed": s["observed"]} for s in sinks if s["origin"].startswith("library-made")],
               "entry_points": {k: v["kind"] for k, v in meta["entry_points"].items()},
               "entry_point_results": per_ep, "per_sink_correspondence_cases": n_sink_cases,
               "compositions": len(meta["compositions"]), "whole_document_parses": [w["where"] for w in meta["whole_document_parses"]],
               "marker_instantiations_checked": meta["n_marker_checked"], "parse_xml_call_sites": meta["n_parse_xml_calls"],
               "whitespace_strings_judged_at": [e.key for e in eps if not e.c04],
               "text_frame_setters_without_control_characters": [e.key for e in eps if e.c04],
               "correspondence_diffs": diffs,
               "blank_text_heuristic": {"compared_cases_where_it_fired": n_heur, "of_them_on_real_sink_templates": n_heur_sink,
                                        "cases_with_raw_cr_or_lt_in_element_text": len(aux), "skipped": 0, "samples": heur_samples,
                                        "text_sinks_that_leave_cr_raw": [s_["sig"] for s_ in sinks if s_["ctx"] == "Text" and s_["origin"] == "caller text" and "r" not in (s_["applied"] or "none")[3:]]},
               "exhaustive": False})


def _account(ck, ep, outs, per_ep, failures):
    ok = bad = 0
    for o in outs:
        if o.s == "Benign 1":
            if not o.ok and o.what:
                failures.append(o)
            continue
        ck.count((ep.key, o.s), is_nontrivial(o.s), "oracle:" + ("ok" if o.ok else "fail"))
        if o.ok:
            ok += 1
        else:
            bad += 1
            failures.append(o)
    per_ep[ep.key] = {"ok": ok, "failed": bad}
    if outs:
        ck.sample({"entry_point": ep.key, "string": outs[-1].s, "ok": outs[-1].ok, "what": outs[-1].what}, limit=14)


def replay(rec):
    import tx_c05 as T
    key, s = rec.get("entry_point"), rec.get("input")
    if not isinstance(s, str) or key is None:
        print(json.dumps({k: rec.get(k) for k in ("what", "theorem_or_correspondence", "construct", "input")}, indent=1))
        return 0
    eps = {e.key: e for e in T.build_entry_points()}
    if key not in eps:
        print("unknown entry point", key)
        return 2
    ep = eps[key]
    tmp = tempfile.mkdtemp(prefix="c05r-")
    try:
        outs = run_solo([ep], [s], tmp) if is_solo(ep) else run_ep_batch(ep, [s], tmp)
    finally:
        shutil.rmtree(tmp, ignore_errors=True)
    o = [x for x in outs if x.s == s]
    print("entry point:", key)
    print("input      :", repr(s))
    print("impl       :", "stored and read back unchanged (also after save + re-open)" if o and o[0].ok else (o[0].what if o else "no outcome"))
    meta = json.load(open(os.path.join(COQ, "gen", "c05_meta.json")))
    by_id = {x["id"]: x for x in meta["sinks"]}
    for sid in meta["entry_points"].get(key, {}).get("sinks", []):
        s_ = by_id[sid]
        try:
            mo = run_model("C05", [["slot", CTX_CODE[s_["ctx"]], esc_code(s_["applied"]), s]])[0]
        except Exception as e:  # noqa
            mo = "model runner unavailable: %r" % e
        print("model      : sink %s (%s, escaping %s): %s" % (s_["sig"], s_["ctx"], s_["applied"], mo[:120]))
    return 0 if o and o[0].ok else 1


CLAIM = {
    "tech": "Coq proof: saxutils.escape with any sub-dictionary of quote / TAB / LF / CR and an XML slot lexer (double-quoted attribute value with attribute-value normalisation; element text with line-end handling, references, CDATA sections and libxml2's blank-text removal heuristic -- areBlanks over the chunks of xmlParseCharData, fast path and 300-byte slow-path buffer) in Gallina; theorems for all strings of XML characters; verified decision table sink_ok (the slot gives back exactly the string) evaluated by vm_compute over the template sinks re-extracted from /repo each run; marker / taint / escaping cross-validation of the translator; per-sink correspondence with the real parser; API-level oracle with save + re-open",
    "text": "27 theorems closed under the global context: escape(data, entities) (successive replace passes) equals the per-character substitution for every sub-dictionary; escaped text is read back as exactly one text node / one attribute value: with the quote, TAB, LF and CR written as references an attribute gives back EVERY string (C05_attr_safe_ws, no guard), text with CR as a reference gives back every string (C05_text_safe_cr) because no raw CR or less-than sign reaches the parser and libxml2's blank-text heuristic then cannot fire (C05_escaped_cr_no_raw, C05_text_no_raw_cr_conformant); with the shorter dictionaries what the parser hands back is stated exactly: attribute-value normalisation (C05_attr_safe_norm) and, for element text, blank_drop_normalise (C05_text_safe_norm: line-end handling plus the blank chunks libxml2 drops before a CR), characterised by C05_blank_drop_no_cr (no CR: unchanged), C05_blank_drop_suffix (only a leading all-blank part is lost, the part read starts at a CR), C05_blank_drop_keeps_nonblank, C05_blank_drop_length, and shown real by C05_text_sax_blank_refuted (blank CR X reads LF X although a conformant parser returns blank LF X: C05_text_conf_norm); escape without the quot entity is refuted inside attributes, no escaping is refuted (ampersand, less-than); the CDATA-end sequence is rejected in character data and cannot occur after escaping; the decision table is sound and exact (every rejected combination has a witness: quote, TAB, LF or CR in an attribute, CR in text), and the weaker markup table guarantees the slot is never broken. Instance C05_all_sinks: every hole of every XML template of src/pptx (61 templates, ~140 holes, found by an AST scan of all %-format / str.format / f-string expressions and cross-validated by marker instantiation, a taint run and a run with metacharacters) either gives back exactly the caller's string or receives a value that is not caller text; instance C05_text_sinks_heuristic_off: at no element-text sink can the blank-text heuristic fire; rejected sinks are listed by diag/Diag_C05.v and replayed through the public entry point that reaches them (signatures sink: / attr-ws-normalised: / text-cr-normalised:). The model is tied to the implementation by running saxutils.escape and pptx.oxml.parse_xml on a minimal template and on every real template over the same strings (incl. leading blanks before CR, CR LF runs, CR before non-ASCII, blanks next to CDATA sections and references, blank runs across the 300-byte buffer; no case is skipped, evidence counter blank_text_heuristic), and the oracle runs every enumerated string-accepting entry point (names, file names, hyperlinks, chart names / labels / number formats, fonts, prog-ids, core properties, text) on markup- and white-space-biased strings over the XML Char production incl. save + re-open.",
    "note": "translator tx_c05 and the entry-point enumeration are trusted (cross-validated each run); 'library-made' holes are classified by observation over that enumeration plus call-site analysis against a table; libxml2 is modelled by the slot lexers, blank-text heuristic included (correspondence, not proof; documents parsed from an in-memory UTF-8 buffer, slot = whole element content); lxml attribute/text assignment is the trusted third kind of sink, exercised by save + re-open; text-frame setters are run without control characters (their translations are property C04's).",
    "ref": "6/C05",
}
