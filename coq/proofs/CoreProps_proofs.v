(** Lemmas about model/CoreProps.v (C18). *)
From V.lib Require Import Prelude Calendar.
From V.model Require Import CoreProps.
From V.proofs Require Import Prelude_proofs Calendar_proofs.
From Coq Require Import ZifyBool.

(** ---- properties ---- *)

Lemma prop_eqb_eq p q : prop_eqb p q = true <-> p = q.
Proof. split; [|intros ->; destruct q; reflexivity]. destruct p, q; cbv; congruence. Qed.

Lemma prop_eqb_refl p : prop_eqb p p = true.
Proof. apply prop_eqb_eq; reflexivity. Qed.

Lemma prop_eqb_neq p q : p <> q -> prop_eqb p q = false.
Proof. intros H. destruct (prop_eqb p q) eqn:E; auto. apply prop_eqb_eq in E. contradiction. Qed.

(** ---- decimal text ---- *)

Definition dval (s : str) (acc : Z) : Z :=
  fold_left (fun a c => (10 * a + Z.of_N (c - 48))%Z) s acc.

Lemma dval_app s t acc : dval (s ++ t) acc = dval t (dval s acc).
Proof. unfold dval. apply fold_left_app. Qed.

Lemma dval_shift s acc : dval s acc = (acc * 10 ^ Z.of_nat (length s) + dval s 0)%Z.
Proof.
  revert acc. induction s as [|c s IH]; intros acc.
  - cbn [dval fold_left length]. change (Z.of_nat 0) with 0%Z. lia.
  - cbn [dval fold_left length]. fold (dval s (10 * acc + Z.of_N (c - 48))%Z).
    fold (dval s (10 * 0 + Z.of_N (c - 48))%Z).
    rewrite IH. rewrite (IH (10 * 0 + Z.of_N (c - 48))%Z).
    rewrite Nat2Z.inj_succ, Z.pow_succ_r by lia. lia.
Qed.

Lemma udigit_ascii c : is_digit c = true -> udigit_val c = Some (Z.of_N (c - 48)).
Proof. intros H. unfold udigit_val. rewrite H. reflexivity. Qed.

Lemma digits_us_ascii s prev acc cnt :
  forallb is_digit s = true -> (s <> [] \/ prev = true) ->
  digits_us s prev acc cnt = Some (dval s acc, (cnt + N.of_nat (length s))%N).
Proof.
  revert prev acc cnt. induction s as [|c s IH]; intros prev acc cnt Hd Hne.
  - destruct Hne as [Hne | ->]; [congruence|]. cbn. f_equal. f_equal. lia.
  - cbn [forallb] in Hd. apply andb_true_iff in Hd as [Hc Hs].
    cbn [digits_us]. rewrite (udigit_ascii c Hc).
    rewrite IH by auto. cbn [dval fold_left length]. f_equal. f_equal. lia.
Qed.

Lemma is_digit_not_space c : is_digit c = true -> int_space c = false.
Proof. unfold is_digit, int_space. lia. Qed.

Lemma drop_while_hd {A} (f : A -> bool) c s : f c = false -> drop_while f (c :: s) = c :: s.
Proof. intros H. cbn. rewrite H. reflexivity. Qed.

Lemma strip_digits s : forallb is_digit s = true -> strip_int_space s = s.
Proof.
  intros H. unfold strip_int_space.
  assert (D : forall t, forallb is_digit t = true -> drop_while int_space t = t).
  { intros [|c t] Ht; auto. cbn [forallb] in Ht. apply andb_true_iff in Ht as [Hc _].
    apply drop_while_hd. apply is_digit_not_space; auto. }
  rewrite (D s H). rewrite D by (rewrite forallb_rev; auto). apply rev_involutive.
Qed.

Lemma split_sign_digits s : forallb is_digit s = true -> split_sign s = (false, s).
Proof.
  destruct s as [|c t]; auto. cbn [forallb]. intros H. apply andb_true_iff in H as [Hc _].
  unfold split_sign. unfold is_digit in Hc.
  destruct (N.eqb_spec c 43); [lia|]. destruct (N.eqb_spec c 45); [lia|]. reflexivity.
Qed.

(** int() on a non-empty run of at most 4300 ASCII digits. *)
Lemma py_int_digits s :
  forallb is_digit s = true -> s <> [] -> (N.of_nat (length s) <= 4300)%N ->
  py_int s = Some (dval s 0).
Proof.
  intros Hd Hne Hl. unfold py_int. rewrite (strip_digits s Hd), (split_sign_digits s Hd).
  rewrite digits_us_ascii by auto. unfold max_str_digits.
  destruct (N.ltb_spec 4300 (0 + N.of_nat (length s))); [exfalso; lia|reflexivity].
Qed.

(** ---- dec_of_N ---- *)

Lemma ddf_spec fuel : forall n acc, (n < 2 ^ N.of_nat fuel)%N -> (0 < fuel)%nat ->
  forallb is_digit acc = true ->
  forallb is_digit (dec_digits_fuel fuel n acc) = true /\
  dec_digits_fuel fuel n acc <> [] /\
  dval (dec_digits_fuel fuel n acc) 0 = (Z.of_N n * 10 ^ Z.of_nat (length acc) + dval acc 0)%Z.
Proof.
  induction fuel as [|f IH]; intros n acc Hn Hf Ha; [lia|].
  cbn [dec_digits_fuel].
  assert (Hdig : is_digit (48 + n mod 10) = true).
  { unfold is_digit. assert (n mod 10 < 10)%N by (apply N.mod_upper_bound; discriminate). lia. }
  destruct (N.ltb_spec n 10) as [Hlt|Hge].
  - split; [cbn [forallb]; rewrite Hdig, Ha; reflexivity|]. split; [discriminate|].
    change (dval ((48 + n mod 10)%N :: acc) 0) with (dval acc (10 * 0 + Z.of_N (48 + n mod 10 - 48))%Z).
    rewrite dval_shift. rewrite N.mod_small by lia. lia.
  - assert (Hf' : (0 < f)%nat).
    { destruct f; [|lia]. change (2 ^ N.of_nat 1)%N with 2%N in Hn. lia. }
    assert (Hn' : (n / 10 < 2 ^ N.of_nat f)%N).
    { rewrite Nat2N.inj_succ, N.pow_succ_r' in Hn.
      apply N.div_lt_upper_bound; lia. }
    specialize (IH (n / 10)%N ((48 + n mod 10)%N :: acc) Hn' Hf').
    destruct IH as [I1 [I2 I3]]; [cbn [forallb]; rewrite Hdig, Ha; reflexivity|].
    split; auto. split; auto. rewrite I3.
    change (dval ((48 + n mod 10)%N :: acc) 0) with (dval acc (10 * 0 + Z.of_N (48 + n mod 10 - 48))%Z).
    rewrite (dval_shift acc). cbn [length]. rewrite Nat2Z.inj_succ, Z.pow_succ_r by lia.
    assert (E : n = (10 * (n / 10) + n mod 10)%N) by (apply N.div_mod; discriminate).
    assert (E' : Z.of_N n = (10 * Z.of_N (n / 10) + Z.of_N (n mod 10))%Z) by lia.
    replace (Z.of_N (48 + n mod 10 - 48)) with (Z.of_N (n mod 10)) by lia.
    rewrite E'. ring.
Qed.

Lemma dec_of_N_spec n :
  forallb is_digit (dec_of_N n) = true /\ dec_of_N n <> [] /\ dval (dec_of_N n) 0 = Z.of_N n.
Proof.
  unfold dec_of_N.
  destruct (ddf_spec (S (N.to_nat (N.size n))) n []) as [A [B C]]; auto; try lia.
  - rewrite Nat2N.inj_succ, N2Nat.id, N.pow_succ_r'.
    pose proof (N.size_gt n). lia.
  - split; auto. split; auto. rewrite C. cbn [length dval fold_left]. change (Z.of_nat 0) with 0%Z. lia.
Qed.
