(** Tactics that prove, for a generated simple-type class, that its translated
    to_xml / from_xml equals the claimed canonical descriptor behaviour for ALL values. *)
From V.lib Require Import Prelude PyFloat PyVal.
From V.model Require Import SimpleTypeLib.

(** Z order facts from stuck comparisons *)
Lemma cmp_lt x y : (x ?= y)%Z = Lt -> (x < y)%Z. Proof. apply Z.compare_lt_iff. Qed.
Lemma cmp_gt x y : (x ?= y)%Z = Gt -> (x > y)%Z. Proof. intros H; apply Z.compare_gt_iff in H; lia. Qed.
Lemma cmp_eq x y : (x ?= y)%Z = Eq -> x = y. Proof. apply Z.compare_eq. Qed.

Ltac unfold_py :=
  cbv beta iota delta [bind of_bool as_bool py_truth py_lt py_le py_gt py_ge py_eq py_ne py_order py_eqb
    as_num cmp_num py_isinstance isinstance1 existsb orb andb negb py_str py_int py_len py_in py_not_in
    desc_to_xml int_range_to_xml int_range_to_xml_b int_any_to_xml int_any_to_xml_b str_any_to_xml str_enum_to_xml
    bool_to_xml enum_tokens_to_xml charset_upper_to_xml py_all_chars_in py_upper with_str in_range Z.ltb Z.leb Z.eqb Z.gtb Z.geb
    rdesc_from_xml bool_from_xml py_Emu pyerr_eqb mem_str py_dict_get].

Ltac split_cmp :=
  repeat match goal with
  | |- context [Z.compare ?a ?b] =>
      first [ is_var a | is_var b | match a with Z.of_nat _ => idtac end ];
      let E := fresh "E" in destruct (Z.compare a b) eqn:E
  end.

Ltac finish_cmp :=
  try reflexivity;
  exfalso;
  repeat match goal with
  | H : (_ ?= _)%Z = Lt |- _ => apply cmp_lt in H
  | H : (_ ?= _)%Z = Gt |- _ => apply cmp_gt in H
  | H : (_ ?= _)%Z = Eq |- _ => apply cmp_eq in H
  end; lia.

Ltac split_streq :=
  repeat match goal with
  | |- context [str_eqb ?s ?l] => destruct (str_eqb s l)
  end.

Ltac split_fcmp :=
  repeat match goal with
  | |- context [f_cmp ?a ?b] => destruct (f_cmp a b) as [[ | | ]|]
  end.

Ltac desc_solve unf :=
  let v := fresh "v" in
  intros v; destruct v as [z|b|f|s| |l|n];
  [ unf; unfold_py; split_cmp; finish_cmp
  | destruct b; vm_compute; reflexivity
  | try (vm_compute; reflexivity); unf; unfold_py; try reflexivity; split_fcmp; reflexivity
  | try (vm_compute; reflexivity); unf; unfold_py; try reflexivity; split_cmp; split_streq;
    repeat match goal with |- context [forallb ?f ?x] => destruct (forallb f x) end; reflexivity
  | vm_compute; reflexivity
  | try (vm_compute; reflexivity); unf; unfold_py; try reflexivity
  | vm_compute; reflexivity ].

Ltac rdesc_solve unf :=
  let s := fresh "s" in
  intros s; unf; unfold_py; try reflexivity;
  repeat match goal with
  | |- context [int_of_str ?b ?x] => destruct (int_of_str b x)
  end; try reflexivity; split_streq; reflexivity.
