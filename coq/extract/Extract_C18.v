From Coq Require Import Extraction ExtrOcamlBasic.
From V.model Require Import CorePropsRun.
Extraction Language OCaml.
Cd "extract".
Extraction "c18.ml" run_c18.
Cd "..".
