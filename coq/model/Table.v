(** Model of the table machinery of python-pptx:
    src/pptx/table.py (Table, _Cell.merge, _Cell.split, _Row.height, _Column.width,
    notify_height_changed, notify_width_changed), src/pptx/oxml/table.py
    (CT_Table.new_tbl, CT_TableCell, TcRange), the text-body helpers
    CT_TextBody.is_empty / clear_content / unclear_content used by append_ps_from,
    and the creation path shapetree.add_table -> new_table_graphicFrame.
    Definitions only; proofs live in proofs/Table_proofs.v.

    Indices and span counts are nat (they index lists); EMU sizes are Z. *)
From V.lib Require Import Prelude.

(** One a:tc element: the four merge attributes and the a:p children of its
    a:txBody, each paragraph represented by its text (a:br reads as code point 11). *)
Record cell := mkCell {
  gridSpan : nat;         (* attribute gridSpan, default 1 *)
  rowSpan : nat;          (* attribute rowSpan, default 1 *)
  hMerge : bool;          (* attribute hMerge, default false *)
  vMerge : bool;          (* attribute vMerge, default false *)
  paras : list str        (* text of each a:p of the a:txBody *)
}.

(** a:tbl inside its p:graphicFrame: a:tr list (each a list of a:tc), a:gridCol w
    values, a:tr h values, and the frame extent (a:ext cx, cy). *)
Record table := mkTable {
  grid : list (list cell);
  widths : list Z;
  heights : list Z;
  cx : Z;
  cy : Z
}.

(** CT_TableCell.new: one empty paragraph, no merge attributes. *)
Definition new_cell : cell := mkCell 1 1 false false [[]].

(* ------------------------------------------------------------------ list helpers *)
Fixpoint mapi_from {A B} (k : nat) (f : nat -> A -> B) (l : list A) : list B :=
  match l with
  | [] => []
  | x :: l' => f k x :: mapi_from (S k) f l'
  end.
Definition mapi {A B} (f : nat -> A -> B) (l : list A) : list B := mapi_from 0 f l.

Definition map_grid (f : nat -> nat -> cell -> cell) (g : list (list cell)) : list (list cell) :=
  mapi (fun r row => mapi (fun c cl => f r c cl) row) g.

(** tbl.tc(row_idx, col_idx) = tr_lst[row_idx].tc_lst[col_idx] for non-negative
    indices; None stands for IndexError. *)
Definition get (g : list (list cell)) (r c : nat) : option cell :=
  match nth_error g r with
  | Some row => nth_error row c
  | None => None
  end.

Fixpoint set_nth {A} (i : nat) (v : A) (l : list A) : list A :=
  match l, i with
  | [], _ => []
  | _ :: l', O => v :: l'
  | x :: l', S i' => x :: set_nth i' v l'
  end.

Definition sumZ (l : list Z) : Z := fold_right Z.add 0%Z l.

(* ------------------------------------------------------------------ simple types *)
(** ST_Coordinate.validate (a:gridCol w, a:tr h) *)
Definition in_coord (z : Z) : bool :=
  ((-27273042329600) <=? z)%Z && (z <=? 27273042316900)%Z.
(** ST_PositiveCoordinate.validate (a:ext cx, cy written through the shape setter) *)
Definition in_poscoord (z : Z) : bool :=
  (0 <=? z)%Z && (z <=? 27273042316900)%Z.

(* ------------------------------------------------------------------ new_tbl *)
(** The loop of new_tbl that hands out column widths (and, identically, row
    heights): every item gets total // n except the last, which gets
    total - (n-1) * (total // n). *)
Definition distribute (n : nat) (total : Z) : list Z :=
  let q := (total / Z.of_nat n)%Z in
  map (fun k => if Nat.eqb k (n - 1) then (total - Z.of_nat (n - 1) * q)%Z else q) (seq 0 n).

(** shapes.add_table(rows, cols, x, y, width, height) followed by .table.
    rows = 0 or cols = 0 raise ZeroDivisionError (OtherErr); each a:gridCol w and
    a:tr h is validated as ST_Coordinate (ValueError); the frame extent is written
    by string formatting without validation. *)
Definition new_tbl (rows cols : nat) (width height : Z) : res table :=
  match rows, cols with
  | O, _ => Err OtherErr
  | _, O => Err OtherErr
  | _, _ =>
      let ws := distribute cols width in
      let hs := distribute rows height in
      if forallb in_coord ws && forallb in_coord hs
      then Ok (mkTable (repeat (repeat new_cell cols) rows) ws hs width height)
      else Err ValueErr
  end.

(* ------------------------------------------------------------------ cell observers *)
(** CT_TableCell.is_merge_origin *)
Definition is_merge_origin (c : cell) : bool :=
  if (1 <? gridSpan c) && negb (vMerge c) then true
  else (1 <? rowSpan c) && negb (hMerge c).

(** CT_TableCell.is_spanned *)
Definition is_spanned (c : cell) : bool := hMerge c || vMerge c.

(** the per-cell test of TcRange.contains_merged_cell *)
Definition is_merged (c : cell) : bool :=
  (1 <? gridSpan c) || (1 <? rowSpan c) || hMerge c || vMerge c.

(* ------------------------------------------------------------------ TcRange *)
(** TcRange._extents: start_and_size(idx, other_idx) = (min, abs(difference) + 1) *)
Definition start_and_size (i j : nat) : nat * nat := (Nat.min i j, (Nat.max i j - Nat.min i j) + 1).

(** (r, c) lies in the block with the given top, lft, height, width *)
Definition in_rect (top lft h w r c : nat) : bool :=
  (top <=? r) && (r <? top + h) && (lft <=? c) && (c <? lft + w).

(** coordinates of the block, left-to-right, top-to-bottom *)
Definition rect_coords (top lft h w : nat) : list (nat * nat) :=
  flat_map (fun r => map (fun c => (r, c)) (seq lft w)) (seq top h).

(** TcRange.iter_tcs: tr_lst[top:bottom] x tc_lst[lft:right] in reading order
    (slices silently skip positions that do not exist) *)
Definition range_cells (g : list (list cell)) (top lft h w : nat) : list cell :=
  flat_map (fun rc => match get g (fst rc) (snd rc) with Some cl => [cl] | None => [] end)
           (rect_coords top lft h w).

Definition contains_merged_cell (g : list (list cell)) (top lft h w : nat) : bool :=
  existsb is_merged (range_cells g top lft h w).

(* ------------------------------------------------------------------ text bodies *)
(** CT_TextBody.is_empty on a body with at least one paragraph: exactly one
    paragraph whose text is the empty string.  (On a body with no paragraph the
    code raises InvalidXmlError; merge below guards that case separately.) *)
Definition tb_is_empty (ps : list str) : bool :=
  match ps with
  | [p] => match p with [] => true | _ => false end
  | _ => false
  end.

(** CT_TextBody.unclear_content *)
Definition unclear (ps : list str) : list str :=
  match ps with [] => [[]] | _ => ps end.

(** CT_TableCell.append_ps_from: (target after, source after) *)
Definition append_ps (target source : list str) : list str * list str :=
  if tb_is_empty source then (target, source)
  else
    let t1 := if tb_is_empty target then [] else target in   (* clear_content *)
    let t2 := t1 ++ source in                                  (* every a:p of source moves *)
    (unclear t2, unclear []).

(** TcRange.move_content_to_origin seen from the origin: fold over tcs[1:] *)
Definition merged_paras (origin : list str) (others : list (list str)) : list str :=
  fold_left (fun o s => fst (append_ps o s)) others origin.

(** ... and seen from each spanned cell (does not depend on the target) *)
Definition src_after (source : list str) : list str := snd (append_ps [[]] source).

(* ------------------------------------------------------------------ merge / split *)
(** The four attribute loops of _Cell.merge plus the paragraph move, as the effect
    on the cell at (r, c). *)
Definition merge_cell (top lft h w : nat) (origin_paras : list str) (r c : nat) (cl : cell) : cell :=
  if in_rect top lft h w r c then
    mkCell
      (if c =? lft then w else gridSpan cl)            (* iter_left_col_tcs: gridSpan = col_count *)
      (if r =? top then h else rowSpan cl)              (* iter_top_row_tcs: rowSpan = row_count *)
      (if lft <? c then true else hMerge cl)           (* iter_except_left_col_tcs: hMerge *)
      (if top <? r then true else vMerge cl)            (* iter_except_top_row_tcs: vMerge *)
      (if (r =? top) && (c =? lft) then origin_paras else src_after (paras cl))
  else cl.

Definition has_no_paras (c : cell) : bool := match paras c with [] => true | _ => false end.

(** _Cell.merge on the cells at (r1,c1) and (r2,c2) of the same table.
    Order of checks as in the code: cell look-ups (IndexError), in_same_table
    (always true here), contains_merged_cell (ValueError), then the mutation.
    A cell without any paragraph inside the range would make is_empty raise
    InvalidXmlError half way: reported as OtherErr, never reachable from new_tbl. *)
Definition merge (g : list (list cell)) (r1 c1 r2 c2 : nat) : res (list (list cell)) :=
  match get g r1 c1, get g r2 c2 with
  | Some _, Some _ =>
      let '(lft, w) := start_and_size c1 c2 in
      let '(top, h) := start_and_size r1 r2 in
      if contains_merged_cell g top lft h w then Err ValueErr
      else
        let tcs := range_cells g top lft h w in
        if existsb has_no_paras tcs then Err OtherErr
        else
          let origin_paras :=
            match tcs with
            | o :: rest => merged_paras (paras o) (map paras rest)
            | [] => [[]]
            end in
          Ok (map_grid (merge_cell top lft h w origin_paras) g)
  | _, _ => Err IndexErr
  end.

(** _Cell.merge with a cell of a different table as other_cell: in_same_table is
    false, ValueError, before anything else is looked at. *)
Definition merge_foreign (g : list (list cell)) (r c : nat) : res (list (list cell)) :=
  match get g r c with
  | Some _ => Err ValueErr
  | None => Err IndexErr
  end.

Definition plain_cell (cl : cell) : cell := mkCell 1 1 false false (paras cl).

(** _Cell.split: ValueError unless is_merge_origin; TcRange.from_merge_origin looks
    up tbl.tc(r + rowSpan - 1, c + gridSpan - 1) (IndexError when absent); every
    cell of the range gets all four attributes reset.  A span of 0 would make the
    index negative (python wraps around): OtherErr, never reachable from new_tbl. *)
Definition split (g : list (list cell)) (r c : nat) : res (list (list cell)) :=
  match get g r c with
  | None => Err IndexErr
  | Some cl =>
      if negb (is_merge_origin cl) then Err ValueErr
      else if (rowSpan cl =? 0) || (gridSpan cl =? 0) then Err OtherErr
      else match get g (r + rowSpan cl - 1) (c + gridSpan cl - 1) with
           | None => Err IndexErr
           | Some _ =>
               Ok (map_grid (fun r' c' cl' =>
                               if in_rect r c (rowSpan cl) (gridSpan cl) r' c'
                               then plain_cell cl' else cl') g)
           end
  end.

(* ------------------------------------------------------------------ operations *)
Inductive op :=
| Merge (r1 c1 r2 c2 : nat)
| MergeForeign (r c : nat)
| Split (r c : nat)
| SetRowH (i : nat) (h : Z)
| SetColW (j : nat) (w : Z)
| SetText (r c : nat) (s : str).

Definition with_grid (t : table) (g : list (list cell)) : table :=
  mkTable g (widths t) (heights t) (cx t) (cy t).

Definition lift_grid (t : table) (r : res (list (list cell))) : table * res unit :=
  match r with
  | Ok g => (with_grid t g, Ok tt)
  | Err e => (t, Err e)
  end.

(** table.rows[i].height = h: IndexError from _RowCollection; the setter remembers the
    prior a:tr h, writes the new one (validated as ST_Coordinate: ValueError before anything
    changes), then notify_height_changed assigns the sum to the graphic frame, whose setter
    validates ST_PositiveCoordinate: when that raises, the setter restores the prior row
    height and re-raises, so a rejected assignment leaves the table as it was. *)
Definition set_row_h (t : table) (i : nat) (h : Z) : table * res unit :=
  if i <? length (heights t) then
    if in_coord h then
      let hs := set_nth i h (heights t) in
      let s := sumZ hs in
      if in_poscoord s then (mkTable (grid t) (widths t) hs (cx t) s, Ok tt)
      else (t, Err ValueErr)
    else (t, Err ValueErr)
  else (t, Err IndexErr).

(** table.columns[j].width = w: the same protocol on a:gridCol w and the frame width. *)
Definition set_col_w (t : table) (j : nat) (w : Z) : table * res unit :=
  if j <? length (widths t) then
    if in_coord w then
      let ws := set_nth j w (widths t) in
      let s := sumZ ws in
      if in_poscoord s then (mkTable (grid t) ws (heights t) s (cy t), Ok tt)
      else (t, Err ValueErr)
    else (t, Err ValueErr)
  else (t, Err IndexErr).

(** table.cell(r, c).text = s: TextFrame.text setter, one paragraph per piece of
    s.split(newline) *)
Definition set_text (g : list (list cell)) (r c : nat) (s : str) : res (list (list cell)) :=
  match get g r c with
  | None => Err IndexErr
  | Some _ =>
      Ok (map_grid (fun r' c' cl =>
                      if (r' =? r) && (c' =? c)
                      then mkCell (gridSpan cl) (rowSpan cl) (hMerge cl) (vMerge cl) (split_on 10%N s)
                      else cl) g)
  end.

(** One API call: the state afterwards and what the caller saw. *)
Definition step (t : table) (o : op) : table * res unit :=
  match o with
  | Merge r1 c1 r2 c2 => lift_grid t (merge (grid t) r1 c1 r2 c2)
  | MergeForeign r c => lift_grid t (merge_foreign (grid t) r c)
  | Split r c => lift_grid t (split (grid t) r c)
  | SetRowH i h => set_row_h t i h
  | SetColW j w => set_col_w t j w
  | SetText r c s => lift_grid t (set_text (grid t) r c s)
  end.

Definition run_ops (t : table) (ops : list op) : table :=
  fold_left (fun t o => fst (step t o)) ops t.
