(** Write-side theorems for the remaining classes without a canonical descriptor, proved on
    the Gallina regenerated from simpletypes.py (gen/GenC11.v) for ALL python values:
    ST_TextSpacingPoint (EMU in, centipoints out), XsdDouble / ST_AxisUnit (as far as
    str(float) is modelled), and the refutations the faithful model yields:
    ST_Extension / ST_ContentType accept every string although their schema types carry a
    pattern, and (since the repair of BaseFloatType.validate) Rej for the xsd:double classes. *)
From V.lib Require Import Prelude PyFloat PyVal.
From V.model Require Import SimpleTypeLib.
From V.proofs Require Import PyFloat_proofs SimpleTypeLib_proofs C11_float_instance C11_regex C11_patterns.
From V.gen Require Import GenC11.
Local Open Scope Z_scope.

Lemma py_lt_ints a b : py_lt (PInt a) (PInt b) = Ok (a <? b).
Proof. unfold py_lt, py_order. cbn [as_num cmp_num]. unfold Z.ltb. destruct (a ?= b); reflexivity. Qed.
Lemma py_gt_ints a b : py_gt (PInt a) (PInt b) = Ok (b <? a).
Proof.
  unfold py_gt, py_order. cbn [as_num cmp_num]. rewrite Z.ltb_antisym, Z.leb_compare.
  destruct (a ?= b); reflexivity.
Qed.

(** ST_TextSpacingPoint (a:spcPts/@val, ST_TextSpacingPoint = 0..158400 centipoints):
    validate_int_in_range(value, 0, 20116800) on the EMU value, then
    str(Emu(value).centipoints) = str(value // 127) *)
Theorem W_TextSpacingPoint : forall v s,
  ST_TextSpacingPoint__to_xml v = Ok (PStr s) -> lex_ok (LInt 0 158400) s = true.
Proof.
  intros v s H.
  unfold ST_TextSpacingPoint__to_xml, ST_TextSpacingPoint__validate, ST_TextSpacingPoint__validate_int_in_range,
    ST_TextSpacingPoint__validate_int, ST_TextSpacingPoint__convert_to_xml in H.
  destruct v as [z|b|f|s0| |l|n]; cbn [py_isinstance existsb isinstance1 as_bool bind py_truth negb orb] in H;
    try discriminate H.
  - rewrite py_lt_ints, py_gt_ints in H. cbn [bind] in H.
    destruct (Z.ltb_spec z 0) as [Hlo|Hlo]; cbn [bind] in H; [discriminate H|].
    destruct (Z.ltb_spec 20116800 z) as [Hhi|Hhi]; cbn [bind] in H; [discriminate H|].
    unfold py_Emu, Length__centipoints, py_floordiv, arith in H.
    cbn [py_int bind as_num py_str] in H. change (127 =? 0) with false in H. cbv iota in H.
    cbn [bind py_str] in H.
    injection H as <-. apply lex_int_between.
    split; [apply Z.div_pos; lia|].
    apply Z.div_le_upper_bound; lia.
  - destruct b; vm_compute in H; injection H as <-; reflexivity.
Qed.

Example TextSpacingPoint_examples :
  ST_TextSpacingPoint__to_xml (PInt 20116800) = Ok (PStr [49; 53; 56; 52; 48; 48]%N)     (* 158400 *)
  /\ ST_TextSpacingPoint__to_xml (PInt 12700) = Ok (PStr [49; 48; 48]%N)
  /\ ST_TextSpacingPoint__to_xml (PInt 126) = Ok (PStr [48]%N)
  /\ ST_TextSpacingPoint__to_xml (PBool true) = Ok (PStr [48]%N)
  /\ ST_TextSpacingPoint__to_xml (PInt 20116801) = Err ValueErr
  /\ ST_TextSpacingPoint__to_xml (PInt (-1)) = Err ValueErr
  /\ ST_TextSpacingPoint__to_xml (PFloat (Fin 1 0)) = Err TypeErr.
Proof. vm_compute. repeat split. Qed.

(** ---- xsd:double classes ---- *)
Lemma py_float_inf : py_float (PStr [105; 110; 102]%N) = Ok (PFloat PInf).
Proof. vm_compute. reflexivity. Qed.
Lemma py_float_ninf : py_float (PStr [45; 105; 110; 102]%N) = Ok (PFloat NInf).
Proof. vm_compute. reflexivity. Qed.

(** The float validator (BaseFloatType.validate, inherited by XsdDouble, ST_Angle,
    ST_PositiveFixedAngle and called through super by ST_AxisUnit): the generated definitions
    are all this one term, and it classifies EVERY python value. *)
Definition fvalidate (v_value : pyval) : res pyval :=
  (t1 <- (t2 <- (as_bool (Ok (PBool (py_isinstance v_value [C_int; C_float])))) ;; Ok (negb t2)) ;;
   if t1 then Err TypeErr
   else (match (py_float v_value) with
   | Ok v_as_float => (t4 <- (t8 <- (py_ne v_as_float v_as_float) ;; if t8 then Ok true else (t5 <- (t6 <- (py_float (PStr [105; 110; 102]%N)) ;; t7 <- (py_float (PStr [45; 105; 110; 102]%N)) ;; Ok (PTuple [t6; t7])) ;; py_in v_as_float t5)) ;;
   if t4 then Err ValueErr
   else Ok PNone)
   | Err t3 => if pyerr_eqb t3 OverflowErr then Err ValueErr else Err t3
   end)).
Lemma f_of_Z_cases z : (exists m e, f_of_Z z = Ok (Fin m e)) \/ f_of_Z z = Err OverflowErr.
Proof.
  unfold f_of_Z. pose proof (round_dy_not_nan z 0) as Hn.
  destruct (round_dy z 0); try congruence; eauto.
Qed.

(** a generated validator equals the reference [fvalidate] on every value: by cases on the value, so that the
    statement survives a restructuring of the source (validate calling validate_float first, a named constant
    for the two infinities, ...) as long as the behaviour is the same *)
Ltac fv_eq_tac :=
  let v := fresh "v" in
  intros v; destruct v as [z|b|f|s0| |l|n]; unfold fvalidate; unfold_gen;
  cbn [py_isinstance existsb isinstance1 as_bool bind py_truth negb orb py_float pyerr_eqb];
  try reflexivity;
  try (destruct (f_of_Z_cases z) as [(m & e & E)|E]; rewrite ?E; reflexivity);
  try (destruct b; vm_compute; reflexivity);
  try (destruct f as [m e| | |]; vm_compute; reflexivity).

Lemma fv1 : forall v, BaseFloatType__validate v = fvalidate v. Proof. fv_eq_tac. Qed.
Lemma fv2 : forall v, XsdDouble__validate v = fvalidate v. Proof. fv_eq_tac. Qed.
(** ST_AxisUnit.validate: the float validator, then strictly positive *)
Definition axvalidate (v : pyval) : res pyval :=
  _ <- fvalidate v ;; t <- py_le v (PFloat (Fin 0 0)) ;; if t then Err ValueErr else Ok PNone.
Lemma fv3 : forall v, ST_AxisUnit__validate v = axvalidate v. Proof. unfold axvalidate. fv_eq_tac. Qed.


Definition fclass (v : pyval) : res pyfloat :=
  match v with
  | PInt z => match f_of_Z z with Ok x => Ok x | Err _ => Err ValueErr end
  | PBool b => Ok (Fin (if b then 1 else 0) 0)
  | PFloat (Fin m e) => Ok (Fin m e)
  | PFloat _ => Err ValueErr
  | _ => Err TypeErr
  end.

Lemma fvalidate_spec v :
  match fclass v with
  | Ok f => fvalidate v = Ok PNone /\ py_float v = Ok (PFloat f) /\ f_is_finite f = true
  | Err e => fvalidate v = Err e /\ (e = TypeErr \/ e = ValueErr)
  end.
Proof.
  destruct v as [z|b|f|s0| |l|n]; cbn [fclass]; try (split; [reflexivity|auto]).
  - unfold fvalidate. cbn [py_isinstance existsb isinstance1 as_bool bind py_truth negb orb py_float].
    destruct (f_of_Z_cases z) as [(m & e & E)|E]; rewrite E; cbn [bind pyerr_eqb].
    + unfold py_ne. cbn [py_eqb as_num cmp_num]. rewrite f_cmp_fin, Z.compare_refl.
      split; [|split; reflexivity]. reflexivity.
    + split; [reflexivity|auto].
  - destruct b; vm_compute; repeat split.
  - destruct f as [m e| | |]; try (vm_compute; split; [reflexivity|auto]).
    unfold fvalidate. cbn [py_isinstance existsb isinstance1 as_bool bind py_truth negb orb py_float].
    unfold py_ne. cbn [py_eqb as_num cmp_num]. rewrite f_cmp_fin, Z.compare_refl.
    split; [|split; reflexivity]. reflexivity.
Qed.

Lemma BaseFloatType_validate_spec v :
  match fclass v with
  | Ok f => BaseFloatType__validate v = Ok PNone /\ py_float v = Ok (PFloat f) /\ f_is_finite f = true
  | Err e => BaseFloatType__validate v = Err e /\ (e = TypeErr \/ e = ValueErr)
  end.
Proof. rewrite fv1. apply fvalidate_spec. Qed.

Lemma f_of_Z_finite z x : f_of_Z z = Ok x -> f_is_finite x = true.
Proof.
  destruct (f_of_Z_cases z) as [(m & e & E)|E]; rewrite E; [intros [= <-]; reflexivity|discriminate].
Qed.

(** FULL STATEMENT (not provable in this model): every accepted value is written as a valid
    xsd:double lexical form.  str(float) is not modelled digit by digit (lib/PyVal.v
    repr_float is a marker followed by mantissa and exponent), so what is proved is: the
    text written is the repr of float(value), and that float is FINITE (neither inf nor
    nan, which python would print as inf / nan, not valid xsd:double).  Missing: python repr of
    a finite binary64 is a valid xsd:double literal (digits, optional point, optional
    e+NN / e-NN exponent); this is in the trusted base and compared through float(text) by
    the correspondence. *)
Definition float_written (v : pyval) (s : str) : Prop :=
  exists f, py_float v = Ok (PFloat f) /\ f_is_finite f = true /\ s = repr_float f.

Theorem W_XsdDouble_partial : forall v s,
  XsdDouble__to_xml v = Ok (PStr s) -> float_written v s.
Proof.
  intros v s H.
  unfold XsdDouble__to_xml, XsdDouble__convert_to_xml in H. rewrite fv2 in H.
  pose proof (fvalidate_spec v) as S. destruct (fclass v) as [f|e].
  - destruct S as (S1 & S2 & S3). rewrite S1, S2 in H. cbn [bind py_str] in H.
    injection H as <-. exists f. auto.
  - destruct S as (S1 & _). rewrite S1 in H. discriminate H.
Qed.

(** Rej: every other value is refused with TypeError or ValueError, nothing else (an int
    beyond the range of a double used to leave through OverflowError; repaired in /repo) *)
Theorem Rej_XsdDouble : forall v e, XsdDouble__to_xml v = Err e -> e = TypeErr \/ e = ValueErr.
Proof.
  intros v e H.
  unfold XsdDouble__to_xml, XsdDouble__convert_to_xml in H. rewrite fv2 in H.
  pose proof (fvalidate_spec v) as S. destruct (fclass v) as [f|e'].
  - destruct S as (S1 & S2 & S3). rewrite S1, S2 in H. discriminate H.
  - destruct S as (S1 & S2). rewrite S1 in H. cbn [bind] in H. injection H as <-. exact S2.
Qed.

(** ST_AxisUnit (c:majorUnit/@val ...): the same, and the value is positive *)
Theorem W_AxisUnit_partial : forall v s,
  ST_AxisUnit__to_xml v = Ok (PStr s) ->
  float_written v s /\ py_le v (PFloat (Fin 0 0)) = Ok false.
Proof.
  intros v s H.
  unfold ST_AxisUnit__to_xml, ST_AxisUnit__convert_to_xml in H. rewrite fv3 in H. unfold axvalidate in H.
  pose proof (fvalidate_spec v) as S. destruct (fclass v) as [f|e].
  - destruct S as (S1 & S2 & S3). rewrite S1, S2 in H. cbn [bind] in H.
    destruct (py_le v (PFloat (Fin 0 0))) as [[|]|] eqn:L; cbn [bind py_str] in H; try discriminate H.
    injection H as <-. split; [exists f; auto|reflexivity].
  - destruct S as (S1 & _). rewrite S1 in H. discriminate H.
Qed.

Lemma py_le_num_err v f e : fclass v = Ok f -> py_le v (PFloat (Fin 0 0)) = Err e -> False.
Proof.
  destruct v as [z|b|g|s0| |l|n]; cbn [fclass]; try discriminate; intros _; unfold py_le, py_order;
    cbn [as_num]; discriminate.
Qed.

Theorem Rej_AxisUnit : forall v e, ST_AxisUnit__to_xml v = Err e -> e = TypeErr \/ e = ValueErr.
Proof.
  intros v e H.
  unfold ST_AxisUnit__to_xml, ST_AxisUnit__convert_to_xml in H. rewrite fv3 in H. unfold axvalidate in H.
  pose proof (fvalidate_spec v) as S. destruct (fclass v) as [f|e'] eqn:FC.
  - destruct S as (S1 & S2 & S3). rewrite S1, S2 in H. cbn [bind] in H.
    destruct (py_le v (PFloat (Fin 0 0))) as [[|]|e2] eqn:L; cbn [bind py_str] in H; try discriminate H.
    + injection H as <-. auto.
    + exfalso. eapply py_le_num_err; eassumption.
  - destruct S as (S1 & S2). rewrite S1 in H. cbn [bind] in H. injection H as <-. exact S2.
Qed.

Example XsdDouble_examples :
  (exists s, XsdDouble__to_xml (PFloat (Fin 3 (-1))) = Ok (PStr s))                       (* 1.5 *)
  /\ (exists s, XsdDouble__to_xml (PInt 7) = Ok (PStr s))
  /\ XsdDouble__to_xml (PFloat NaN) = Err ValueErr
  /\ XsdDouble__to_xml (PFloat PInf) = Err ValueErr
  /\ XsdDouble__to_xml (PFloat NInf) = Err ValueErr
  /\ XsdDouble__to_xml (PStr [49]%N) = Err TypeErr
  /\ (exists s, ST_AxisUnit__to_xml (PFloat (Fin 1 (-1074))) = Ok (PStr s))               (* 5e-324 *)
  /\ ST_AxisUnit__to_xml (PInt 0) = Err ValueErr
  /\ ST_AxisUnit__to_xml (PFloat (Fin (-1) 0)) = Err ValueErr.
Proof. vm_compute. repeat split; eexists; reflexivity. Qed.

(** ---- formerly refuted, now positive ---- *)

(** Before the repair (fix: an int beyond the range of a double ...) the three classes that
    call float() on an int AFTER validating it let 10**400 escape as OverflowError
    (Rej_*_refuted, witness huge_int).  The regenerated validate now converts first, and the
    witness is refused with ValueError. *)
Definition huge_int : pyval := PInt (10 ^ 400).

Example huge_int_now_refused :
  XsdDouble__to_xml huge_int = Err ValueErr
  /\ ST_AxisUnit__to_xml huge_int = Err ValueErr
  /\ ST_Angle__to_xml huge_int = Err ValueErr
  /\ XsdDouble__to_xml (PInt (- 10 ^ 400)) = Err ValueErr.
Proof. vm_compute. repeat split. Qed.

(** the same int is refused by the classes that range-check first (exact int/float
    comparison) and, since the repair, by ST_PositiveFixedAngle too (it used to write 16800000:
    int % int stays an int) *)
Example huge_int_elsewhere :
  ST_Percentage__to_xml huge_int = Err ValueErr
  /\ ST_TextFontScalePercentOrPercentString__to_xml huge_int = Err ValueErr
  /\ ST_PositiveFixedAngle__to_xml huge_int = Err ValueErr.
Proof. vm_compute. repeat split. Qed.

(** W fails for the two OPC string types: the classes accept EVERY str, the schema types
    carry a pattern (C11_patterns.re_ext, re_ctype) *)
Lemma str_class_accepts_all_ext s : ST_Extension__to_xml (PStr s) = Ok (PStr s).
Proof. reflexivity. Qed.
Lemma str_class_accepts_all_ctype s : ST_ContentType__to_xml (PStr s) = Ok (PStr s).
Proof. reflexivity. Qed.

Theorem W_Extension_refuted :
  exists v s, ST_Extension__to_xml v = Ok (PStr s) /\ re_matches re_ext s = false.
Proof. exists (PStr [97; 32; 98]%N), [97; 32; 98]%N. vm_compute. split; reflexivity. Qed.      (* a b *)

Theorem W_ContentType_refuted :
  exists v s, ST_ContentType__to_xml v = Ok (PStr s) /\ re_matches re_ctype s = false.
Proof. exists (PStr [120; 109; 108]%N), [120; 109; 108]%N. vm_compute. split; reflexivity. Qed. (* xml *)

(** what IS true of them: exactly the strings are accepted, written unchanged *)
Theorem W_Extension_partial : forall v s, ST_Extension__to_xml v = Ok (PStr s) -> v = PStr s.
Proof. intros v s H. destruct v; try discriminate H. vm_compute in H. congruence. Qed.
Theorem W_ContentType_partial : forall v s, ST_ContentType__to_xml v = Ok (PStr s) -> v = PStr s.
Proof. intros v s H. destruct v; try discriminate H. vm_compute in H. congruence. Qed.
