(** Runner entry point for the C04 correspondence.

    [run_c04 (op :: tokens)] with op = h : the tokens first describe a prior state
    and then a history of operations; every token is one field whose first code
    point is its tag, numbers (ids, indices) travel as single code points.

    state tokens   N            cell without a:txBody
                   B x          text body whose a:bodyPr is x, no paragraph yet
                   P            new a:p appended to the body
                   p x / e x    a:pPr x / a:endParaRPr x appended to the last a:p
                   R h x t..    a:r (h = 1: with a:rPr x) with text t
                   b            a:br          F t..   a:fld with text t
    operations     f t.. / c t..   assign at frame / cell (shape) level
                   a i t..         assign paragraphs[i].text
                   r i j t..       assign paragraphs[i].runs[j].text
                   + i  / i  x i   add_run, add_line_break, clear on paragraphs[i]
                   g   q i         read frame text / paragraph text
    output: one field per operation (ok:text or err:Index), then the frame text,
    then the skeleton of the final tree. *)
From V.lib Require Import Prelude Wire.
From V.model Require Import Text Escape TextCodec.

Definition op_h : str := [104]%N.

(** ---- skeleton rendering ---- *)
Definition c_semi : N := 59%N.
Definition c_colon : N := 58%N.
Definition show_optN (o : option N) : str :=
  match o with Some x => show_N x | None => [c_minus] end.

Definition show_item (i : item) : str :=
  match i with
  | R x t => 82%N :: show_optN x ++ c_colon :: show_str t
  | Br => [98%N]
  | Fld t => 70%N :: c_colon :: show_str t
  end.
Definition show_pchild (c : pchild) : str :=
  match c with
  | PPr x => 112%N :: show_N x
  | It i => show_item i
  | EndRPr x => 101%N :: show_N x
  end.
Definition show_para (p : para) : list str := [80%N] :: map show_pchild p.
Definition show_cell (c : cell) : str :=
  match c with
  | None => [78%N]
  | Some b => join_with [c_semi] ((66%N :: show_N (bodypr b)) :: flat_map show_para (paras b))
  end.

(** ---- state construction ---- *)
Definition snoc_para (c : cell) (ch : pchild) : cell :=
  match c with
  | None => None
  | Some b =>
      match rev (paras b) with
      | [] => Some b
      | lastp :: before => Some (mkBody (bodypr b) (rev before ++ [lastp ++ [ch]]))
      end
  end.

(** ---- operations ---- *)
Definition parse_op (tok : str) : option op :=
  match tok with
  | 102%N :: s => Some (OFrame s)
  | 99%N :: s => Some (OCell s)
  | 97%N :: i :: s => Some (OPara (N.to_nat i) s)
  | 114%N :: i :: j :: s => Some (ORun (N.to_nat i) (N.to_nat j) s)
  | 43%N :: i :: _ => Some (OAddRun (N.to_nat i))
  | 47%N :: i :: _ => Some (OAddBr (N.to_nat i))
  | 120%N :: i :: _ => Some (OClear (N.to_nat i))
  | 103%N :: _ => Some OReadFrame
  | 113%N :: i :: _ => Some (OReadPara (N.to_nat i))
  | _ => None
  end.

Definition step (st : cell * list str) (tok : str) : cell * list str :=
  let (c, outs) := st in
  match tok with
  | 78%N :: _ => (None, outs)
  | 66%N :: x :: _ => (Some (mkBody x []), outs)
  | 80%N :: _ =>
      (match c with Some b => Some (mkBody (bodypr b) (paras b ++ [[]])) | None => None end, outs)
  | 112%N :: x :: _ => (snoc_para c (PPr x), outs)
  | 101%N :: x :: _ => (snoc_para c (EndRPr x), outs)
  | 82%N :: h :: x :: t => (snoc_para c (It (R (if N.eqb h 49 then Some x else None) t)), outs)
  | 98%N :: _ => (snoc_para c (It Br), outs)
  | 70%N :: t => (snoc_para c (It (Fld t)), outs)
  | _ =>
      match parse_op tok with
      | Some o => let (c', r) := apply_op o c in (c', outs ++ [show_res show_str r])
      | None => (c, outs ++ [w_badcase])
      end
  end.

(** leaf level of save / re-open (op lx): the text of one a:t written by libxml2's serialiser (text escaping:
    amp, lt, gt and CR as a character reference) and read by the parser model of model/Escape.v:
    fields = escaped text, then ok + the text read back, or broken *)
Definition op_lx : str := [108; 120]%N.
Definition lxml_text_escape (s : str) : str := sax_escape_g false false false true s.
Definition run_lx (s : str) : str :=
  let e := lxml_text_escape s in
  fields [show_str e; match lex_text e with OneText v => w_ok ++ show_str v | BrokenText => w_badcase end].

(** whole-body level of save / re-open (model/TextCodec.v).
    op se: the tokens describe a prior state and a history exactly as for op h; fields = the text enc_body writes for
    the final body, then whether every run / field text of that body is a string of XML characters (xml_body).
    op pa: the one token is a text; ok + the skeleton of the body dec_body reads, or None when the text is not
    recognised. *)
Definition op_se : str := [115; 101]%N.
Definition op_pa : str := [112; 97]%N.
Definition run_se (toks : list str) : str :=
  let (c, _) := fold_left step toks (None, []) in
  let b := cell_body c in
  fields [show_str (enc_body b); show_bool (xml_body b)].
Definition run_pa (s : str) : str :=
  match dec_body s with
  | Some b => w_ok ++ show_cell (Some b)
  | None => w_none
  end.

Definition run_c04 (args : list str) : str :=
  match args with
  | op :: toks =>
      if str_eqb op op_lx then
        match toks with [s] => run_lx s | [] => run_lx [] | _ => w_badcase end
      else
      if str_eqb op op_se then run_se toks
      else
      if str_eqb op op_pa then
        match toks with [s] => run_pa s | [] => run_pa [] | _ => w_badcase end
      else
      if str_eqb op op_h then
        let (c, outs) := fold_left step toks (None, []) in
        fields (outs ++ [match c with
                         | None => [78%N]
                         | Some _ => show_str (get_cell c) end;
                         show_cell c])
      else w_badcase
  | [] => w_badcase
  end.
